"""Bounded stand-in (class B) for C08's row addressing: every shipped column type written with random gap patterns
(dense, sparse, trailing gaps, empty) at sizes that cross the implementation thresholds (RefBytes 1-byte -> 2-byte
references at 256 unique values, VarBytes offset table cutoff, BitColumn compression, block columns) and read back
row by row, by iteration and through load(); every row must hold its value or the column default.

usage: columns_bounded.py <scale> <seed>
"""
import json
import random
import sys
import tempfile
import os
import traceback

fails = []
counts = {"cases": 0}


def fail(case, detail):
    if not any(f["case"] == case for f in fails):
        fails.append({"case": case, "detail": detail[:500]})


def roundtrip(name, col, rows, doccount, default, base=5):
    """rows: {docnum: value}"""
    from whoosh.filedb.filestore import RamStorage
    counts["cases"] += 1
    st = RamStorage()
    f = st.create_file("c")
    f.write(b"x" * base)
    try:
        w = col.writer(f)
        for dn in sorted(rows):
            w.add(dn, rows[dn])
        w.finish(doccount)
        length = f.tell() - base
        f.close()
        f = st.open_file("c")
        r = col.reader(f, base, length, doccount)
        target = [rows.get(i, default) for i in range(doccount)]
        for i in range(doccount):
            v = r[i]
            if v != target[i]:
                fail("C08-%s-row" % name, "%s: row %d of %d = %r expected %r (rows with values: %d, distinct values: %d)"
                     % (name, i, doccount, v, target[i], len(rows), len(set(map(repr, rows.values())))))
                return
        if list(r) != target:
            fail("C08-%s-iter" % name, "%s: iteration differs from the rows (doccount %d)" % (name, doccount))
        try:
            lr = r.load()
            if list(lr) != target:
                fail("C08-%s-load" % name, "%s: load() differs from the rows (doccount %d)" % (name, doccount))
        except NotImplementedError:
            pass
    except Exception as e:
        fail("C08-%s-exception" % name, "%s (doccount %d, %d rows): %s: %s | %s" % (name, doccount, len(rows), type(e).__name__, e,
                                                                                      traceback.format_exc()[-300:]))


def patterns(rnd, doccount):
    """gap patterns: dense, every k-th, random subset, leading/trailing gaps, empty"""
    out = [set(range(doccount)), set(range(0, doccount, 3)), set(range(doccount // 2)), set(range(doccount // 2, doccount)), set()]
    out.append(set(i for i in range(doccount) if rnd.random() < 0.5))
    out.append(set(i for i in range(doccount) if i % 7 != 0 or i < 300))
    return out


def main():
    scale, seed = int(sys.argv[1]), int(sys.argv[2])
    tmp = tempfile.mkdtemp(prefix="cb_")
    os.environ["TMPDIR"] = tmp
    tempfile.tempdir = tmp
    from whoosh import columns
    rnd = random.Random(seed)
    sizes = [0, 1, 2, 17, 300, 700] + ([70000] if scale > 1 else [])
    for doccount in sizes:
        for pat in patterns(rnd, doccount):
            uniq_small = [("v%d" % i).encode() for i in range(5)]
            uniq_big = [("value-%04d-\U0001F600" % i).encode("utf8") for i in range(420)]
            for tag, uni in (("few", uniq_small), ("many", uniq_big)):
                vals = dict((i, uni[(i * 7 + len(pat)) % len(uni)]) for i in pat)
                roundtrip("VarBytes", columns.VarBytesColumn(), vals, doccount, b"")
                roundtrip("VarBytes-cutoff", columns.VarBytesColumn(write_offsets_cutoff=16), vals, doccount, b"")
                roundtrip("RefBytes-" + tag, columns.RefBytesColumn(), vals, doccount, b"")
                roundtrip("CompressedBytes", columns.CompressedBytesColumn(), vals, doccount, b"")
                roundtrip("CompressedBlock", columns.CompressedBlockColumn(blocksize=1), vals, doccount, b"")
            fixed = dict((i, ("%05d" % ((i * 13) % 500)).encode()) for i in pat)
            roundtrip("FixedBytes", columns.FixedBytesColumn(5), fixed, doccount, b"\x00" * 5)
            roundtrip("RefBytes-fixed", columns.RefBytesColumn(5), fixed, doccount, b"\x00" * 5)
            for tc, lo, hi in (("b", -128, 127), ("B", 0, 255), ("h", -2 ** 15, 2 ** 15 - 1), ("H", 0, 2 ** 16 - 1),
                               ("i", -2 ** 31, 2 ** 31 - 1), ("I", 0, 2 ** 32 - 1), ("q", -2 ** 63, 2 ** 63 - 1), ("Q", 0, 2 ** 64 - 1)):
                nums = dict((i, rnd.choice([lo, hi, 0, 1, (lo + hi) // 2])) for i in pat)
                roundtrip("Numeric-" + tc, columns.NumericColumn(tc), nums, doccount, 0)
                roundtrip("Numeric-default-" + tc, columns.NumericColumn(tc, default=hi), nums, doccount, hi)
            fl = dict((i, rnd.choice([0.0, 1.5, -2.25, 1e30])) for i in pat)
            roundtrip("Numeric-d", columns.NumericColumn("d"), fl, doccount, 0)
            bits = dict((i, True) for i in pat)
            roundtrip("Bit", columns.BitColumn(), bits, doccount, False)
            roundtrip("Bit-compressed", columns.BitColumn(compress_at=4), bits, doccount, False)
            st = dict((i, (i % 100, float(i % 7), i % 60000)) for i in pat)
            roundtrip("Struct", columns.StructColumn("ifH", (0, 0.0, 0)), st, doccount, (0, 0.0, 0))
            pk = dict((i, rnd.choice([True, 5, "x\U0001F600", [1, 2], {"a": 1}, 2 ** 70])) for i in pat)
            roundtrip("Pickle", columns.PickleColumn(columns.VarBytesColumn()), pk, doccount, None)
            if doccount <= 700:
                ls = dict((i, [("%d" % (i % 5)).encode(), b"zz"][:1 + i % 2]) for i in pat)
                roundtrip("VarBytesList", columns.VarBytesListColumn(), ls, doccount, [])
    # offsets table written (row count above the cutoff) while the LAST stored value pushes the running offset across a
    # typecode boundary (256, 65536) and the remaining rows are filled at finish()
    for doccount in (17, 300):
        for biglen in (255, 256, 300, 65535, 65536, 70000):
            for where in (0, 3, doccount - 2):
                rows = {where: b"x" * biglen}
                if where > 0:
                    rows[0] = b"ab"
                roundtrip("VarBytes-offsets-retype", columns.VarBytesColumn(write_offsets_cutoff=16), rows, doccount, b"")
                roundtrip("CompressedBytes-offsets-retype", columns.CompressedBytesColumn(), rows, doccount, b"")
    # columns of a real segment larger than the compound writer's staging buffer (32 KB): stored values and a sortable
    # key of every document, compound and loose, one and several segments
    from whoosh import fields
    from whoosh.filedb.filestore import RamStorage
    for compound in (True, False):
        for ndocs, size in ((150, 700), (40, 5000), (300, 90)):
            counts["cases"] += 1
            try:
                ix = RamStorage().create_index(fields.Schema(key=fields.ID(stored=True, sortable=True), blob=fields.STORED,
                                                            n=fields.NUMERIC(sortable=True, stored=True)))
                docs = []
                w = ix.writer(compound=compound)
                for i in range(ndocs):
                    d = {"key": u"k%05d-%s" % (i, "%x" % rnd.getrandbits(64)), "n": (i * 7919) % 100003 - 50000,
                         "blob": "".join(chr(33 + rnd.randrange(90)) for _ in range(size + (i % 13)))}
                    docs.append(d)
                    w.add_document(**d)
                    if i == ndocs // 2:
                        w.commit(merge=False)
                        w = ix.writer(compound=compound)
                w.commit(merge=False)
                with ix.reader() as r:
                    kr, nr = r.column_reader("key"), r.column_reader("n")
                    for dn in range(ndocs):
                        sf = r.stored_fields(dn)
                        if sf != docs[dn] or kr[dn] != docs[dn]["key"] or nr[dn] != docs[dn]["n"]:
                            fail("C08-large-segment-%s" % ("compound" if compound else "loose"),
                                 "doc %d of %d (stored ~%d bytes each): stored %r... key column %r num column %r expected key %r num %r"
                                 % (dn, ndocs, size, str(sf)[:80], kr[dn], nr[dn], docs[dn]["key"], docs[dn]["n"]))
                            break
            except Exception as e:
                fail("C08-large-segment-exception", "%s: %s | %s" % (type(e).__name__, e, traceback.format_exc()[-300:]))
    import shutil
    shutil.rmtree(tmp, ignore_errors=True)
    print(json.dumps({"cases": counts["cases"], "failures": fails}))


if __name__ == "__main__":
    main()
