"""Bounded stand-in (class B) for C10's posting formats: every shipped posting format (Existence, Frequency, Positions,
Characters, PositionBoosts, CharacterBoosts) x field boost {1, 2} x posting block limit {1, 2, 128} x 1-2 segments,
random token streams with per-token boosts ("word^2"); the postings and the term vectors read back must carry exactly
what the analysis of each document produced: frequency, weight (sum of token boosts x field boost, float32), positions,
character offsets, per-position boosts; term statistics must be the aggregates of the list.

usage: formats_bounded.py <n> <seed>
"""
import json
import random
import sys
import tempfile
import os
import traceback

fails = []
counts = {"cases": 0}
VOCAB = ["alfa", "bravo", "charlie", "été"]
BOOSTS = [None, None, "0.5", "2", "3"]


def fail(case, detail, corpus=None):
    if not any(f["case"] == case for f in fails):
        fails.append({"case": case, "detail": detail[:700], "corpus": corpus})


def gen_doc(rnd):
    toks = []
    for _ in range(rnd.randint(1, 7)):
        w, b = rnd.choice(VOCAB), rnd.choice(BOOSTS)
        toks.append(w if b is None else "%s^%s" % (w, b))
    return " ".join(toks)


def analyse(text):
    """reference analysis: whitespace tokens, `^x` suffix is the boost; char span = the raw token"""
    out = []
    pos = 0
    i = 0
    for raw in text.split(" "):
        start = i
        i = i + len(raw) + 1
        if "^" in raw:
            w, b = raw.split("^")
            b = float(b)
        else:
            w, b = raw, 1.0
        end = start + len(w)          # DelimitedAttributeFilter shortens the span to the word itself
        out.append((w, pos, start, end, b))
        pos += 1
    return out


def f32(x):
    import struct
    return struct.unpack("f", struct.pack("f", x))[0]


def run_case(rnd, fmtname, fb, blocklimit, nseg, with_vector, memory=False):
    from whoosh import fields, formats, analysis
    from whoosh.codec.whoosh3 import W3Codec
    from whoosh.filedb.filestore import RamStorage
    ana = analysis.RegexTokenizer(r"\S+") | analysis.DelimitedAttributeFilter()
    fmt = getattr(formats, fmtname)(field_boost=fb)
    vec = getattr(formats, fmtname)(field_boost=fb) if with_vector else None
    ft = fields.FieldType(format=fmt, analyzer=ana, vector=vec, scorable=True)
    sch = fields.Schema(k=fields.ID(stored=True), f=ft)
    docs = [gen_doc(rnd) for _ in range(rnd.randint(1, 6))]
    cuts = sorted(rnd.sample(range(1, len(docs)), min(nseg - 1, len(docs) - 1))) if len(docs) > 1 else []
    if memory:
        # the in-memory codec keeps ONE growing segment that successive writers add to
        from whoosh.codec import memory as memcodec
        codec = memcodec.MemoryCodec()
        i = 0
        for chunk_end in cuts + [len(docs)]:
            with codec.writer(sch) as mw:
                while i < chunk_end:
                    mw.add_document(k=u"%d" % i, f=docs[i])
                    i += 1
        get_reader = lambda: codec.reader(sch)
    else:
        ix = RamStorage().create_index(sch)
        w = ix.writer(codec=W3Codec(blocklimit=blocklimit))
        for i, d in enumerate(docs):
            if i in cuts:
                w.commit(merge=False)
                w = ix.writer(codec=W3Codec(blocklimit=blocklimit))
            w.add_document(k=u"%d" % i, f=d)
        w.commit(merge=False)
        get_reader = ix.reader
    corpus = {"format": fmtname, "field_boost": fb, "blocklimit": blocklimit, "docs": docs, "cuts": cuts, "vector": with_vector,
              "memory": memory}
    tag = fmtname + ("-memcodec" if memory else "")
    exp = {}          # term -> {doc: [(pos,start,end,boost)...]}
    for i, d in enumerate(docs):
        for wd, pos, st, en, b in analyse(d):
            exp.setdefault(wd, {}).setdefault(i, []).append((pos, st, en, b))
    with get_reader() as r:
        k2d = dict((r.stored_fields(dn)["k"], dn) for dn in r.all_doc_ids())
        lex = sorted(t.decode("utf8") for t in r.lexicon("f"))
        if lex != sorted(exp):
            fail("C10-%s-lexicon" % tag, "lexicon %r expected %r" % (lex, sorted(exp)), corpus)
            return
        for term, byd in exp.items():
            m = r.postings("f", term)
            seen = []
            wsum, maxw = 0.0, 0.0
            while m.is_active():
                dn = m.id()
                key = [k for k, v in k2d.items() if v == dn][0]
                items = byd.get(int(key))
                if items is None:
                    fail("C10-%s-extra-posting" % tag, "%s lists document %s which does not contain it" % (term, key), corpus)
                    return
                seen.append(int(key))
                freq = len(items)
                weight = f32(sum(b for _, _, _, b in items) * fb) if fmtname not in ("Existence", "Frequency", "Positions", "Characters") \
                    else f32(sum(b for _, _, _, b in items) * fb)
                if fmtname == "Existence":
                    freq_exp = 1
                else:
                    freq_exp = freq
                got_w = m.weight()
                if m.supports("frequency") and m.value_as("frequency") != freq_exp:
                    fail("C10-%s-frequency" % tag, "%s in doc %s: frequency %r expected %r" % (term, key, m.value_as("frequency"), freq_exp), corpus)
                if fmtname != "Existence" and abs(got_w - weight) > 1e-6 * max(1.0, abs(weight)):
                    fail("C10-%s-weight" % tag, "%s in doc %s: weight %r expected %r (token boosts %r x field boost %r)"
                         % (term, key, got_w, weight, [b for _, _, _, b in items], fb), corpus)
                wsum += got_w
                maxw = max(maxw, got_w)
                if m.supports("positions"):
                    got = list(m.value_as("positions"))
                    if got != [p for p, _, _, _ in items]:
                        fail("C10-%s-positions" % tag, "%s in doc %s: positions %r expected %r" % (term, key, got, [p for p, _, _, _ in items]), corpus)
                if m.supports("characters"):
                    got = [tuple(x) for x in m.value_as("characters")]
                    if got != [(p, s, e) for p, s, e, _ in items]:
                        fail("C10-%s-characters" % tag, "%s in doc %s: characters %r expected %r" % (term, key, got, [(p, s, e) for p, s, e, _ in items]), corpus)
                if fmtname in ("PositionBoosts", "CharacterBoosts"):
                    got = [(p, float(b)) for p, b in m.value_as("position_boosts")]
                    if got != [(p, b) for p, _, _, b in items]:
                        fail("C10-%s-position_boosts" % tag, "%s in doc %s: position boosts %r expected %r" % (term, key, got, [(p, b) for p, _, _, b in items]), corpus)
                if fmtname == "CharacterBoosts":
                    got = [(p, s, e, float(b)) for p, s, e, b in m.value_as("character_boosts")]
                    if got != list(items):
                        fail("C10-%s-character_boosts" % tag, "%s in doc %s: %r expected %r" % (term, key, got, items), corpus)
                m.next()
            if seen != sorted(byd) and sorted(seen) == sorted(byd):
                fail("C10-%s-order" % tag, "%s: postings not ascending: %r" % (term, seen), corpus)
            if sorted(seen) != sorted(byd):
                fail("C10-%s-missing-posting" % tag, "%s lists %r expected %r" % (term, seen, sorted(byd)), corpus)
            ti = r.term_info("f", term)
            if ti.doc_frequency() != len(byd) or abs(ti.weight() - wsum) > 1e-5 * max(1.0, wsum) or abs(ti.max_weight() - maxw) > 1e-6 * max(1.0, maxw):
                fail("C10-%s-terminfo" % tag, "term_info(%s): df %r weight %r max_weight %r but the list has %d postings, weight sum %r, max %r"
                     % (term, ti.doc_frequency(), ti.weight(), ti.max_weight(), len(byd), wsum, maxw), corpus)
        if with_vector:
            for i, d in enumerate(docs):
                dn = k2d[u"%d" % i]
                if not r.has_vector(dn, "f"):
                    fail("C10-%s-vector-missing" % tag, "doc %d has no vector" % i, corpus)
                    continue
                toks = analyse(d)
                if fmtname == "Existence":
                    continue
                vw = dict((t, wv) for t, wv in r.vector_as("weight", dn, "f"))
                ew = {}
                for wd, pos, st, en, b in toks:
                    ew[wd] = ew.get(wd, 0.0) + b * fb
                if sorted(vw) != sorted(ew) or any(abs(vw[t] - f32(ew[t])) > 1e-6 * max(1.0, ew[t]) for t in ew):
                    fail("C10-%s-vector-weight" % tag, "vector weights of doc %d: %r expected %r" % (i, vw, ew), corpus)
                if fmt.supports("positions"):
                    vp = dict((t, list(p)) for t, p in r.vector_as("positions", dn, "f"))
                    ep = {}
                    for wd, pos, st, en, b in toks:
                        ep.setdefault(wd, []).append(pos)
                    if vp != ep:
                        fail("C10-%s-vector-positions" % tag, "vector positions of doc %d: %r expected %r" % (i, vp, ep), corpus)


def main():
    if sys.argv[1] == "--corpus":
        c = json.loads(sys.argv[2])
        rnd = random.Random(0)
        tmp = tempfile.mkdtemp(prefix="fb_")
        os.environ["TMPDIR"] = tmp
        tempfile.tempdir = tmp

        class Fixed(object):
            def __init__(self, docs, cuts):
                self.docs, self.cuts = docs, cuts
        # replay: same documents, same configuration
        global gen_doc
        it = iter(c["docs"])
        gen_doc = lambda rnd_: next(it)
        r2 = random.Random(0)
        r2.randint = lambda a, b: len(c["docs"]) if (a, b) == (1, 6) else random.Random(0).randint(a, b)
        r2.sample = lambda pop, k: list(c["cuts"])
        run_case(r2, c["format"], c["field_boost"], c["blocklimit"], len(c["cuts"]) + 1, c["vector"], memory=c.get("memory", False))
        for f in fails:
            print("FAIL", f["case"], "|", f["detail"])
        sys.exit(1 if fails else 0)
    n, seed = int(sys.argv[1]), int(sys.argv[2])
    tmp = tempfile.mkdtemp(prefix="fb_")
    os.environ["TMPDIR"] = tmp
    tempfile.tempdir = tmp
    rnd = random.Random(seed)
    for it in range(n):
        for fmtname in ("Existence", "Frequency", "Positions", "Characters", "PositionBoosts", "CharacterBoosts"):
            fb = rnd.choice([1.0, 2.0])
            bl = rnd.choice([1, 2, 128])
            nseg = rnd.choice([1, 2])
            counts["cases"] += 1
            try:
                run_case(rnd, fmtname, fb, bl, nseg, with_vector=rnd.random() < 0.5, memory=(it % 4 == 3))
            except Exception as e:
                fail("C10-%s-exception" % fmtname, "%s: %s | %s" % (type(e).__name__, e, traceback.format_exc()[-400:]))
    import shutil
    shutil.rmtree(tmp, ignore_errors=True)
    print(json.dumps({"cases": counts["cases"], "failures": fails}))


if __name__ == "__main__":
    main()
