"""Bounded stand-in (class B) for C19: edit distance, terms_within, FuzzyTerm and spelling suggestions of the REAL
code against a textbook optimal-string-alignment (restricted Damerau-Levenshtein) distance.

  distance   EXHAUSTIVE: all ordered pairs of words of length <= 4 over {a,b,c} (121 words, 14641 pairs), limit in
             {None,1,2,3}, for support.levenshtein.damerau_levenshtein and levenshtein
  index      random vocabularies (subsets of the same word universe plus one multi-byte letter), one or several
             segments: reader.terms_within(text, d in 1..2, prefix 0..3), FuzzyTerm matches, searcher.suggest order

usage: fuzzy_bounded.py <ncorpora> <seed>  |  fuzzy_bounded.py --corpus '<json>'
"""
import itertools
import json
import os
import random
import sys
import tempfile
import traceback

fails = []
counts = {"cases": 0}


def fail(case, detail, corpus=None):
    if not any(f["case"] == case for f in fails):
        fails.append({"case": case, "detail": detail[:500], "corpus": corpus})


def osa(a, b):
    d = [[0] * (len(b) + 1) for _ in range(len(a) + 1)]
    for i in range(len(a) + 1):
        d[i][0] = i
    for j in range(len(b) + 1):
        d[0][j] = j
    for i in range(1, len(a) + 1):
        for j in range(1, len(b) + 1):
            cost = 0 if a[i - 1] == b[j - 1] else 1
            d[i][j] = min(d[i - 1][j] + 1, d[i][j - 1] + 1, d[i - 1][j - 1] + cost)
            if i > 1 and j > 1 and a[i - 1] == b[j - 2] and a[i - 2] == b[j - 1]:
                d[i][j] = min(d[i][j], d[i - 2][j - 2] + 1)
    return d[len(a)][len(b)]


def lev(a, b):
    prev = list(range(len(b) + 1))
    for i in range(1, len(a) + 1):
        cur = [i]
        for j in range(1, len(b) + 1):
            cur.append(min(prev[j] + 1, cur[j - 1] + 1, prev[j - 1] + (a[i - 1] != b[j - 1])))
        prev = cur
    return prev[len(b)]


def words(maxlen, alphabet="abc"):
    out = [""]
    for n in range(1, maxlen + 1):
        out += ["".join(t) for t in itertools.product(alphabet, repeat=n)]
    return out


def check_distance():
    from whoosh.support.levenshtein import damerau_levenshtein, levenshtein
    ws = words(4)
    for a in ws:
        for b in ws:
            counts["cases"] += 1
            for fn, ref, nm in ((damerau_levenshtein, osa, "damerau"), (levenshtein, lev, "levenshtein")):
                d = ref(a, b)
                try:
                    r = fn(a, b)
                    if r != d:
                        fail("C19-%s" % nm, "%s(%r,%r) = %r expected %r" % (nm, a, b, r, d))
                    for lim in (1, 2, 3):
                        r = fn(a, b, limit=lim)
                        if (r <= lim) != (d <= lim) or (d <= lim and r != d):
                            fail("C19-%s-limit" % nm, "%s(%r,%r,limit=%d) = %r, true distance %r" % (nm, a, b, lim, r, d))
                except Exception as e:
                    fail("C19-%s-exception" % nm, "%s(%r,%r): %s: %s" % (nm, a, b, type(e).__name__, e))


def build(corpus):
    from whoosh import fields
    from whoosh.analysis import SpaceSeparatedTokenizer
    from whoosh.filedb.filestore import RamStorage
    ix = RamStorage().create_index(fields.Schema(k=fields.ID(stored=True), t=fields.TEXT(analyzer=SpaceSeparatedTokenizer(), spelling=True)))
    docs = corpus["docs"]
    start = 0
    for end in corpus["cuts"] + [len(docs)]:
        if end <= start:
            continue
        w = ix.writer()
        for i in range(start, end):
            w.add_document(k=str(i), t=" ".join(docs[i]))
        w.commit(merge=False)
        start = end
    return ix


def check_corpus(corpus):
    from whoosh import query
    ix = build(corpus)
    docs = corpus["docs"]
    vocab = sorted(set(w for d in docs for w in d))
    freq = {}
    for d in docs:
        for w in d:
            freq[w] = freq.get(w, 0) + 1
    multi = len(corpus["cuts"]) > 0
    tag = "multi-segment" if multi else "single-segment"
    with ix.searcher() as s:
        r = s.reader()
        for text in corpus["probes"]:
            for maxdist in (1, 2):
                for prefix in (0, 1, 2, 3):
                    counts["cases"] += 1
                    p_eff = min(prefix, len(text))       # a required prefix cannot exceed the word
                    exp = sorted(w for w in vocab if w[:p_eff] == text[:p_eff] and osa(w, text) <= maxdist)
                    try:
                        got = sorted(set(r.terms_within("t", text, maxdist, prefix=prefix)))
                    except Exception as e:
                        fail("C19-terms_within-exception-%s%s" % (tag, "-longprefix" if prefix > len(text) else ""),
                             "terms_within(%r,%d,prefix=%d): %s: %s" % (text, maxdist, prefix, type(e).__name__, e), corpus)
                        continue
                    if got != exp:
                        lv = sorted(w for w in vocab if w[:p_eff] == text[:p_eff] and lev(w, text) <= maxdist)
                        kind = "-plain-levenshtein" if got == lv else ""
                        fail("C19-terms_within-%s%s" % (tag, kind), "terms_within(%r, %d, prefix=%d) = %r expected %r (vocab %r)"
                             % (text, maxdist, prefix, got, exp, vocab), corpus)
                    if prefix <= 1:
                        q = query.FuzzyTerm("t", text, maxdist=maxdist, prefixlength=prefix)
                        try:
                            gd = sorted(int(s.stored_fields(d)["k"]) for d in q.docs(s))
                            ed = sorted(i for i, d in enumerate(docs) if any(w in exp for w in d))
                            if gd != ed and got == exp:
                                fail("C19-fuzzyterm-%s" % tag, "FuzzyTerm(%r,%d,%d) docs %r expected %r" % (text, maxdist, prefix, gd, ed), corpus)
                        except Exception as e:
                            if got == exp:
                                fail("C19-fuzzyterm-exception", "%s: %s" % (type(e).__name__, e), corpus)
            # the word-list corrector over the same vocabulary: exactly the words within the distance (its automaton is the plain
            # Levenshtein one, so the oracle here is `lev`), first and last word of the list included
            from whoosh import spelling
            for maxdist in (1, 2):
                counts["cases"] += 1
                try:
                    lc = sorted(spelling.ListCorrector(vocab).suggest(text, limit=1000, maxdist=maxdist))
                except Exception as e:
                    fail("C19-listcorrector-exception", "ListCorrector(%r).suggest(%r, maxdist=%d): %s: %s" % (vocab, text, maxdist, type(e).__name__, e), corpus)
                    continue
                exp_l = sorted(w for w in vocab if lev(w, text) <= maxdist)
                exp_o = sorted(w for w in vocab if osa(w, text) <= maxdist)
                if lc != exp_l and lc != exp_o:
                    fail("C19-listcorrector", "ListCorrector(%r).suggest(%r, maxdist=%d) = %r expected %r" % (vocab, text, maxdist, lc, exp_l), corpus)
            # suggestions: existing terms within distance, never the word itself, closest first then most frequent
            for maxdist in (1, 2):
                counts["cases"] += 1
                try:
                    sug = s.suggest("t", text, limit=10, maxdist=maxdist, prefix=0)
                except Exception as e:
                    fail("C19-suggest-exception", "%s: %s" % (type(e).__name__, e), corpus)
                    continue
                self_slot = 1 if text in sug else 0     # the self-suggestion (known finding) occupies one of the `limit` slots
                if text in sug:
                    fail("C19-suggest-self", "suggest(%r) contains the word itself: %r" % (text, sug), corpus)
                sug = [w for w in sug if w != text]      # the self-suggestion is reported once (C19-suggest-self)
                bad = [w for w in sug if w not in vocab or osa(w, text) > maxdist]
                if bad:
                    fail("C19-suggest-outside", "suggest(%r, maxdist=%d) = %r contains %r (not a term within the distance)" % (text, maxdist, sug, bad), corpus)
                # among suggestions at the SAME distance the more frequent word (total occurrences in the field) comes first
                for ia in range(len(sug)):
                    for ib in range(ia + 1, len(sug)):
                        u_, v_ = sug[ia], sug[ib]
                        if u_ in freq and v_ in freq and osa(u_, text) == osa(v_, text) and freq[u_] < freq[v_]:
                            fail("C19-suggest-order-frequency", "suggest(%r, maxdist=%d) = %r: %r (%d occurrences) is listed before %r (%d "
                                 "occurrences) at the same distance" % (text, maxdist, sug, u_, freq[u_], v_, freq[v_]), corpus)
                exp = sorted((w for w in vocab if w != text and osa(w, text) <= maxdist), key=lambda w: (osa(w, text), -freq[w], w))
                if not bad and not multi and [osa(w, text) for w in sug] != sorted(osa(w, text) for w in sug):
                    fail("C19-suggest-order-distance", "suggest(%r, maxdist=%d) = %r distances %r not ascending" % (text, maxdist, sug, [osa(w, text) for w in sug]), corpus)
                tw_ok = sorted(set(r.terms_within("t", text, maxdist, prefix=0)) - {text}) == sorted(exp)
                if not bad and tw_ok and sorted(sug) != sorted(exp)[:10] and len(exp) + self_slot <= 10:
                    fail("C19-suggest-set-%s" % tag, "suggest(%r, maxdist=%d) = %r expected the set %r" % (text, maxdist, sorted(sug), sorted(exp)), corpus)


def gen_corpus(rnd):
    universe = words(4)[1:] + ["éa", "aéb", "abé"]
    universe = [w * 2 if len(w) == 1 else w for w in universe]
    vocab = rnd.sample(universe, rnd.randint(4, 14))
    n = rnd.randint(2, 6)
    docs = [[rnd.choice(vocab) for _ in range(rnd.randint(1, 5))] for _ in range(n)]
    # some documents repeat one word several times, so that total occurrences and document counts rank words differently
    for d in docs:
        if rnd.random() < 0.3:
            d.extend([rnd.choice(d)] * rnd.randint(2, 4))
    cuts = sorted(set(rnd.sample(range(1, n), rnd.choice([0, 0, 1, 2])))) if n > 2 else []
    used = sorted(set(w for d in docs for w in d))
    probes = rnd.sample(used, min(3, len(used))) + [rnd.choice(universe), rnd.choice(universe)[:2]]
    return {"docs": docs, "cuts": cuts, "probes": probes}


def check_spelling_field():
    """C19 deterministic family: a stemmed field that keeps its unmodified words in a spelling sub-field: the terms within a
    distance are words of THAT sub-field, the same for one segment and for several."""
    from whoosh import fields, analysis
    from whoosh.filedb.filestore import RamStorage
    words = [u"running rendering", u"runner renders", u"ruined"]
    outs = []
    for cuts in ((), (1,), (1, 2)):
        ix = RamStorage().create_index(fields.Schema(t=fields.TEXT(analyzer=analysis.StemmingAnalyzer(), spelling=True)))
        w = ix.writer()
        for i, text in enumerate(words):
            if i in cuts:
                w.commit(merge=False)
                w = ix.writer()
            w.add_document(t=text)
        w.commit(merge=False)
        with ix.reader() as r:
            outs.append(dict((probe, sorted(r.terms_within("t", probe, 2))) for probe in (u"runing", u"rendring", u"ruined")))
    vocab = sorted(set(" ".join(words).split()))
    exp = dict((probe, sorted(w_ for w_ in vocab if osa(w_, probe) <= 2 or lev(w_, probe) <= 2)) for probe in outs[0])
    counts["cases"] += 3
    if outs[0] != outs[1] or outs[0] != outs[2]:
        fail("C19-spelling-field-segments", "terms_within on a stemmed field with a spelling sub-field: one segment %r, two %r, three %r"
             % (outs[0], outs[1], outs[2]))
    elif any(not set(outs[0][p]) <= set(vocab) for p in outs[0]):
        fail("C19-spelling-field-words", "terms_within returned stems instead of words: %r (words %r)" % (outs[0], vocab))


def check_batch4():
    """C19 deterministic families (fourth batch of seeded changes).
    Lazy lookups: several terms_within() generators created BEFORE any is consumed give the same answers as lookups
    consumed one at a time (one segment and two).
    Astral characters: a vocabulary with 4-byte characters (U+1F600, U+1F601 ...) next to ASCII words, chosen so that the
    plain and the transposition-aware distance agree on every pair: one segment, two segments and brute force agree."""
    from whoosh import fields
    from whoosh.analysis import SpaceSeparatedTokenizer
    from whoosh.filedb.filestore import RamStorage

    def mkix(vocab, cuts):
        ix = RamStorage().create_index(fields.Schema(t=fields.TEXT(analyzer=SpaceSeparatedTokenizer(), spelling=True)))
        w = ix.writer()
        for i, word in enumerate(vocab):
            if i in cuts:
                w.commit(merge=False)
                w = ix.writer()
            w.add_document(t=word)
        w.commit(merge=False)
        return ix

    vocab = [u"abc", u"abd", u"abcd", u"xbc", u"ab", u"bbc", u"abcde", u"zzz", u"a", u"abx"]
    probes = [(u"abc", 1), (u"abc", 2), (u"abd", 1), (u"zz", 1), (u"abcd", 2), (u"abc", 3)]
    for cuts in ((), (4,)):
        ix = mkix(vocab, cuts)
        with ix.reader() as r:
            eager = [sorted(r.terms_within("t", w_, d)) for w_, d in probes]
            gens = [r.terms_within("t", w_, d) for w_, d in probes]
            lazy = [sorted(g) for g in reversed(gens)][::-1]
            gens2 = [r.terms_within("t", w_, d) for w_, d in probes]
            its = [iter(g) for g in gens2]
            inter = [[] for _ in probes]
            alive = list(range(len(its)))
            while alive:                       # round-robin consumption
                for i in list(alive):
                    try:
                        inter[i].append(next(its[i]))
                    except StopIteration:
                        alive.remove(i)
            inter = [sorted(x) for x in inter]
        counts["cases"] += 2 * len(probes)
        if lazy != eager or inter != eager:
            fail("C19-lazy-lookups", "%d segment(s): terms_within generators created together and consumed later give %r (reverse order) / %r "
                 "(round robin); consumed one at a time: %r (probes %r)" % (len(cuts) + 1, lazy, inter, eager, probes))
    E0, E1, E2 = u"\U0001F600", u"\U0001F601", u"\U0001F64F"
    vocab = [u"a" + E0 + u"zz", u"a" + E1 + u"c", u"abc", u"ab", u"a" + E0 + u"c", u"a" + E2, E0 + u"bc", u"abd" + E1, u"b", u"azc", u"a" + E0,
             u"a\U0010ffffzz", u"ab\U0010ffff"]      # the LAST code point: nothing comes after it (fix b9b91e2)
    probes = [(u"abc", 1), (u"abc", 2), (u"a" + E0 + u"c", 1), (u"a" + E1, 1), (E1 + u"bc", 1), (u"a" + E0 + u"zz", 2)]
    svocab = sorted(set(vocab))
    for a in svocab + [p_ for p_, _ in probes]:
        for b in svocab:
            if osa(a, b) != lev(a, b):
                fail("exception/astral-harness", "harness vocabulary has a transposition pair %r %r" % (a, b))
    outs = []
    for cuts in ((), (5,), (3, 7)):
        ix = mkix(vocab, cuts)
        with ix.reader() as r:
            try:
                outs.append([sorted(r.terms_within("t", w_, d)) for w_, d in probes])
            except Exception as e:
                fail("C19-astral-exception", "%d segment(s): terms_within over a vocabulary with 4-byte characters raised %s: %s"
                     % (len(cuts) + 1, type(e).__name__, e))
                return
    exp = [sorted(v for v in svocab if lev(v, w_) <= d) for w_, d in probes]
    counts["cases"] += 3 * len(probes)
    for nseg, got in zip((1, 2, 3), outs):
        if got != exp:
            fail("C19-astral-terms_within", "%d segment(s): terms_within with 4-byte characters in the lexicon: %r, by definition %r (probes %r)"
                 % (nseg, [[x.encode("unicode_escape") for x in g] for g in got], [[x.encode("unicode_escape") for x in g] for g in exp], probes))
            break


def main():
    tmp = tempfile.mkdtemp(prefix="fb_")
    os.environ["TMPDIR"] = tmp
    tempfile.tempdir = tmp
    if sys.argv[1] == "--corpus":
        corpus = json.loads(sys.argv[2])
        if corpus:
            check_corpus(corpus)
        else:
            check_distance()
            check_spelling_field()
            check_batch4()
        for f in fails:
            print("FAIL", f["case"], "|", f["detail"])
        sys.exit(1 if fails else 0)
    n, seed = int(sys.argv[1]), int(sys.argv[2])
    try:
        check_distance()
    except Exception:
        fail("exception/distance", traceback.format_exc()[-600:])
    rnd = random.Random(seed)
    for _ in range(n):
        corpus = gen_corpus(rnd)
        try:
            check_corpus(corpus)
        except Exception:
            fail("exception/corpus", traceback.format_exc()[-600:], corpus)
    try:
        check_spelling_field()
    except Exception:
        fail("exception/spelling-field", traceback.format_exc()[-600:], None)
    try:
        check_batch4()
    except Exception:
        fail("exception/batch4", traceback.format_exc()[-600:], None)
    import shutil
    shutil.rmtree(tmp, ignore_errors=True)
    print(json.dumps({"cases": counts["cases"], "distinct_nontrivial": counts["cases"] - 1, "failures": fails,
                      "rule": "distance: every ordered pair of the 121 words of length <= 4 over {a,b,c} (distinct by "
                              "construction; all but the pair of empty words non-trivial); index: (corpus, probe, maxdist, prefix) tuples"}))


if __name__ == "__main__":
    main()
