"""Bounded stand-in (class B) for the index-level properties: the REAL writer/reader/searcher on a real directory
against a plain-Python model of the document-level operations.

  C06  logical dump (stored fields, lexicon, postings with frequency/weight/positions, term statistics, field lengths,
       vectors, column values, groups adjacency) is the model's, whatever the commit splitting / merge policy
  C07  deletes, updates (unique keys), cancel, with-block exceptions; doc_count; deleted docs invisible everywhere
  C08  stored values / column values (unicode incl. non-BMP, ints at limits, lists, _stored_ override) per document
  C10  postings, term info, vectors equal the analysed tokens (whitespace analyzer: tokens/positions computed here)
  C03  searchers held across later commits keep their snapshot; refresh()/new readers see the last commit; up_to_date
  C04  a second writer gets LockError while one is open; the lock is free after commit/cancel/failed with-block;
       every commit advances the generation by one
  C02  crash injection: the commit is aborted (exception out of the storage layer) at EVERY storage operation in turn;
       the directory reopened afterwards shows exactly the old or the new state, is searchable and writable, and the
       next commit leaves no unreferenced segment file behind

usage: index_bounded.py <nscenarios> <seed> [jobs]   |   index_bounded.py --scenario '<json>'
"""
import json
import os
import random
import shutil
import sys
import tempfile
import traceback

WORDS = ["alfa", "bravo", "charlie", "delta", "echo", "foxtrot", "\U0001F600smile", "été"]


def schema():
    from whoosh import fields
    from whoosh.analysis import SpaceSeparatedTokenizer
    return fields.Schema(id=fields.ID(unique=True, stored=True), path=fields.ID(unique=True, stored=True),
                         body=fields.TEXT(analyzer=SpaceSeparatedTokenizer(), vector=True, stored=True, field_boost=2.0),
                         tag=fields.KEYWORD(stored=True, scorable=True),
                         num=fields.NUMERIC(int, 32, signed=True, sortable=True, stored=True),
                         blob=fields.STORED)


def gen_doc(rnd, key):
    body = " ".join(rnd.choice(WORDS) for _ in range(rnd.randint(1, 7)))
    d = {"id": key, "body": body, "tag": " ".join(sorted(set(rnd.choice(["red", "green", "blue"]) for _ in range(rnd.randint(1, 2))))),
         "num": rnd.choice([0, 1, -1, 7, 2 ** 31 - 1, -2 ** 31, 12345]),
         "blob": rnd.choice([None, 5, "x\U0001F600", [1, "two", 3.5], {"k": [1, 2]}, "__bytes__"])}
    d["path"] = "/p/" + key          # unique; update operations may retarget it to another key's path
    r = rnd.random()
    if r < 0.12:
        d["_body_boost"] = 0.0
    elif r < 0.3:
        d["_body_boost"] = 2.0
    if rnd.random() < 0.15:
        d["_stored_body"] = "OVERRIDE " + key
    if rnd.random() < 0.2:
        del d["num"]
    return d


def mat(d):
    """materialise a generated document (JSON-safe scenario -> real values)"""
    d = dict(d)
    if d.get("blob") == "__bytes__":
        d["blob"] = b"\x00\xff"
    return d


def gen_scenario(rnd):
    nkeys = rnd.randint(3, 9)
    keys = ["k%d" % i for i in range(nkeys)]
    steps = []
    allow_bad = rnd.random() < 0.12      # histories with a rejected add_document are a family of their own (known finding)
    for _ in range(rnd.randint(2, 5)):                      # writers
        ops = []
        written = set()
        for _ in range(rnd.randint(1, 5)):
            r = rnd.random()
            if r < 0.5:
                ops.append(["add", gen_doc(rnd, rnd.choice(keys) + "-" + str(rnd.randrange(100000)))])
            elif r < 0.7:
                k = rnd.choice(keys)
                if k in written:
                    continue
                written.add(k)
                ud = gen_doc(rnd, k)
                if rnd.random() < 0.3:
                    # the second unique field points at ANOTHER key's document: both must be replaced
                    other = rnd.choice(keys)
                    if other not in written:
                        written.add(other)
                        ud["path"] = "/p/" + other
                ops.append(["update", ud])
            elif r < 0.85:
                ops.append(["delete_id", rnd.choice(keys)])
            elif r < 0.90:
                ops.append(["delete_word", rnd.choice(WORDS)])
            elif r < 0.94 and allow_bad:
                bad = gen_doc(rnd, "bad-%d" % rnd.randrange(100000))
                bad["num"] = "not-a-number"
                bad["blob"] = "secret of the rejected document"
                ops.append(["bad_add", bad])
            else:
                gid = rnd.randrange(10 ** 9)
                ops.append(["group", [gen_doc(rnd, "g%d-%d" % (gid, j)) for j in range(rnd.randint(2, 3))]])
        end = rnd.choice(["commit", "commit", "commit", "optimize", "nomerge", "cancel", "with-error", "with-ok"])
        steps.append({"ops": ops, "end": end})
    return {"steps": steps, "compound": rnd.random() < 0.7, "crash_step": rnd.randrange(len(steps)) if rnd.random() < 0.5 else None,
            "has_bad_add": any(op[0] == "bad_add" for st in steps for op in st["ops"]),
            # a tiny posting-pool budget makes the writer spill sorted runs to disk and merge them at commit
            "limitmb": rnd.choice([None, None, None, 0.0004])}


# ------------------------------------------------------------------ model
class Model(object):
    def __init__(self):
        self.docs = []          # live documents (dicts) in some order

    def copy(self):
        m = Model()
        m.docs = [dict(d) for d in self.docs]
        return m

    def begin(self):
        """a writer starts: deletes and updates of this writer only see what is committed now"""
        for d in self.docs:
            d.pop("__new", None)

    def apply(self, op):
        k = op[0]
        committed = lambda d: not d.get("__new")
        if k == "add":
            self.docs.append(dict(mat(op[1]), __new=True))
        elif k == "update":
            self.docs = [d for d in self.docs if not (committed(d) and (d["id"] == op[1]["id"] or d["path"] == op[1]["path"]))]
            self.docs.append(dict(mat(op[1]), __new=True))
        elif k == "bad_add":
            pass
        elif k == "delete_id":
            self.docs = [d for d in self.docs if not (committed(d) and d["id"] == op[1])]
        elif k == "delete_word":
            self.docs = [d for d in self.docs if not (committed(d) and op[1] in d["body"].split())]
        elif k == "group":
            for d in op[1]:
                self.docs.append(dict(mat(d), __new=True))

    def dump(self):
        out = {}
        for d in self.docs:
            toks = d["body"].split()
            post = {}
            for p, t in enumerate(toks):
                post.setdefault(t, []).append(p)
            stored = {"id": d["id"], "path": d["path"], "body": d.get("_stored_body", d["body"]), "tag": d["tag"]}
            if "num" in d:
                stored["num"] = d["num"]
            if d.get("blob") is not None:
                stored["blob"] = d["blob"]
            out.setdefault(d["id"], []).append({"stored": stored, "body_post": post, "body_len": len(toks),
                                                "boost": 2.0 * float(d.get("_body_boost", 1.0)),
                                                "tags": sorted(d["tag"].split()), "num": d.get("num")})
        return out


def apply_real(w, op):
    k = op[0]
    if k == "add":
        w.add_document(**mat(op[1]))
    elif k == "update":
        w.update_document(**mat(op[1]))
    elif k == "bad_add":
        try:
            w.add_document(**mat(op[1]))
            raise AssertionError("add_document accepted a non-numeric value for a NUMERIC field")
        except ValueError:
            pass
    elif k == "delete_id":
        w.delete_by_term("id", op[1])
    elif k == "delete_word":
        w.delete_by_term("body", op[1])
    elif k == "group":
        with w.group():
            for d in op[1]:
                w.add_document(**mat(d))


def real_dump(reader, fails, tag):
    """Logical content of a reader, keyed by the unique id; consistency of statistics is checked on the way."""
    out = {}
    dn2id = {}
    for dn in reader.all_doc_ids():
        sf = reader.stored_fields(dn)
        dn2id[dn] = sf["id"]
    live = set(dn2id)
    postings = {}
    for fname in ("body", "tag"):
        for tb in reader.lexicon(fname):
            t = tb.decode("utf8")
            m = reader.postings(fname, t)
            ids, wsum, maxw, minl, maxl = [], 0.0, 0.0, None, 0
            prev = -1
            while m.is_active():
                dn = m.id()
                if dn <= prev:
                    fails.append((tag + "C10-postings-order", "postings of %s:%s not ascending" % (fname, t)))
                prev = dn
                if dn not in live:
                    fails.append((tag + "C07-deleted-in-postings", "deleted doc %d in postings of %s:%s" % (dn, fname, t)))
                w = m.weight()
                pos = list(m.value_as("positions")) if fname == "body" else None
                fr = m.value_as("frequency")
                postings.setdefault((fname, t), {})[dn] = (fr, w, pos)
                ids.append(dn)
                wsum += w
                maxw = max(maxw, w)
                fl = reader.doc_field_length(dn, fname)
                minl = fl if minl is None else min(minl, fl)
                maxl = max(maxl, fl)
                m.next()
            if not ids:
                continue
            if not reader.has_deletions():
                ti = reader.term_info(fname, t)
                if ti.doc_frequency() != len(ids) or abs(ti.weight() - wsum) > 1e-6 or abs(ti.max_weight() - maxw) > 1e-6 \
                        or ti.min_id() != ids[0] or ti.max_id() != ids[-1]:
                    fails.append((tag + "C10-terminfo", "term_info(%s:%s) df=%r w=%r maxw=%r ids=%r..%r but postings give %d %r %r %r..%r"
                                  % (fname, t, ti.doc_frequency(), ti.weight(), ti.max_weight(), ti.min_id(), ti.max_id(),
                                     len(ids), wsum, maxw, ids[0], ids[-1])))
                if reader.is_atomic() and (ti.min_length() > minl or ti.max_length() < maxl):
                    fails.append((tag + "C10-terminfo-length", "term_info(%s:%s) min/max length %r/%r but docs have %r/%r"
                                  % (fname, t, ti.min_length(), ti.max_length(), minl, maxl)))
    cr = reader.column_reader("num") if reader.has_column("num") else None
    # a document without a value reads the field's column default (the largest int: such documents sort last)
    col_default = reader.schema["num"].from_column_value(reader.schema["num"].column_type.default_value())
    for dn, key in dn2id.items():
        sf = dict(reader.stored_fields(dn))
        post = {}
        boosts = set()
        wts = {}
        for (fname, t), byd in postings.items():
            if fname == "body" and dn in byd:
                fr, w, pos = byd[dn]
                if fr != len(pos):
                    fails.append((tag + "C10-freq-weight", "%s in doc %s: freq %r weight %r positions %r" % (t, key, fr, w, pos)))
                boosts.add(round(w / fr, 6) if fr else None)
                wts[t] = w
                post[t] = pos
        tags = sorted(t for (fname, t), byd in postings.items() if fname == "tag" and dn in byd)
        if len(boosts) > 1:
            fails.append((tag + "C10-weight", "doc %s: weight/frequency differs between terms: %r" % (key, sorted(boosts, key=repr))))
        if sf.get("blob") == "secret of the rejected document":
            fails.append(("C08-rejected-stored-fields", "document %s carries the stored value of a document whose add_document raised: %r"
                          % (key, sf)))
        rec = {"stored": sf, "body_post": post, "body_len": reader.doc_field_length(dn, "body"), "tags": tags, "num": sf.get("num"),
               "boost": (list(boosts)[0] if boosts else 1.0)}
        if reader.has_vector(dn, "body"):
            vec = dict((t, list(p)) for t, p in reader.vector_as("positions", dn, "body"))
            if vec != post:
                fails.append((tag + "C10-vector", "vector of %s = %r but transposed postings = %r" % (key, vec, post)))
            # the vector matcher itself (reader.vector) must be the same document's
            vm = reader.vector(dn, "body")
            vids = []
            while vm.is_active():
                vids.append(vm.id().decode("utf8") if isinstance(vm.id(), bytes) else vm.id())
                vm.next()
            if sorted(vids) != sorted(post):
                fails.append((tag + "C10-vector-matcher", "vector() of %s lists %r but the document's terms are %r" % (key, sorted(vids), sorted(post))))
            vw = dict((t, w_) for t, w_ in reader.vector_as("weight", dn, "body"))
            # the vector carries frequency x field boost (the per-document _<field>_boost only scales postings)
            if any(abs(vw.get(t, -1) - 2.0 * len(post[t])) > 1e-6 for t in post):
                fails.append((tag + "C10-vector-weight", "vector weights of %s = %r but frequency x field boost = %r"
                              % (key, vw, dict((t, 2.0 * len(p)) for t, p in post.items()))))
        elif post:
            fails.append((tag + "C10-vector-missing", "doc %s has no vector" % key))
        if cr is not None:
            # a document without a value reads the column default, whichever segment it lives in
            try:
                cv = cr[dn]
            except Exception as e:
                cv = "%s: %s" % (type(e).__name__, e)
            if cv != sf.get("num", col_default):
                fails.append((tag + "C08-column", "column value of %s (doc %d) = %r, stored %r" % (key, dn, cv, sf.get("num"))))
        out.setdefault(key, []).append(rec)
    if cr is not None:
        try:
            rows = list(cr)
        except Exception as e:
            rows = "%s: %s" % (type(e).__name__, e)
        exp_rows = dict((dn, reader.stored_fields(dn).get("num", col_default)) for dn in dn2id)
        if not isinstance(rows, list) or len(rows) != reader.doc_count_all() or any(rows[dn] != v for dn, v in exp_rows.items()):
            fails.append((tag + "C08-column-iter", "iterating the column gives %r for %d documents; live rows expected %r"
                          % (rows, reader.doc_count_all(), exp_rows)))
    if reader.doc_count() != len(dn2id):
        fails.append((tag + "C07-doc_count", "doc_count() = %d but %d live docs" % (reader.doc_count(), len(dn2id))))
    return out


def norm(d):
    return json.dumps(d, sort_keys=True, default=repr)


def compare(real, model, fails, case, detail=""):
    if norm(dict((k, sorted(v, key=norm)) for k, v in real.items())) != norm(dict((k, sorted(v, key=norm)) for k, v in model.items())):
        only_r = sorted(set(real) - set(model))
        only_m = sorted(set(model) - set(real))
        diff = [k for k in real if k in model and norm(sorted(real[k], key=norm)) != norm(sorted(model[k], key=norm))]
        ex = ""
        if diff:
            ex = " e.g. %s real=%s model=%s" % (diff[0], norm(real[diff[0]])[:300], norm(model[diff[0]])[:300])
        fails.append((case, "%s only-in-index=%r only-in-model=%r differing=%r%s" % (detail, only_r, only_m, diff[:4], ex)))
        return False
    return True


class Crash(Exception):
    pass


def make_crash_storage(path, counter):
    from whoosh.filedb.filestore import FileStorage

    class CrashStorage(FileStorage):
        def _tick(self, what):
            counter["n"] += 1
            counter["log"].append(what)
            if counter["at"] is not None and counter["n"] == counter["at"]:
                raise Crash(what)

        def create_file(self, name, **kw):
            self._tick("create " + name)
            f = FileStorage.create_file(self, name, **kw)
            # closing is an operation boundary too: until then the written bytes may sit in the process' buffers.
            # Files are kept referenced so that an aborted writer's buffers are not flushed behind our back by the GC.
            counter.setdefault("files", []).append(f)
            orig_close = f.close

            def close(_orig=orig_close, _name=name):
                self._tick("close " + _name)
                _orig()
            try:
                f.close = close
            except AttributeError:
                pass
            return f

        def rename_file(self, a, b, safe=False):
            self._tick("rename %s -> %s" % (a, b))
            return FileStorage.rename_file(self, a, b, safe=safe)

        def delete_file(self, name):
            self._tick("delete " + name)
            return FileStorage.delete_file(self, name)
    return CrashStorage(path)


def check_searches(s, model, fails, tag):
    from whoosh import query
    id_of = lambda hit: hit["id"]
    for w in WORDS[:4]:
        exp = sorted(d["id"] for d in model.docs if w in d["body"].split())
        got = sorted(id_of(h) for h in s.search(query.Term("body", w), limit=None))
        if got != exp:
            fails.append((tag + "C07-term-search", "Term(body,%s) -> %r expected %r" % (w, got, exp)))
        gotn = sorted(id_of(h) for h in s.search(query.Not(query.Term("body", w)), limit=None))
        expn = sorted(d["id"] for d in model.docs if w not in d["body"].split())
        if gotn != expn:
            fails.append((tag + "C07-not-search", "Not(body:%s) -> %r expected %r" % (w, gotn, expn)))
    got = sorted(id_of(h) for h in s.search(query.Every(), limit=None))
    if got != sorted(d["id"] for d in model.docs):
        fails.append((tag + "C07-every", "Every() -> %r expected %r" % (got, sorted(d["id"] for d in model.docs))))
    got = [id_of(h) for h in s.search(query.Every(), limit=None, sortedby="num")]
    exp = sorted(d["id"] for d in model.docs)
    if sorted(got) != exp:
        fails.append((tag + "C07-sorted-every", "sorted Every() ids %r expected %r" % (sorted(got), exp)))


def run_scenario(sc, fails_out):
    from whoosh import index
    from whoosh.index import LockError
    fails = []
    root = tempfile.mkdtemp(prefix="ixb_")
    try:
        ix = index.create_in(root, schema())
        model = Model()
        held = []          # (searcher, model snapshot, generation)
        gen = ix.latest_generation()
        for si, step in enumerate(sc["steps"]):
            model.begin()
            before = model.copy()
            crash_here = sc.get("crash_step") == si and step["end"] in ("commit", "optimize", "nomerge")
            if crash_here:
                # ---------------- C02: abort the commit at every storage operation in turn
                k = 1
                while True:
                    shutil.rmtree(root + "_c", ignore_errors=True)
                    shutil.copytree(root, root + "_c")
                    counter = {"n": 0, "at": None, "log": []}
                    st = make_crash_storage(root + "_c", counter)
                    from whoosh.index import FileIndex
                    cix = FileIndex(st, schema())
                    w = cix.writer(compound=sc["compound"])
                    after = before.copy()
                    for op in step["ops"]:
                        apply_real(w, op)
                        after.apply(op)
                    counter["at"] = counter["n"] + k
                    crashed = None
                    try:
                        w.commit(optimize=step["end"] == "optimize", merge=step["end"] != "nomerge")
                    except Crash as e:
                        crashed = str(e)
                    counter["at"] = None
                    if crashed is None:
                        break
                    # the "dead" writer's lock dies with the process: the kernel drops the lock when the descriptor
                    # goes away, nobody runs release() - the lock FILE stays in the directory
                    try:
                        lk = w.writelock
                        if lk is not None and getattr(lk, "fd", None) is not None:
                            os.close(lk.fd)
                            lk.fd = None
                            lk.locked = False
                        elif lk is not None:
                            lk.release()
                    except Exception:
                        pass
                    tag = "C02-crash@%d(%s): " % (k, crashed.split()[0])
                    try:
                        rix = index.open_dir(root + "_c")
                        with rix.reader() as r:
                            cf = []
                            d = real_dump(r, cf, "")
                        old_ok = norm(dict((kk, sorted(v, key=norm)) for kk, v in d.items())) == norm(dict((kk, sorted(v, key=norm)) for kk, v in before.dump().items()))
                        new_ok = norm(dict((kk, sorted(v, key=norm)) for kk, v in d.items())) == norm(dict((kk, sorted(v, key=norm)) for kk, v in after.dump().items()))
                        if not (old_ok or new_ok) or cf:
                            fails.append(("C02-crash-state", tag + "reopened index is neither the old nor the new state %r" % (cf[:2],)))
                        cur = before if old_ok else after
                        # writable again, and the next commit cleans up
                        w2 = rix.writer()
                        w2.add_document(id="after-crash", path="/p/after-crash", body="alfa", tag="red")
                        w2.commit()
                        cur2 = cur.copy()
                        cur2.apply(["add", {"id": "after-crash", "path": "/p/after-crash", "body": "alfa", "tag": "red"}])
                        with rix.reader() as r:
                            cf = []
                            d = real_dump(r, cf, "")
                            compare(d, cur2.dump(), fails, "C02-crash-recovery", tag + "state after the next commit")
                            refd = set()
                            for seg in rix._segments():
                                refd.add(seg.segment_id())
                        left = [f for f in os.listdir(root + "_c") if f.startswith("MAIN_") and not f.endswith(".toc") and "LOCK" not in f
                                and not any(f.startswith(sid) for sid in refd)]
                        if left:
                            fails.append(("C02-crash-orphans", tag + "unreferenced segment files remain after the next commit: %r" % (left,)))
                    except Exception as e:
                        fails.append(("C02-crash-unreadable", tag + "%s: %s | %s" % (type(e).__name__, e, traceback.format_exc()[-300:])))
                    k += 1
                    if k > 60:
                        break
                shutil.rmtree(root + "_c", ignore_errors=True)
                # ---------------- C03: a reader opened at ANY storage-operation boundary of the commit (another process
                # looking at the directory at that instant) sees the old or the new state, never an error
                shutil.copytree(root, root + "_c")
                counter = {"n": 0, "at": None, "log": []}
                st = make_crash_storage(root + "_c", counter)
                seen = []

                def probe(what, _before=before):
                    try:
                        pix = index.open_dir(root + "_c")
                        with pix.reader() as pr:
                            ids = sorted(pr.stored_fields(dn)["id"] for dn in pr.all_doc_ids())
                        seen.append((what, ids, None))
                    except Exception as e:
                        seen.append((what, None, "%s: %s" % (type(e).__name__, e)))
                orig_tick = st._tick

                def tick(what):
                    probe(what)
                    orig_tick(what)
                st._tick = tick
                from whoosh.index import FileIndex
                cix = FileIndex(st, schema())
                w = cix.writer(compound=sc["compound"])
                after = before.copy()
                for op in step["ops"]:
                    apply_real(w, op)
                    after.apply(op)
                seen[:] = []
                w.commit(optimize=step["end"] == "optimize", merge=step["end"] != "nomerge")
                old_ids = sorted(d["id"] for d in before.docs)
                new_ids = sorted(d["id"] for d in after.docs)
                for what, ids, err in seen:
                    if err is not None or (ids != old_ids and ids != new_ids):
                        fails.append(("C03-reader-during-commit", "a reader opened just before `%s` of a commit got %s (old state %r, new state %r)"
                                      % (what, err or ids, old_ids, new_ids)))
                        break
                # ---------------- C03: the commit lands between a reader's TOC read and its opening of the segment files
                if step["end"] == "optimize" and before.docs:
                    shutil.rmtree(root + "_c", ignore_errors=True)
                    shutil.copytree(root, root + "_c")
                    from whoosh.filedb.filestore import FileStorage
                    state = {"done": False}

                    class LateStorage(FileStorage):
                        def open_file(self, name, *a, **kw):
                            if not state["done"] and not name.endswith(".toc"):
                                state["done"] = True
                                wix = index.open_dir(root + "_c")
                                w9 = wix.writer(compound=sc["compound"])
                                for op in step["ops"]:
                                    apply_real(w9, op)
                                w9.commit(optimize=True)
                            return FileStorage.open_file(self, name, *a, **kw)
                    try:
                        lix = FileIndex(LateStorage(root + "_c"), schema())
                        with lix.reader() as lr:
                            ids = sorted(lr.stored_fields(dn)["id"] for dn in lr.all_doc_ids())
                        if ids != old_ids and ids != new_ids:
                            fails.append(("C03-reader-races-commit", "reader whose TOC read preceded an optimize commit got %r (old %r new %r)" % (ids, old_ids, new_ids)))
                    except Exception as e:
                        fails.append(("C03-reader-races-commit", "reader whose TOC read preceded an optimize commit failed: %s: %s" % (type(e).__name__, e)))
                shutil.rmtree(root + "_c", ignore_errors=True)
            # ---------------- the real step
            w = ix.writer(compound=sc["compound"], **({"limitmb": sc["limitmb"]} if sc.get("limitmb") else {}))
            # C04: a second writer must fail while this one is open
            try:
                w2 = ix.writer()
                fails.append(("C04-second-writer", "a second writer was created while one is open"))
                w2.cancel()
            except LockError:
                pass
            end = step["end"]
            try:
                if end in ("with-error", "with-ok"):
                    try:
                        with w:
                            for op in step["ops"]:
                                apply_real(w, op)
                                model.apply(op)
                            if end == "with-error":
                                raise KeyboardInterrupt() if si % 2 else ValueError("boom")
                    except (ValueError, KeyboardInterrupt):
                        model = before
                else:
                    for op in step["ops"]:
                        apply_real(w, op)
                        model.apply(op)
                    if end == "cancel":
                        w.cancel()
                        model = before
                    else:
                        w.commit(optimize=end == "optimize", merge=end != "nomerge")
            except Exception as e:
                fails.append(("exception-step", "step %d (%s): %s: %s | %s" % (si, end, type(e).__name__, e, traceback.format_exc()[-400:])))
                break
            committed = end not in ("cancel", "with-error")
            newgen = ix.latest_generation()
            if newgen != gen + (1 if committed else 0):
                fails.append(("C04-generation", "generation %d -> %d after %s" % (gen, newgen, end)))
            gen = newgen
            # the lock must be free again
            try:
                w3 = ix.writer()
                w3.cancel()
            except LockError:
                fails.append(("C04-lock-not-released", "index still locked after %s" % end))
                break
            # ---------------- content after the step
            tag = ""
            with ix.reader() as r:
                d = real_dump(r, fails, tag)
                compare(d, model.dump(), fails, "C06-dump" if committed else "C07-cancel-dump",
                        "after step %d (%s, compound=%s)" % (si, end, sc["compound"]))
                # groups stay adjacent and in order
                ids = [r.stored_fields(dn)["id"] for dn in r.all_doc_ids()]
                pos = dict((k, i) for i, k in enumerate(ids))
                for dd in model.docs:
                    if dd["id"].startswith("g") and dd["id"].endswith("-0"):
                        base = dd["id"][:-2]
                        j = 1
                        while base + "-%d" % j in pos and base + "-%d" % (j - 1) in pos:
                            if pos[base + "-%d" % j] != pos[base + "-%d" % (j - 1)] + 1:
                                fails.append(("C06-group-adjacent", "group %s not adjacent/in order: %r" % (base, ids)))
                            j += 1
            with ix.searcher() as s:
                check_searches(s, model, fails, "")
            # ---------------- C03: snapshots
            for (hs, hmodel, hgen) in held:
                try:
                    hf = []
                    check_searches(hs, hmodel, hf, "")
                    d = real_dump(hs.reader(), hf, "")
                    compare(d, hmodel.dump(), hf, "dump", "held searcher")
                    if hf:
                        fails.append(("C03-snapshot" + ("" if sc["compound"] else "-loose-files"), "searcher opened at generation %d changed after later commits: %s" % (hgen, hf[0][1][:300])))
                    if hs.up_to_date() != (hgen == gen):
                        fails.append(("C03-up_to_date" + ("-empty-index" if not hmodel.docs and hgen == gen else ""), "up_to_date()=%r for searcher of generation %d, latest %d" % (hs.up_to_date(), hgen, gen)))
                    rs = hs.refresh()
                    rf = []
                    check_searches(rs, model, rf, "")
                    d = real_dump(rs.reader(), rf, "")
                    compare(d, model.dump(), rf, "dump", "refreshed searcher")
                    if rf:
                        stale = sum(len(v) for v in d.values()) > len(model.docs)
                        fails.append(("C03-refresh" + ("-stale-segments" if stale else ""), "refresh() of a generation-%d searcher does not show generation %d: %s" % (hgen, gen, rf[0][1][:300])))
                except Exception as e:
                    fails.append(("C03-snapshot-exception" + ("" if sc["compound"] else "-loose-files"), "%s: %s | %s" % (type(e).__name__, e, traceback.format_exc()[-300:])))
            held = [h for h in held if h[2] >= gen - 2]
            held.append((ix.searcher(), model.copy(), gen))
    except Exception as e:
        fails.append(("exception-scenario", "%s: %s | %s" % (type(e).__name__, e, traceback.format_exc()[-500:])))
    finally:
        shutil.rmtree(root, ignore_errors=True)
        shutil.rmtree(root + "_c", ignore_errors=True)
    if sc.get("has_bad_add") and fails:
        # everything observed after a rejected add_document is attributed to that one recorded defect
        # (stored values are not part of it: start_doc() gives every document a fresh stored-fields dict)
        stored_leak = [f for f in fails if f[0].endswith("C08-rejected-stored-fields")][:1]
        fails = stored_leak + [("C08-rejected-document-leak", "after an add_document that raised (non-numeric value for a NUMERIC field) the "
                  "writer kept the rejected document's postings/column values/statistics and attached them to the next "
                  "document; first symptom: %s: %s" % fails[0])]
    for case, detail in fails:
        fails_out.append({"case": case, "detail": detail[:700], "corpus": sc})


def check_toc_selection(fails_out):
    """C02/C03: which TOC is the latest, and what clean_files keeps, over synthetic directories in which several
    generations coexist (as after a crash between the TOC rename and the clean-up, or with undeletable files)."""
    import itertools
    from whoosh.filedb.filestore import FileStorage
    from whoosh.index import TOC, clean_files
    gens_all = [0, 1, 2, 9, 10, 11, 99, 100, 101, 1000]
    root = tempfile.mkdtemp(prefix="toc_")
    try:
        n = 0
        for k in (1, 2, 3):
            for gens in itertools.combinations(gens_all, k):
                n += 1
                d = os.path.join(root, "d%d" % n)
                os.mkdir(d)
                st = FileStorage(d)
                names = ["_MAIN_%d.toc" % g for g in gens] + ["_MAIN_%d.toc.1700000000.5" % (max(gens) + 1), "MAIN_abcdefgh.seg",
                                                               "MAIN_WRITELOCK", "_OTHER_%d.toc" % (max(gens) + 5), ".hidden"]
                for nm in names:
                    open(os.path.join(d, nm), "wb").close()
                got = TOC._latest_generation(st, "MAIN")
                if got != max(gens):
                    for pfx in ("C02", "C03"):
                        fails_out.append({"case": pfx + "-latest-generation", "detail": "TOC files for generations %r (+ a temp TOC of a "
                                          "crashed commit, another index's TOC): _latest_generation = %r expected %r" % (gens, got, max(gens)),
                                          "corpus": None})
                    return

                class Seg(object):
                    def __init__(self, sid):
                        self.sid = sid

                    def segment_id(self):
                        return self.sid
                open(os.path.join(d, "MAIN_zzzzzzzz.seg"), "wb").close()
                clean_files(st, "MAIN", max(gens), [Seg("MAIN_abcdefgh")])
                left = sorted(os.listdir(d))
                exp = sorted(["_MAIN_%d.toc" % max(gens), "_MAIN_%d.toc.1700000000.5" % (max(gens) + 1), "MAIN_abcdefgh.seg",
                              "MAIN_WRITELOCK", "_OTHER_%d.toc" % (max(gens) + 5), ".hidden"])
                if left != exp:
                    fails_out.append({"case": "C02-clean_files", "detail": "clean_files(gen=%d, segments=[abcdefgh]) left %r expected %r"
                                      % (max(gens), left, exp), "corpus": None})
                    return
    finally:
        shutil.rmtree(root, ignore_errors=True)


def check_rejected_add(fails_out):
    """C08: an add_document that raises part-way, followed by valid documents that leave some fields out: which parts of
    the rejected document surface in later ones.  (Postings/columns/lengths do: known finding; stored values must not.)"""
    n = 0
    rnd = random.Random(7)
    for follow_blob in (None, 5):
        for follow_num in (True, False):
            for end in ("commit", "optimize"):
                bad = gen_doc(rnd, "bad-1")
                bad["num"] = "not-a-number"
                bad["blob"] = "secret of the rejected document"
                nxt = gen_doc(rnd, "next-1")
                nxt["blob"] = follow_blob
                nxt.pop("_stored_body", None)
                if not follow_num:
                    nxt.pop("num", None)
                sc = {"steps": [{"ops": [["add", gen_doc(rnd, "first-1")], ["bad_add", bad], ["add", nxt], ["add", gen_doc(rnd, "last-1")]],
                                 "end": end}], "compound": True, "crash_step": None, "has_bad_add": True}
                run_scenario(sc, fails_out)
                n += 1
    return n


def check_ram_second_writer(fails_out):
    """C04 on RamStorage (thread locks): while one writer is open a second ix.writer() must not come into existence;
    once the first commits, the second proceeds and both documents are there"""
    import threading
    from whoosh.filedb.filestore import RamStorage
    ix = RamStorage().create_index(schema())
    w1 = ix.writer()
    w1.add_document(id="one", path="/p/one", body="alfa", tag="red")
    got = {}

    def second():
        try:
            w2 = ix.writer()
            got["at"] = "open" if not got.get("committed") else "after-commit"
            w2.add_document(id="two", path="/p/two", body="bravo", tag="red")
            w2.commit()
            got["done"] = True
        except Exception as e:
            got["error"] = "%s: %s" % (type(e).__name__, e)
    t = threading.Thread(target=second)
    t.daemon = True
    t.start()
    t.join(0.4)
    if got.get("at") == "open":
        fails_out.append({"case": "C04-ram-second-writer", "detail": "a second writer on a RamStorage index was created while the first "
                          "was still open (each call got its own lock?)", "corpus": None})
    got["committed"] = True
    try:
        w1.commit()
    except Exception as e:
        fails_out.append({"case": "C04-ram-second-writer", "detail": "first writer's commit failed: %s: %s" % (type(e).__name__, e), "corpus": None})
        return
    t.join(60)
    with ix.searcher() as s_:
        ids = sorted(s_.stored_fields(dn)["id"] for dn in s_.reader().all_doc_ids())
    if ids != ["one", "two"] or got.get("error"):
        fails_out.append({"case": "C04-ram-lost-update", "detail": "after two serialized RamStorage writers the index holds %r (%s)"
                          % (ids, got.get("error")), "corpus": None})


def check_undelete(fails_out):
    """C07: delete_document(n, delete=False) takes a pending deletion back: the document stays, every other deletion holds"""
    from whoosh.filedb.filestore import RamStorage
    from whoosh import query
    try:
        ix = RamStorage().create_index(schema())
        w = ix.writer()
        for i in range(5):
            w.add_document(id="d%d" % i, path="/p/d%d" % i, body="alfa", tag="red")
        w.commit()
        w = ix.writer()
        w.delete_document(1)
        w.delete_document(3)
        w.delete_document(3, delete=False)
        flags = [w.is_deleted(i) for i in range(5)]
        w.commit()
        with ix.searcher() as s_:
            ids = sorted(h["id"] for h in s_.search(query.Every(), limit=None))
        if flags != [False, True, False, False, False] or ids != ["d0", "d2", "d3", "d4"]:
            fails_out.append({"case": "C07-undelete", "detail": "delete 1, delete 3, undelete 3: is_deleted %r, documents after commit %r"
                              % (flags, ids), "corpus": None})
    except Exception as e:
        fails_out.append({"case": "C07-undelete", "detail": "delete_document(n, delete=False) raised %s: %s" % (type(e).__name__, e),
                          "corpus": None})


def check_merge_policy(fails_out):
    """C06/C07: the DEFAULT merge policy only starts merging once there are more than four segments and keeps larger
    segments unchanged: a bulk load followed by many small commits (add / update / delete), checked after every commit"""
    from whoosh.filedb.filestore import RamStorage
    from whoosh import query
    for bulk in (60, 7):
        ix = RamStorage().create_index(schema())
        model = {}
        w = ix.writer()
        for i in range(bulk):
            d = {"id": "b%d" % i, "path": "/p/b%d" % i, "body": "alfa bravo" if i % 2 else "alfa", "tag": "red"}
            w.add_document(**d)
            model[d["id"]] = d
        w.commit()
        for step in range(12):
            w = ix.writer()
            d = {"id": "s%d" % step, "path": "/p/s%d" % step, "body": "charlie", "tag": "blue"}
            w.add_document(**d)
            model[d["id"]] = d
            if step % 3 == 1:
                u = {"id": "b%d" % step, "path": "/p/b%d" % step, "body": "delta", "tag": "green"}
                w.update_document(**u)
                model[u["id"]] = u
            if step % 4 == 2:
                w.delete_by_term("id", "b%d" % (step + 1))
                model.pop("b%d" % (step + 1), None)
            w.commit()
            with ix.searcher() as s_:
                ids = sorted(h["id"] for h in s_.search(query.Every(), limit=None))
                alfa = sorted(h["id"] for h in s_.search(query.Term("body", "alfa"), limit=None))
                nseg = len(s_.reader().leaf_readers())
            exp_ids = sorted(model)
            exp_alfa = sorted(k for k, v in model.items() if "alfa" in v["body"].split())
            if ids != exp_ids or alfa != exp_alfa:
                fails_out.append({"case": "C06-merge-policy", "detail": "bulk load of %d documents, then small commit #%d with the default merge "
                                  "policy (%d segments afterwards): %d documents instead of %d (missing %r...), body:alfa %d instead of %d"
                                  % (bulk, step, nseg, len(ids), len(exp_ids), sorted(set(exp_ids) - set(ids))[:4], len(alfa), len(exp_alfa)),
                                  "corpus": None})
                return


def check_buffered(rnd, fails_out):
    """C04 (no committed update is lost) through the BufferedWriter / AsyncWriter front-ends: adds, updates and
    deletions, flushed by commit() or close(), must all be in the reopened index."""
    from whoosh import index, writing, query
    root = tempfile.mkdtemp(prefix="buf_")
    try:
        ix = index.create_in(root, schema())
        live = {}
        w = ix.writer()
        for i in range(4):
            live["b%d" % i] = True
            w.add_document(id="b%d" % i, path="/p/b%d" % i, body="alfa", tag="red")
        w.commit()
        kind = rnd.choice(["buffered", "async"])
        bw = writing.BufferedWriter(ix, period=None, limit=rnd.choice([2, 100])) if kind == "buffered" else writing.AsyncWriter(ix)
        nops = rnd.randint(1, 4)
        hist = []
        for j in range(nops):
            r = rnd.random()
            committed_live = sorted(k for k in live if k.startswith("b"))
            if r < 0.4 and committed_live:
                k = rnd.choice(committed_live)     # deletions only see committed documents
                bw.delete_by_term("id", k)
                live.pop(k)
                hist.append("delete " + k)
            elif r < 0.7:
                k = "n%d" % rnd.randrange(10 ** 6)
                bw.add_document(id=k, path="/p/" + k, body="bravo", tag="blue")
                live[k] = True
                hist.append("add " + k)
            if kind == "buffered" and rnd.random() < 0.5:
                bw.commit()
                hist.append("commit")
        if kind == "buffered":
            bw.close()
        else:
            bw.commit()
            if bw.running or bw.is_alive():
                bw.join()
        with index.open_dir(root).searcher() as s:
            got = sorted(h["id"] for h in s.search(query.Every(), limit=None))
        if got != sorted(live):
            fails_out.append({"case": "C04-%s-writer-lost-update" % kind, "detail": "%s writer, history %r: index holds %r expected %r"
                              % (kind, hist, got, sorted(live)), "corpus": None})
    except Exception as e:
        fails_out.append({"case": "exception-buffered", "detail": "%s: %s | %s" % (type(e).__name__, e, traceback.format_exc()[-400:]), "corpus": None})
    finally:
        shutil.rmtree(root, ignore_errors=True)


def run(seeds):
    tmp = tempfile.mkdtemp(prefix="ib_")
    os.environ["TMPDIR"] = tmp
    tempfile.tempdir = tmp
    fails = []
    n = 0
    for sd in seeds:
        rnd = random.Random(sd)
        sc = gen_scenario(rnd)
        run_scenario(sc, fails)
        check_buffered(rnd, fails)
        n += 1
    if seeds and seeds[0] % 16 == 0 or len(seeds) > 0 and seeds[0] == min(seeds):
        pass
    shutil.rmtree(tmp, ignore_errors=True)
    return fails, n


def _force_cancel_schedule():
    """schedule injection for MpWriter.cancel(): sub-processes start 0.3 s late, the parent waits 1.5 s between emptying and
    removing a '.tmp' storage directory; returns the function that removes the two delays again"""
    import time
    from whoosh import multiproc
    from whoosh.filedb import filestore
    parent = os.getpid()
    clean0, run0 = filestore.FileStorage.clean, multiproc.SubWriterTask.run

    def slow_clean(self, *a, **kw):
        r = clean0(self, *a, **kw)
        if os.getpid() == parent and self.folder.endswith(".tmp"):
            time.sleep(1.5)
        return r

    def late_run(self):
        time.sleep(0.3)
        return run0(self)
    filestore.FileStorage.clean, multiproc.SubWriterTask.run = slow_clean, late_run

    def undo():
        filestore.FileStorage.clean, multiproc.SubWriterTask.run = clean0, run0
    return undo


def check_mpwriter(fails_out):
    """C06/C08/C04 through the multi-process writer front-end (ix.writer(procs=2, batchsize=2)) and its serial twin:
    stored values, column values (incl. a column-only field), a grouped block staying adjacent and in order, and
    cancel() releasing the lock - also when nothing was added"""
    from whoosh import fields, columns, query, index
    from whoosh.writing import LockError
    root = tempfile.mkdtemp(prefix="mp_")
    try:
        sch = fields.Schema(id=fields.ID(stored=True, unique=True), kind=fields.ID(stored=True), body=fields.TEXT(stored=True),
                            n=fields.NUMERIC(sortable=True, stored=True), col=fields.COLUMN(columns.VarBytesColumn()))
        for front in ("procs", "serial"):
            d = os.path.join(root, front)
            os.mkdir(d)
            ix = index.create_in(d, sch)

            def mkw():
                if front == "procs":
                    return ix.writer(procs=2, batchsize=2)
                from whoosh.multiproc import SerialMpWriter
                return SerialMpWriter(ix, procs=2, batchsize=2)
            docs = []
            w = mkw()
            for i in range(3):
                docs.append({"id": "a%d" % i, "kind": "plain", "body": "alfa w%d" % i, "n": i, "col": b"c-a%d" % i})
                w.add_document(**docs[-1])
            # (SerialMpWriter is a test helper that deals documents round-robin: it does not support groups)
            if front == "procs":
                w.start_group()
            for j, kind in enumerate(("parent", "child", "child", "child")):
                docs.append({"id": "g%d" % j, "kind": kind, "body": "bravo w%d" % j, "n": 100 + j, "col": b"c-g%d" % j})
                w.add_document(**docs[-1])
            if front == "procs":
                w.end_group()
            for i in range(3, 6):
                docs.append({"id": "a%d" % i, "kind": "plain", "body": "alfa w%d" % i, "n": i, "col": b"c-a%d" % i})
                w.add_document(**docs[-1])
            # more groups, of a size that does not divide the batch size
            more_groups = []
            for g in range(8):
                if front == "procs":
                    w.start_group()
                ids_ = []
                for j, kind in enumerate(("parent", "child", "child")):
                    docs.append({"id": "h%d_%d" % (g, j), "kind": kind, "body": "hotel tok%d" % g, "n": 200 + 10 * g + j, "col": b"h"})
                    w.add_document(**docs[-1])
                    ids_.append(docs[-1]["id"])
                more_groups.append(ids_)
                if front == "procs":
                    w.end_group()
            w.commit()
            with ix.searcher() as s_:
                r = s_.reader()
                got = {}
                order = []
                cr_n, cr_c = r.column_reader("n"), r.column_reader("col")
                for dn in r.all_doc_ids():
                    sf = r.stored_fields(dn)
                    order.append(sf["id"])
                    got[sf["id"]] = (sf, cr_n[dn], cr_c[dn])
                for dd in docs:
                    g = got.get(dd["id"])
                    if g is None or g[0].get("body") != dd["body"] or g[1] != dd["n"] or g[2] != dd["col"]:
                        fails_out.append({"case": "C08-mpwriter-values", "detail": "writer front-end %s: document %s reads back %r, expected body %r "
                                          "n %r col %r" % (front, dd["id"], g, dd["body"], dd["n"], dd["col"]), "corpus": None})
                        break
                gi = [order.index("g%d" % j) for j in range(4) if "g%d" % j in order]
                if front != "procs":
                    continue
                for ids_ in more_groups:
                    pos_ = [order.index(x) for x in ids_ if x in order]
                    if len(pos_) != 3 or pos_ != list(range(pos_[0], pos_[0] + 3)):
                        fails_out.append({"case": "C06-mpwriter-group", "detail": "writer front-end procs: the documents of group %r are at positions "
                                          "%r (must be adjacent and in order); order %r" % (ids_, pos_, order), "corpus": None})
                        break
                if gi != list(range(gi[0], gi[0] + 4)) if len(gi) == 4 else True:
                    fails_out.append({"case": "C06-mpwriter-group", "detail": "writer front-end %s: the grouped documents g0..g3 are at positions %r "
                                      "of %r (must be adjacent and in order)" % (front, gi, order), "corpus": None})
                par = query.NestedParent(query.Term("kind", "parent"), query.And([query.Term("body", "w2"), query.Term("body", "bravo")]))
                hits = sorted(h["id"] for h in s_.search(par, limit=None))
                if hits != ["g0"]:
                    fails_out.append({"case": "C06-mpwriter-group", "detail": "writer front-end %s: NestedParent(kind:parent, body:(w2 AND bravo)) -> %r expected "
                                      "['g0'] (document order %r)" % (front, hits, order), "corpus": None})
            # cancel: with and without additions; cancel() must return, the lock must be free afterwards and the index
            # unchanged. The third round forces the schedule in which a sub-process is still starting up while the
            # parent removes the shared temp directory (child delayed 0.3 s, parent delayed 1.5 s between emptying and
            # removing <index>.tmp): a cancel() that does not stop its sub-processes first raises OSError there with the
            # write lock still held (fixed: 792c8db; seen once in ~240 unforced runs on a loaded machine)
            for adds, forced in ((0, False), (3, False), (3, True)):
                if forced and front != "procs":
                    continue
                undo = _force_cancel_schedule() if forced else None
                w = mkw()
                try:
                    for i in range(adds):
                        w.add_document(id="x%d" % i, kind="plain", body="zulu", n=1, col=b"x")
                    try:
                        w.cancel()
                    except Exception as e:
                        fails_out.append({"case": "C04-mpwriter-cancel-raises", "detail": "writer front-end %s%s: cancel() of a writer with %d "
                                          "added documents raised %s: %s | %s" % (front, " (forced schedule)" if forced else "", adds,
                                                                                 type(e).__name__, e, traceback.format_exc()[-400:]),
                                          "corpus": None})
                finally:
                    if undo:
                        undo()
                    for t in getattr(w, "tasks", []):
                        # never leave a sub-process behind: an orphan blocked on the job queue would hang this harness at exit
                        if hasattr(t, "terminate") and t.is_alive():
                            t.terminate()
                            t.join()
                try:
                    w2 = ix.writer(timeout=0.5)
                    w2.cancel()
                except LockError:
                    fails_out.append({"case": "C04-mpwriter-cancel-lock", "detail": "writer front-end %s%s: after cancel() of a writer with %d added "
                                      "documents the index is still locked" % (front, " (forced schedule)" if forced else "", adds), "corpus": None})
                    break
                with ix.searcher() as s_:
                    if s_.doc_count() != len(docs):
                        fails_out.append({"case": "C07-mpwriter-cancel", "detail": "writer front-end %s: cancel() changed the index: %d documents"
                                          % (front, s_.doc_count()), "corpus": None})
    except Exception as e:
        fails_out.append({"case": "exception-mpwriter", "detail": "%s: %s | %s" % (type(e).__name__, e, traceback.format_exc()[-500:]), "corpus": None})
    finally:
        shutil.rmtree(root, ignore_errors=True)


def check_async_deferred(fails_out):
    """C04/C03: an AsyncWriter created while another writer holds the lock buffers its calls and replays them in a
    thread once the lock is free: every buffered add / delete / update must arrive, commit arguments (optimize,
    mergetype) must be honoured, and the lock must be free afterwards"""
    from whoosh import index, writing, query
    from whoosh.writing import LockError
    root = tempfile.mkdtemp(prefix="asy_")
    try:
        for kwargs, label in (({}, "plain"), ({"optimize": True}, "optimize"), ({"mergetype": writing.CLEAR}, "clear")):
            d = os.path.join(root, label)
            os.mkdir(d)
            ix = index.create_in(d, schema())
            for i in range(3):
                w = ix.writer()
                w.add_document(id="b%d" % i, path="/p/b%d" % i, body="alfa", tag="red")
                w.commit(merge=False)
            blocker = ix.writer()
            blocker.add_document(id="blk", path="/p/blk", body="bravo", tag="red")
            aw = writing.AsyncWriter(ix, delay=0.05)
            aw.add_document(id="n1", path="/p/n1", body="charlie", tag="blue")
            aw.delete_by_term("id", "b1")
            aw.update_document(id="b2", path="/p/b2", body="delta", tag="green")
            aw.commit(**kwargs)
            blocker.commit(merge=False)
            aw.join(60)
            if aw.is_alive():
                fails_out.append({"case": "C04-async-deferred", "detail": "deferred AsyncWriter (%s) did not finish" % label, "corpus": None})
                continue
            with index.open_dir(d).searcher() as s_:
                ids = sorted(h["id"] for h in s_.search(query.Every(), limit=None))
                b2 = [h["body"] for h in s_.search(query.Term("id", "b2"), limit=None)]
                nseg = len(s_.reader().leaf_readers())
            exp = ["n1", "b2"] if label == "clear" else ["b0", "b2", "blk", "n1"]
            if ids != sorted(exp) or b2 != ["delta"]:
                fails_out.append({"case": "C04-async-deferred", "detail": "AsyncWriter created while the index was locked, commit(%s): index "
                                  "holds %r (b2 -> %r), expected %r (b2 -> ['delta'])" % (label, ids, b2, sorted(exp)), "corpus": None})
            elif label == "optimize" and nseg != 1:
                fails_out.append({"case": "C03-async-commit-args", "detail": "deferred AsyncWriter.commit(optimize=True) left %d segments: the "
                                  "commit arguments were not passed on" % nseg, "corpus": None})
            try:
                w2 = ix.writer(timeout=0.5)
                w2.cancel()
            except LockError:
                fails_out.append({"case": "C04-async-deferred", "detail": "index still locked after the deferred AsyncWriter (%s)" % label, "corpus": None})
    except Exception as e:
        fails_out.append({"case": "exception-async", "detail": "%s: %s | %s" % (type(e).__name__, e, traceback.format_exc()[-400:]), "corpus": None})
    finally:
        shutil.rmtree(root, ignore_errors=True)


def check_typed_columns(fails_out):
    """C08: every shipped sortable field type, with documents that do and do not supply the field, over two segments and
    after optimize: a supplied value comes back unchanged for its own document; a document without a value reads the type's
    column default (never another document's value, never an exception); sorting by the field orders the supplied values."""
    import datetime
    import math
    from decimal import Decimal
    from whoosh import fields, query
    from whoosh.filedb.filestore import RamStorage
    kinds = [
        ("int8", fields.NUMERIC(int, 8, sortable=True), [5, -128, 127, 0]),
        ("uint16", fields.NUMERIC(int, 16, signed=False, sortable=True), [5, 0, 65535, 300]),
        ("int32", fields.NUMERIC(int, 32, sortable=True), [5, -2 ** 31, 2 ** 31 - 1, 0]),
        ("int64", fields.NUMERIC(int, 64, sortable=True), [5, -2 ** 63, 2 ** 63 - 1, 0]),
        ("float32", fields.NUMERIC(float, 32, sortable=True), [1.5, -2.25, 0.0, 1024.0]),
        ("float64", fields.NUMERIC(float, 64, sortable=True), [1.5, -2.25e100, 0.1, 1e300]),
        ("decimal", fields.NUMERIC(Decimal, 64, decimal_places=2, sortable=True), [Decimal("1.25"), Decimal("-7.50"), Decimal("0.01"), Decimal("100")]),
        ("datetime", fields.DATETIME(sortable=True), [datetime.datetime(2010, 1, 2, 3, 4, 5, 6), datetime.datetime(1, 1, 1),
                                                       datetime.datetime(9999, 12, 31, 23, 59, 59, 999999), datetime.datetime(1970, 1, 1)]),
        ("id", fields.ID(sortable=True), [u"b", u"a", u"\U0001F600", u"c c"]),
    ]
    for name, ftype, vals in kinds:
        try:
            sch = fields.Schema(k=fields.ID(stored=True), f=ftype)
            ix = RamStorage().create_index(sch)
            # documents 0, 2, 4, 6 carry vals[0..3]; the odd ones carry nothing
            w = ix.writer()
            for i in range(8):
                if i == 4:
                    w.commit(merge=False)
                    w = ix.writer()
                if i % 2 == 0:
                    w.add_document(k=u"%d" % i, f=vals[i // 2])
                else:
                    w.add_document(k=u"%d" % i)
            w.commit(merge=False)
            for phase in ("two segments", "optimized"):
                if phase == "optimized":
                    ix.writer().commit(optimize=True)
                with ix.searcher() as s_:
                    r = s_.reader()
                    cr = r.column_reader("f")
                    dflt = None
                    for dn in r.all_doc_ids():
                        key = int(r.stored_fields(dn)["k"])
                        got = cr[dn]
                        if key % 2 == 0:
                            if got != vals[key // 2] or type(got) is not type(vals[key // 2]):
                                fails_out.append({"case": "C08-typed-column", "detail": "%s, %s: document %d supplied %r, column holds %r"
                                                  % (name, phase, key, vals[key // 2], got), "corpus": None})
                                return
                        else:
                            isnan = isinstance(got, float) and math.isnan(got)
                            if dflt is None:
                                dflt = (got, isnan)
                            elif not ((isnan and dflt[1]) or got == dflt[0]):
                                fails_out.append({"case": "C08-typed-column", "detail": "%s, %s: documents without a value read different "
                                                  "defaults: %r and %r" % (name, phase, dflt[0], got), "corpus": None})
                                return
                    srt = [int(h["k"]) for h in s_.search(query.Every(), sortedby="f", limit=None)]
                    have = [k_ for k_ in srt if k_ % 2 == 0]
                    exp = sorted(range(0, 8, 2), key=lambda k_: (vals[k_ // 2], k_))
                    if name != "id" and have != exp:
                        fails_out.append({"case": "C08-typed-column", "detail": "%s, %s: sorting by the field orders the documents with "
                                          "values as %r, expected %r" % (name, phase, have, exp), "corpus": None})
                        return
        except Exception as e:
            fails_out.append({"case": "C08-typed-column", "detail": "%s: %s: %s | %s" % (name, type(e).__name__, e, traceback.format_exc()[-300:]),
                              "corpus": None})
            return


def check_field_lengths(fails_out):
    """C06: per-document field lengths (small lengths are stored exactly) and the min / max / total length of each field
    are the same whatever the segment layout, also for documents and segments that have no content in a field."""
    from whoosh import fields
    from whoosh.filedb.filestore import RamStorage
    docs = [{"t": u"alfa bravo"}, {"u": u"charlie"}, {"t": u"alfa", "u": u"delta echo foxtrot"}, {}, {"t": u"golf hotel india juliet kilo"}]

    def dump(cuts, optimize):
        ix = RamStorage().create_index(fields.Schema(k=fields.ID(stored=True), t=fields.TEXT, u=fields.TEXT))
        w = ix.writer()
        for i, d in enumerate(docs):
            if i in cuts:
                w.commit(merge=False)
                w = ix.writer()
            w.add_document(k=u"%d" % i, **d)
        w.commit(merge=False)
        if optimize:
            ix.writer().commit(optimize=True)
        with ix.reader() as r:
            per = {}
            for dn in r.all_doc_ids():
                key = int(r.stored_fields(dn)["k"])
                per[key] = tuple(r.doc_field_length(dn, f) for f in ("t", "u", "k", "nosuchfield"))
            agg = tuple((r.field_length(f), r.min_field_length(f), r.max_field_length(f)) for f in ("t", "u"))
        return per, agg
    exp_per = dict((i, (len(d.get("t", u"").split()), len(d.get("u", u"").split()), 0, 0)) for i, d in enumerate(docs))
    exp_agg = tuple((sum(v[j] for v in exp_per.values()), min(v[j] for v in exp_per.values()), max(v[j] for v in exp_per.values()))
                    for j in (0, 1))
    for cuts, opt in (((), False), ((1,), False), ((1, 2, 3, 4), False), ((2,), True), ((1, 3), True)):
        try:
            got = dump(cuts, opt)
        except Exception as e:
            fails_out.append({"case": "C06-field-lengths", "detail": "segments cut at %r%s: %s: %s | %s"
                              % (cuts, " then optimized" if opt else "", type(e).__name__, e, traceback.format_exc()[-300:]), "corpus": None})
            return
        if got != (exp_per, exp_agg):
            fails_out.append({"case": "C06-field-lengths", "detail": "segments cut at %r%s: per-document lengths (t, u, k, unknown) %r, "
                              "(total, min, max) of t and u %r; expected %r and %r"
                              % (cuts, " then optimized" if opt else "", got[0], got[1], exp_per, exp_agg), "corpus": None})
            return


def check_batch4(fails_out):
    """Deterministic families added after the fourth batch of seeded changes.
    C02 crash inside a commit that MERGES under the default policy (six small segments first, so the policy finds a
    merge point): aborted at every storage operation, the directory re-opens as exactly the old or the new state.
    C04 a process forked while a writer is open and still alive after commit()/cancel(): the next writer gets the lock.
    C07 a document number obtained from an index-level searcher / from reader.iter_docs() names the same document for a
    writer (delete_document) and for the reader's per-document APIs, over segments of 2, 5 and 9 documents with
    deletions in an early segment.
    C08 loose-file (compound=False) segments on disk with stored blobs and column values of 256+ bytes."""
    import random as _random
    import time
    from whoosh import fields, query
    from whoosh.filedb.filestore import FileStorage

    def F(case, detail):
        fails_out.append({"case": case, "detail": detail, "corpus": None})

    def small_schema():
        return fields.Schema(id=fields.ID(unique=True, stored=True), body=fields.TEXT(stored=True))

    def ids_of(path):
        ix_ = FileStorage(path).open_index()
        with ix_.searcher() as s_:
            got = sorted(h["id"] for h in s_.search(query.Every(), limit=None))
            # every document readable through postings and stored fields
            for h in s_.search(query.Term("body", u"alfa"), limit=None):
                h.fields()
            return got

    # ---- C02: crash at every storage operation of a merging default-policy commit
    base = tempfile.mkdtemp(prefix="b4_")
    try:
        ix = FileStorage(base).create_index(small_schema())
        old = []
        for c in range(6):
            w = ix.writer()
            for j in range(1 + c % 2):
                w.add_document(id=u"d%d_%d" % (c, j), body=u"alfa bravo")
                old.append("d%d_%d" % (c, j))
            w.commit(merge=False)
        old.sort()
        for variant in ("add", "delete"):
            new = sorted(old + ["n0"]) if variant == "add" else [x for x in old if x != "d0_0"]
            at, total = 1, None
            merged = False
            while total is None or at <= total:
                work = tempfile.mkdtemp(prefix="b4w_")
                shutil.rmtree(work)
                shutil.copytree(base, work)
                counter = {"n": 0, "log": [], "at": at}
                st = make_crash_storage(work, counter)
                crashed = False
                try:
                    w = st.open_index().writer()
                    if variant == "add":
                        w.add_document(id=u"n0", body=u"alfa charlie")
                    else:
                        w.delete_by_term("id", u"d0_0")
                    w.commit()
                except Crash:
                    crashed = True
                except Exception as e:
                    F("C02-crash-default-merge", "%s: unexpected %s: %s at operation %d" % (variant, type(e).__name__, e, at))
                    break
                if not crashed:
                    total = counter["n"]
                    merged = merged or any(x.startswith("delete ") and x.endswith(".seg") for x in counter["log"])
                try:
                    got = ids_of(work)
                    if got != old and got != new:
                        F("C02-crash-default-merge", "%s + default-policy commit aborted before operation %d (%s): re-opened index has %r"
                          % (variant, at, counter["log"][-1] if counter["log"] else "?", got))
                        break
                except Exception as e:
                    F("C02-crash-default-merge", "%s + default-policy commit aborted before operation %d (%s): re-opening fails with %s: %s"
                      % (variant, at, counter["log"][-1] if counter["log"] else "?", type(e).__name__, e))
                    break
                finally:
                    for f_ in counter.get("files", []):
                        try:
                            f_.close()
                        except Exception:
                            pass
                    shutil.rmtree(work, ignore_errors=True)
                at += 1
            if total is not None and not merged:
                F("exception/C02-crash-default-merge", "harness: the default policy did not merge any segment (%s)" % variant)
    finally:
        shutil.rmtree(base, ignore_errors=True)

    # ---- C04: forked child alive after the writer finished
    for how in ("commit", "cancel", "with-error"):
        d = tempfile.mkdtemp(prefix="b4l_")
        pid = None
        try:
            ix = FileStorage(d).create_index(small_schema())
            w = ix.writer()
            w.add_document(id=u"a", body=u"alfa")
            pid = os.fork()
            if pid == 0:
                try:
                    time.sleep(6)
                finally:
                    os._exit(0)
            if how == "commit":
                w.commit()
            elif how == "cancel":
                w.cancel()
            else:
                try:
                    with w:
                        raise ValueError("boom")
                except ValueError:
                    pass
            try:
                w2 = ix.writer(timeout=1.0, delay=0.1)
                w2.cancel()
            except Exception as e:
                F("C04-fork-keeps-lock", "a process forked while the writer was open is still alive after %s(): the next writer fails with %s: %s"
                  % (how, type(e).__name__, e))
        finally:
            if pid:
                try:
                    os.kill(pid, 9)
                    os.waitpid(pid, 0)
                except Exception:
                    pass
            shutil.rmtree(d, ignore_errors=True)

    # ---- C07: document numbers agree between searcher / reader / writer
    d = tempfile.mkdtemp(prefix="b4n_")
    try:
        ix = FileStorage(d).create_index(small_schema())
        n = 0
        for size in (2, 5, 9):
            w = ix.writer()
            for _ in range(size):
                w.add_document(id=u"k%d" % n, body=u"alfa" if n % 2 else u"bravo")
                n += 1
            w.commit(merge=False)
        w = ix.writer()
        w.delete_by_term("id", u"k1")
        w.delete_by_term("id", u"k3")
        w.commit(merge=False)
        live = set("k%d" % i for i in range(n)) - {"k1", "k3"}
        with ix.reader() as r:
            seen = []
            for docnum, stored in r.iter_docs():
                seen.append(stored["id"])
                if r.is_deleted(docnum) or r.stored_fields(docnum) != stored:
                    F("C07-iter_docs-docnum", "iter_docs() yields number %d with %r; is_deleted=%r stored_fields(%d)=%r"
                      % (docnum, stored, r.is_deleted(docnum), docnum, None if r.is_deleted(docnum) else r.stored_fields(docnum)))
                    break
            if sorted(seen) != sorted(live):
                F("C07-iter_docs-docnum", "iter_docs() lists %r, live documents are %r" % (sorted(seen), sorted(live)))
        for victim in ("k0", "k4", "k8", "k15"):
            with ix.searcher() as s_:
                dn = s_.document_number(id=victim)
            w = ix.writer()
            w.delete_document(dn)
            w.commit(merge=False)
            live.discard(victim)
            with ix.searcher() as s_:
                got = set(h["id"] for h in s_.search(query.Every(), limit=None))
            if got != live:
                F("C07-docnum-searcher-to-writer", "delete_document(searcher.document_number(id=%r)): live documents now %r, expected %r"
                  % (victim, sorted(got), sorted(live)))
                break
        with ix.reader() as r:
            pick = [(dn, st_["id"]) for dn, st_ in r.iter_docs() if st_["id"] in ("k6", "k12")]
        for dn, vid in pick:
            w = ix.writer()
            w.delete_document(dn)
            w.commit(merge=False)
            live.discard(vid)
        with ix.searcher() as s_:
            got = set(h["id"] for h in s_.search(query.Every(), limit=None))
        if got != live:
            F("C07-docnum-iter_docs-to-writer", "delete_document(number from iter_docs): live documents %r, expected %r" % (sorted(got), sorted(live)))
    finally:
        shutil.rmtree(d, ignore_errors=True)

    # ---- C08: loose-file segments with large values
    d = tempfile.mkdtemp(prefix="b4c_")
    try:
        rnd = _random.Random(8)
        sch = fields.Schema(id=fields.ID(stored=True), blob=fields.STORED, tag=fields.ID(sortable=True))
        ix = FileStorage(d).create_index(sch)
        model = {}
        for part in range(2):
            w = ix.writer(compound=False)
            for i in range(6):
                key = u"p%d_%d" % (part, i)
                blob = "".join(chr(rnd.randrange(33, 0x2000)) for _ in range(40 if i % 3 else 1500))
                tag = u"t" + u"".join(rnd.choice(u"abcdefgh") for _ in range(3 if i % 2 else 700))
                w.add_document(id=key, blob=blob, tag=tag)
                model[key] = (blob, tag)
            w.commit(merge=False)
        for phase in ("loose", "optimized"):
            if phase == "optimized":
                w = ix.writer(compound=False)
                w.commit(optimize=True)
            ix2 = FileStorage(d).open_index()
            with ix2.searcher() as s_:
                r = s_.reader()
                cr = r.column_reader("tag")
                for docnum, stored in r.iter_docs():
                    want = model.get(stored.get("id"))
                    if want is None or stored.get("blob") != want[0] or cr[docnum] != want[1]:
                        F("C08-loose-files-large-values", "%s segments (compound=False): document %r reads blob of %d chars / tag of %d chars, written %s"
                          % (phase, stored.get("id"), len(stored.get("blob") or ""), len(cr[docnum] or ""), want and (len(want[0]), len(want[1]))))
                        break
                if r.doc_count() != len(model):
                    F("C08-loose-files-large-values", "%s: %d documents instead of %d" % (phase, r.doc_count(), len(model)))
    except Exception as e:
        F("C08-loose-files-large-values", "exception %s: %s | %s" % (type(e).__name__, e, traceback.format_exc()[-300:]))
    finally:
        shutil.rmtree(d, ignore_errors=True)

    # ---- C06: a reference column (sortable ID) with more than 255 distinct values, then documents without a value, then one
    # with a value - written as small commits, as one big commit, and merged: the same value for every document
    for layout in ("small-commits", "one-commit", "optimized"):
        d = tempfile.mkdtemp(prefix="b4r_")
        try:
            from whoosh import columns as _columns
            sch = fields.Schema(id=fields.ID(stored=True), tag=fields.ID(sortable=_columns.RefBytesColumn()), body=fields.TEXT)
            ix = FileStorage(d).create_index(sch)
            model = {}
            w = ix.writer()
            for i in range(330):
                key = u"r%d" % i
                if i < 280:
                    tag = u"tag%03d" % i
                elif i in (300, 310, 329):
                    tag = u"late%d" % i
                else:
                    tag = None
                if tag is None:
                    w.add_document(id=key, body=u"alfa")
                else:
                    w.add_document(id=key, tag=tag, body=u"alfa")
                model[key] = tag
                if layout != "one-commit" and i % 110 == 109:
                    w.commit(merge=False)
                    w = ix.writer()
            w.commit(merge=False)
            if layout == "optimized":
                ix.writer().commit(optimize=True)
            with ix.searcher() as s_:
                r = s_.reader()
                cr = r.column_reader("tag")
                bad = []
                for docnum, stored in r.iter_docs():
                    want = model[stored["id"]]
                    got = cr[docnum]
                    if got != (want if want is not None else u""):
                        bad.append((stored["id"], got, want))
                if bad or r.doc_count() != len(model):
                    F("C06-refcolumn-layout", "%s: column values of a sortable ID field with 283 distinct values and gaps: (doc, read, written) %r"
                      % (layout, bad[:4]))
        except Exception as e:
            F("C06-refcolumn-layout", "%s: %s: %s | %s" % (layout, type(e).__name__, e, traceback.format_exc()[-300:]))
        finally:
            shutil.rmtree(d, ignore_errors=True)

    # ---- C03: a refreshed searcher scores like a fresh one (collection statistics belong to the generation)
    d = tempfile.mkdtemp(prefix="b4s_")
    try:
        from whoosh import scoring
        ix = FileStorage(d).create_index(small_schema())
        w = ix.writer()
        for i in range(6):
            w.add_document(id=u"s%d" % i, body=u"alfa bravo" if i % 2 else u"alfa alfa charlie")
        w.commit(merge=False)
        for wm in (scoring.TF_IDF, scoring.BM25F):
            held = ix.searcher(weighting=wm())
            q = query.Or([query.Term("body", u"alfa"), query.Term("body", u"charlie"), query.Term("body", u"bravo")])
            before = [(h["id"], round(h.score, 6)) for h in held.search(q, limit=None)]
            w = ix.writer()
            for i in range(5):
                w.add_document(id=u"x%s%d" % (wm.__name__, i), body=u"charlie delta" if i else u"bravo")
            w.commit(merge=False)
            again = [(h["id"], round(h.score, 6)) for h in held.search(q, limit=None)]
            refreshed = held.refresh()
            got = [(h["id"], round(h.score, 6)) for h in refreshed.search(q, limit=None)]
            with ix.searcher(weighting=wm()) as fresh:
                exp = [(h["id"], round(h.score, 6)) for h in fresh.search(q, limit=None)]
            if again != before:
                F("C03-held-searcher-scores", "%s: a held searcher's scores changed after another writer's commit: %r -> %r" % (wm.__name__, before[:3], again[:3]))
            if got != exp:
                F("C03-refresh-scores", "%s: refreshed searcher ranks/scores %r, a fresh searcher %r" % (wm.__name__, got[:4], exp[:4]))
            refreshed.close()
    finally:
        shutil.rmtree(d, ignore_errors=True)

    # ---- C08 / C14: sortable NUMERIC fields with an EXPLICIT default: a document without a value reads the default and
    # sorts where the default sorts (signed / unsigned int, float, Decimal), over two segments
    from decimal import Decimal
    from whoosh.filedb.filestore import RamStorage
    for name, mkf, vals, dflt in (("int32 signed", lambda: fields.NUMERIC(int, 32, signed=True, sortable=True, default=5), [3, None, 7, 5, None, 0, 10, -4], 5),
                                  ("int8 unsigned", lambda: fields.NUMERIC(int, 8, signed=False, sortable=True, default=5), [3, None, 7, 5, None, 0, 10], 5),
                                  ("int16 signed negative default", lambda: fields.NUMERIC(int, 16, signed=True, sortable=True, default=-2), [3, None, -7, None, -2, 0], -2),
                                  ("float", lambda: fields.NUMERIC(float, sortable=True, default=2.5), [3.0, None, 7.5, 2.5, None, 0.0, -1.0], 2.5),
                                  ("decimal", lambda: fields.NUMERIC(Decimal, decimal_places=2, sortable=True, default=Decimal("1.50")),
                                   [Decimal("3.00"), None, Decimal("0.25"), None], Decimal("1.50"))):
        try:
            ix = RamStorage().create_index(fields.Schema(k=fields.ID(stored=True), m=mkf()))
            w = ix.writer()
            for i, v in enumerate(vals):
                if i == 3:
                    w.commit(merge=False)
                    w = ix.writer()
                if v is None:
                    w.add_document(k=u"%d" % i)
                else:
                    w.add_document(k=u"%d" % i, m=v)
            w.commit(merge=False)
            with ix.searcher() as s_:
                cr = s_.reader().column_reader("m")
                got = [cr[i] for i in range(len(vals))]
                order = [int(h["k"]) for h in s_.search(query.Every(), sortedby="m", limit=None)]
            model = [(dflt if v is None else v) for v in vals]
            exp = sorted(range(len(vals)), key=lambda i: (model[i], i))
            if got != model:
                F("C08-numeric-explicit-default", "NUMERIC %s, default=%r: column reads %r, expected %r" % (name, dflt, got, model))
            elif order != exp:
                F("C14-numeric-explicit-default-sort", "NUMERIC %s, default=%r: sorted order %r, expected %r" % (name, dflt, order, exp))
        except Exception as e:
            F("C08-numeric-explicit-default", "NUMERIC %s, default=%r: %s: %s" % (name, dflt, type(e).__name__, e))


def run_deterministic(fails):
    check_batch4(fails)
    check_field_lengths(fails)
    check_typed_columns(fails)
    check_mpwriter(fails)
    check_async_deferred(fails)
    check_toc_selection(fails)
    check_rejected_add(fails)
    check_ram_second_writer(fails)
    check_undelete(fails)
    check_merge_policy(fails)


def main():
    if sys.argv[1] == "--deterministic":
        # replay of the deterministic families (cases without a scenario); optional second argument: case name
        tmp = tempfile.mkdtemp(prefix="ib_")
        os.environ["TMPDIR"] = tmp
        tempfile.tempdir = tmp
        fails = []
        run_deterministic(fails)
        want = sys.argv[2] if len(sys.argv) > 2 else None
        hit = [f for f in fails if want is None or f["case"] == want]
        for f in hit:
            print("FAIL", f["case"], "|", f["detail"])
        shutil.rmtree(tmp, ignore_errors=True)
        sys.exit(1 if hit else 0)
    if sys.argv[1] == "--scenario":
        tmp = tempfile.mkdtemp(prefix="ib_")
        os.environ["TMPDIR"] = tmp
        tempfile.tempdir = tmp
        fails = []
        run_scenario(json.loads(sys.argv[2]), fails)
        for f in fails:
            print("FAIL", f["case"], "|", f["detail"])
        shutil.rmtree(tmp, ignore_errors=True)
        sys.exit(1 if fails else 0)
    n, seed = int(sys.argv[1]), int(sys.argv[2])
    jobs = int(sys.argv[3]) if len(sys.argv) > 3 else 8
    seeds = [seed * 100003 + i for i in range(n)]
    import multiprocessing
    with multiprocessing.get_context("fork").Pool(jobs) as pool:
        outs = pool.map(run, [seeds[i::jobs] for i in range(jobs)])
    fails = [f for fs, _ in outs for f in fs]
    tmp = tempfile.mkdtemp(prefix="ib_")
    os.environ["TMPDIR"] = tmp
    tempfile.tempdir = tmp
    run_deterministic(fails)
    shutil.rmtree(tmp, ignore_errors=True)
    seen, uniq = set(), []
    for f in fails:
        if f["case"] not in seen:
            seen.add(f["case"])
            uniq.append(f)
    print(json.dumps({"cases": sum(c for _, c in outs), "failures": uniq}))


if __name__ == "__main__":
    main()
