"""Bounded stand-in (class B, never counted as proved): the REAL matchers, collectors and
searcher run on every query kind below over small corpora (<= NDOCS documents, 3 terms, small
posting block sizes so that multi-block lists, block boundaries, deletions and several segments
all occur) and are compared with an independent evaluator computed from the corpus itself.

Checks (ids = property):
  C01 matched set equal through search/docs_for_query/Query.docs/len(results with limit)
  C09 scores equal the documented composition (Frequency weighting: exact small rationals)
  C11 cursor protocol: stepping, all_ids, skip_to(t) for every t, no move when t <= id, copy, reset, replace(0)
  C12 block_quality >= score (leaf: >= every score in the posting block), max_quality >= remaining,
      skip_to_quality(q) passes no entry scoring > q, replace(q) keeps every entry scoring > q
  C05 search(limit=k) == exhaustive ranking[:k]
Known-finding exclusions (stated, see known_findings.json): C05 / skip_to_quality on And, Or, AndMaybe (binary
matchers) are only checked when every posting list fits in one block; boosted compounds are excluded from
replace(q)/C05.

usage: matchers_bounded.py <ncorpora> <seed> [jobs]   -> JSON on stdout
"""
import itertools
import json
import os
import random
import sys
import tempfile
import traceback

NDOCS = 9
TERMS = ("aa", "bb", "cc")


def build(corpus):
    from whoosh import fields
    from whoosh.codec.whoosh3 import W3Codec
    from whoosh.filedb.filestore import RamStorage
    ix = RamStorage().create_index(fields.Schema(k=fields.ID(stored=True), t=fields.TEXT(phrase=False)))
    docs = corpus["docs"]
    cuts = corpus["cuts"]
    start = 0
    for end in cuts + [len(docs)]:
        if end <= start:
            continue
        w = ix.writer(codec=W3Codec(blocklimit=corpus["blocklimit"]))
        for i in range(start, end):
            text = " ".join(" ".join([t] * tf) for t, tf in sorted(docs[i].items()) if tf) or "zz"
            w.add_document(k=str(i), t=text)
        w.commit(merge=False)
        start = end
    if corpus["deleted"]:
        w = ix.writer()
        for d in corpus["deleted"]:
            w.delete_by_term("k", str(d))
        w.commit(merge=False)
    return ix


def gen_corpus(rnd):
    n = rnd.randint(3, NDOCS)
    dens = [rnd.choice([0.2, 0.5, 0.8, 1.0]) for _ in TERMS]
    docs = []
    for i in range(n):
        d = {}
        for t, p in zip(TERMS, dens):
            if rnd.random() < p:
                d[t] = rnd.choice([1, 1, 2, 3, 5])
        docs.append(d)
    cuts = sorted(set(rnd.sample(range(1, n), rnd.choice([0, 0, 1, 2]) if n > 2 else 0))) if n > 2 else []
    deleted = sorted(rnd.sample(range(n), rnd.choice([0, 0, 1, 2]))) if n > 2 else []
    return {"docs": docs, "cuts": cuts, "deleted": deleted, "blocklimit": rnd.choice([1, 2, 3, 4, 16])}


# ---- query kinds: spec tuples, real query builder and independent evaluator
KINDS = [
    ("term", ("t", "aa")),
    ("and", ("and", ("t", "aa"), ("t", "bb"))),
    ("or2", ("or", ("t", "aa"), ("t", "bb"))),
    ("or3", ("or", ("t", "aa"), ("t", "bb"), ("t", "cc"))),
    ("andnot", ("andnot", ("t", "aa"), ("t", "bb"))),
    ("andmaybe", ("andmaybe", ("t", "aa"), ("t", "bb"))),
    ("require", ("require", ("t", "aa"), ("t", "bb"))),
    ("dismax", ("dismax", ("t", "aa"), ("t", "bb"))),
    ("and_or", ("and", ("t", "aa"), ("or", ("t", "bb"), ("t", "cc")))),
    ("or_and", ("or", ("t", "aa"), ("and", ("t", "bb"), ("t", "cc")))),
    ("andnot_or", ("andnot", ("t", "aa"), ("or", ("t", "bb"), ("t", "cc")))),
    ("and_not", ("and", ("t", "aa"), ("not", ("t", "bb")))),
    ("not", ("not", ("t", "aa"))),
    ("boost_or", ("boost", 2.0, ("or", ("t", "aa"), ("t", "bb")))),
    ("and3", ("and", ("t", "aa"), ("t", "bb"), ("t", "cc"))),
    ("dismax_and", ("dismax", ("and", ("t", "aa"), ("t", "bb")), ("t", "cc"))),
    ("boost_or3", ("boost", 2.0, ("or", ("t", "aa"), ("t", "bb"), ("t", "cc")))),
    ("boost_and", ("boost", 3.0, ("and", ("t", "aa"), ("t", "bb")))),
    ("or_boost_term", ("or", ("boostt", 2.0, ("t", "aa")), ("t", "bb"))),
    ("otherwise", ("otherwise", ("t", "aa"), ("t", "bb"))),
    ("otherwise_and", ("otherwise", ("and", ("t", "aa"), ("t", "cc")), ("or", ("t", "bb"), ("t", "cc")))),
]
BINARY_QUALITY_KNOWN = {"and", "or2", "or3", "andmaybe", "and_or", "or_and", "and3", "dismax_and", "boost_or", "boost_or3", "boost_and",
                        "or_boost_term", "otherwise_and",
                        "andnot_or", "and_not"}
BOOSTED = {"boost_or", "boost_or3", "boost_and", "or_boost_term"}


def mkq(spec):
    from whoosh import query
    op = spec[0]
    if op == "t":
        return query.Term("t", spec[1])
    if op == "and":
        return query.And([mkq(s) for s in spec[1:]])
    if op == "or":
        return query.Or([mkq(s) for s in spec[1:]])
    if op == "orscale":
        return query.Or([mkq(s) for s in spec[2:]], scale=spec[1])
    if op == "otherwise":
        return query.Otherwise(mkq(spec[1]), mkq(spec[2]))
    if op == "andnot":
        return query.AndNot(mkq(spec[1]), mkq(spec[2]))
    if op == "andmaybe":
        return query.AndMaybe(mkq(spec[1]), mkq(spec[2]))
    if op == "require":
        return query.Require(mkq(spec[1]), mkq(spec[2]))
    if op == "dismax":
        return query.DisjunctionMax([mkq(s) for s in spec[1:]])
    if op == "not":
        return query.Not(mkq(spec[1]))
    if op == "boost":
        q = mkq(spec[2])
        q.boost = spec[1]
        return q
    if op == "boostt":
        return query.Term("t", spec[2][1], boost=spec[1])
    raise ValueError(op)


def ev(spec, corpus):
    """-> {doc: score} over live documents (Frequency weighting: term score = tf)."""
    docs = corpus["docs"]
    live = [i for i in range(len(docs)) if i not in corpus["deleted"]]
    op = spec[0]
    if op == "t":
        return {i: float(docs[i][spec[1]]) for i in live if docs[i].get(spec[1])}
    if op == "and":
        parts = [ev(s, corpus) for s in spec[1:]]
        ks = set(parts[0])
        for p in parts[1:]:
            ks &= set(p)
        return {i: sum((p[i] or 0.0) for p in parts) for i in ks}
    if op == "or":
        parts = [ev(s, corpus) for s in spec[1:]]
        ks = set().union(*[set(p) for p in parts])
        return {i: sum((p.get(i) or 0.0) for p in parts) for i in ks}
    if op == "orscale":
        # coordination bonus (the documented "SQR" function of CoordMatcher) over the number of matching terms
        parts = [ev(s, corpus) for s in spec[2:]]
        ks = set().union(*[set(p) for p in parts])
        tc, scale = len(parts), spec[1]
        out = {}
        for i in ks:
            score = sum((p.get(i) or 0.0) for p in parts)
            matching = sum(1 for p in parts if i in p)
            out[i] = (score + ((matching - 1) / (tc - scale) ** 2)) * ((tc - 1) / tc)
        return out
    if op == "otherwise":
        # the second clause only when the first matches no (live) document of the whole index
        a = ev(spec[1], corpus)
        return a if a else ev(spec[2], corpus)
    if op == "andnot":
        a, b = ev(spec[1], corpus), ev(spec[2], corpus)
        return {i: s for i, s in a.items() if i not in b}
    if op == "andmaybe":
        a, b = ev(spec[1], corpus), ev(spec[2], corpus)
        return {i: s + b.get(i, 0.0) for i, s in a.items()}
    if op == "require":
        a, b = ev(spec[1], corpus), ev(spec[2], corpus)
        return {i: s for i, s in a.items() if i in b}
    if op == "dismax":
        parts = [ev(s, corpus) for s in spec[1:]]
        ks = set().union(*[set(p) for p in parts])
        return {i: max(p[i] for p in parts if i in p) for i in ks}
    if op == "not":
        a = ev(spec[1], corpus)
        return {i: None for i in live if i not in a}      # score of Not is not specified here
    if op in ("boost", "boostt"):
        return {i: (None if s is None else s * spec[1]) for i, s in ev(spec[2], corpus).items()}
    raise ValueError(op)


def has_not(spec):
    return spec[0] == "not" or any(isinstance(s, tuple) and has_not(s) for s in spec[1:] if isinstance(s, tuple))


class Fail(Exception):
    pass


def steps(m, with_scores=True):
    out = []
    guard = 0
    while m.is_active():
        out.append((m.id(), m.score() if with_scores else None))
        m.next()
        guard += 1
        if guard > 200:
            raise Fail("next() does not terminate")
    return out


def check_corpus(corpus, fails, counts):
    from whoosh import scoring
    ix = build(corpus)
    docs = corpus["docs"]
    maxlen = max([sum(1 for d in docs if d.get(t)) for t in TERMS] + [0])
    single_block = corpus["blocklimit"] >= maxlen
    multiseg = len(ix._segments()) > 1 if hasattr(ix, "_segments") else False
    with ix.searcher(weighting=scoring.Frequency()) as s:
        k2d = {}
        for dn in s.reader().all_doc_ids():
            k2d[int(s.stored_fields(dn)["k"])] = dn
        nseg = len(s.leaf_searchers())
        for kind, spec in KINDS:
            def fail(check, detail):
                fails.append({"case": "%s/%s" % (check, kind), "detail": detail, "corpus": corpus})
            try:
                q = mkq(spec)
                ref = ev(spec, corpus)
                scored = not has_not(spec)
                refl = sorted((k2d[i], sc) for i, sc in ref.items())       # by docnum
                refids = [d for d, _ in refl]
                counts["queries"] += 1
                # ---------------- C01 / C09: access paths
                res = s.search(q, limit=None)
                got = sorted((h.docnum, h.score) for h in res)
                if [d for d, _ in got] != refids:
                    fail("C01-search", "search ids %r expected %r" % ([d for d, _ in got], refids))
                elif scored and got != refl:
                    fail("C09-score", "scores %r expected %r" % (got, refl))
                if sorted(s.docs_for_query(q)) != refids:
                    fail("C01-docs_for_query", "%r expected %r" % (sorted(s.docs_for_query(q)), refids))
                if sorted(q.docs(s)) != refids:
                    fail("C01-query.docs", "%r expected %r" % (sorted(q.docs(s)), refids))
                r1 = s.search(q, limit=1)
                if len(r1) != len(refids):
                    fail("C01-len-limit", "len(results, limit=1) = %d expected %d" % (len(r1), len(refids)))
                if len(s.search(q, limit=None, terms=True)) != len(refids):
                    fail("C01-terms", "terms=True changes the match count")
                # whatever the limit, every hit is a matching live document (C01; the ranking itself is C05)
                for k in (1, 2, 3):
                    hits = [h.docnum for h in s.search(q, limit=k)]
                    if any(d not in refids for d in hits) or len(hits) != min(k, len(refids)) or len(set(hits)) != len(hits):
                        fail("C01-limit-hits", "search(limit=%d) -> %r but the matching documents are %r" % (k, hits, refids))
                        break
                # ---------------- C05
                c05_ok = scored and (single_block or kind not in BINARY_QUALITY_KNOWN) and kind not in BOOSTED
                if c05_ok:
                    rank = sorted(refl, key=lambda x: (-x[1], x[0]))
                    for k in (1, 2, 3):
                        top = [(h.docnum, h.score) for h in s.search(q, limit=k)]
                        if top != rank[:k]:
                            fail("C05-topk", "limit=%d -> %r expected %r" % (k, top, rank[:k]))
                            break
                # ---------------- matcher level (single segment only: per-segment matchers)
                if nseg != 1:
                    # over several segments the top-level matcher of a term is a MultiMatcher: its skip_to_quality must not
                    # pass over an entry scoring more than the threshold (compound kinds are checked per segment only)
                    if kind == "term" and scored:
                        ctx = s.context()
                        m0 = q.matcher(s, ctx)
                        if m0.is_active() and m0.supports_block_quality():
                            for j in range(len(refids)):
                                for qth in sorted(set([0.5] + [x for _, x in refl] + [x + 0.5 for _, x in refl])):
                                    m = q.matcher(s, ctx)
                                    for _ in range(j):
                                        m.next()
                                    m.skip_to_quality(qth)
                                    newp = m.id() if m.is_active() else 10 ** 9
                                    lost = [(d, x) for d, x in refl[j:] if d < newp and x > qth]
                                    if newp < refids[j] or lost or (m.is_active() and newp not in refids):
                                        fail("C12-skip_to_quality-multi", "top-level matcher over %d segments at %d: skip_to_quality(%r) -> %r passes %r"
                                             % (nseg, refids[j], qth, newp, lost))
                                        break
                                else:
                                    continue
                                break
                    continue
                ctx = s.context()
                mk = lambda: q.matcher(s, ctx)
                m = mk()
                if list(mk().all_ids()) != refids:
                    fail("C11-all_ids", "%r expected %r" % (list(mk().all_ids()), refids))
                st = steps(mk(), scored)
                if [d for d, _ in st] != refids or (scored and st != refl):
                    fail("C11-stepping", "%r expected %r" % (st, refl))
                    continue
                n = len(docs)
                for t in range(0, n + 2):
                    m = mk()
                    if not m.is_active():
                        break
                    m.skip_to(t)
                    exp = [d for d in refids if d >= t]
                    gotp = m.id() if m.is_active() else None
                    if gotp != (exp[0] if exp else None):
                        fail("C11-skip_to", "fresh.skip_to(%d) -> %r expected %r (list %r)" % (t, gotp, exp[:1], refids))
                        break
                    if m.is_active():
                        if scored and m.score() != dict(refl)[m.id()]:
                            fail("C11-score-after-skip", "skip_to(%d): score %r expected %r" % (t, m.score(), dict(refl)[m.id()]))
                            break
                        cur = m.id()
                        m.skip_to(cur)          # not beyond the current id: must not move
                        if not m.is_active() or m.id() != cur:
                            fail("C11-skip_to-nomove", "skip_to(%d) at %d moved" % (cur, cur))
                            break
                        rest = [d for d, _ in steps(m, False)]
                        if rest != exp:
                            fail("C11-after-skip", "after skip_to(%d): %r expected %r" % (t, rest, exp))
                            break
                # what is read at an entry does not depend on how it was reached: weight() by stepping vs by skip_to
                if scored:
                    wstep = {}
                    m = mk()
                    try:
                        while m.is_active() and len(wstep) < 200:
                            wstep[m.id()] = m.weight()
                            m.next()
                    except NotImplementedError:
                        wstep = None        # ArrayUnionMatcher refuses weight(): a refusal is not a wrong answer
                    for d in (refids if wstep is not None else ()):
                        m = mk()
                        m.skip_to(d)
                        if m.weight() != wstep.get(d):
                            fail("C11-weight-path", "weight() at %d is %r after skip_to, %r by stepping" % (d, m.weight(), wstep.get(d)))
                            break
                # mid-list skip_to + copy + reset + replace(0)
                copy_unsupported = False
                for j in range(len(refids)):
                    m = mk()
                    for _ in range(j):
                        m.next()
                    try:
                        c = m.copy()
                    except NotImplementedError:
                        c = None
                        copy_unsupported = True
                    if c is not None:
                        if m.is_active():
                            m.next()
                        tail = [d for d, _ in steps(c, False)]
                        if tail != refids[j:]:
                            fail("C11-copy", "copy at %d -> %r expected %r" % (j, tail, refids[j:]))
                            break
                    m = mk()
                    for _ in range(j):
                        m.next()
                    r = m.replace()
                    tail = [d for d, _ in steps(r, False)]
                    if tail != refids[j:]:
                        fail("C11-replace0", "replace() at %d -> %r expected %r" % (j, tail, refids[j:]))
                        break
                    m = mk()
                    for _ in range(j):
                        m.next()
                    for t in (refids[j] - 1, refids[j], refids[j] + 1, (refids[j + 1] if j + 1 < len(refids) else n + 1)):
                        m2 = mk()
                        for _ in range(j):
                            m2.next()
                        m2.skip_to(t)
                        exp = [d for d in refids[j:] if d >= t] if t > refids[j] else refids[j:]
                        gotp = m2.id() if m2.is_active() else None
                        if gotp != (exp[0] if exp else None):
                            fail("C11-skip_to-mid", "at %d skip_to(%d) -> %r expected %r" % (refids[j], t, gotp, exp[:1]))
                            break
                if copy_unsupported and not any(f["case"] == "C11-copy-unsupported" for f in fails):
                    fails.append({"case": "C11-copy-unsupported", "detail": "copy() raises NotImplementedError "
                                  "(W3LeafMatcher does not implement copy)", "corpus": corpus})
                if not has_not(spec):
                    m = mk()
                    for _ in range(min(2, len(refids))):
                        m.next()
                    try:
                        m.reset()
                        rs = [d for d, _ in steps(m, False)]
                        if rs != refids:
                            fail("C11-reset", "after reset %r expected %r" % (rs, refids))
                    except NotImplementedError:
                        pass
                # ---------------- C12 quality
                m = mk()
                if scored and m.supports_block_quality():
                    sc = dict(refl)
                    j = 0
                    while m.is_active():
                        bq, mq = m.block_quality(), m.max_quality()
                        if bq < sc[m.id()]:
                            fail("C12-block_quality", "at %d block_quality %r < score %r" % (m.id(), bq, sc[m.id()]))
                            break
                        rem = [x for d, x in refl if d >= m.id()]
                        if mq < max(rem):
                            fail("C12-max_quality", "at %d max_quality %r < remaining max %r" % (m.id(), mq, max(rem)))
                            break
                        if kind == "term" and not corpus["deleted"]:
                            bl = corpus["blocklimit"]
                            blk = refl[(j // bl) * bl:(j // bl) * bl + bl]
                            if bq < max(x for _, x in blk):
                                fail("C12-leaf-block", "at %d block_quality %r < block max %r" % (m.id(), bq, max(x for _, x in blk)))
                                break
                        m.next()
                        j += 1
                    ths = sorted(set([0.5] + [x for _, x in refl] + [x + 0.5 for _, x in refl]))
                    skq_ok = single_block or kind not in BINARY_QUALITY_KNOWN
                    for j in range(len(refids)):
                        for qth in ths:
                            if skq_ok:
                                m = mk()
                                for _ in range(j):
                                    m.next()
                                m.skip_to_quality(qth)
                                newp = m.id() if m.is_active() else 10 ** 9
                                if newp < refids[j]:
                                    fail("C12-skip_to_quality", "moved backwards")
                                    break
                                lost = [(d, x) for d, x in refl[j:] if d < newp and x > qth]
                                if lost or (m.is_active() and newp not in refids):
                                    fail("C12-skip_to_quality", "at %d skip_to_quality(%r) -> %r passes %r" % (refids[j], qth, newp, lost))
                                    break
                            if kind not in BOOSTED:
                                m = mk()
                                for _ in range(j):
                                    m.next()
                                r = m.replace(qth)
                                kept = steps(r, True)
                                need = [(d, x) for d, x in refl[j:] if x > qth]
                                if [p for p in kept if p[1] > qth] != need or not set(d for d, _ in kept) <= set(refids[j:]):
                                    fail("C12-replace", "at %d replace(%r) -> %r must keep %r" % (refids[j], qth, kept, need))
                                    break
                        else:
                            continue
                        break
            except Fail as e:
                fail("C11-protocol", str(e))
            except Exception as e:
                fail("exception", "%s: %s | %s" % (type(e).__name__, e, traceback.format_exc()[-400:]))
    counts["corpora"] += 1


def run(chunk):
    seeds, = chunk,
    fails, counts = [], {"corpora": 0, "queries": 0}
    tmp = tempfile.mkdtemp(prefix="mb_")
    os.environ["TMPDIR"] = tmp
    tempfile.tempdir = tmp
    for sd in seeds:
        rnd = random.Random(sd)
        corpus = gen_corpus(rnd)
        try:
            check_corpus(corpus, fails, counts)
        except Exception as e:
            fails.append({"case": "exception/build", "detail": traceback.format_exc()[-600:], "corpus": corpus})
        if len(set(f["case"] for f in fails)) > 12:
            break
    import shutil
    shutil.rmtree(tmp, ignore_errors=True)
    return fails, counts


def check_scoring_paths(fails):
    """C09 deterministic families: (1) a weighting model with a final() hook sees the GLOBAL document number of every hit,
    whatever segment it is in; (2) collection statistics are per field: the same word in two fields must not share its
    idf, whatever was searched before on the same searcher; (3) a boost on a compound with one clause multiplies."""
    import tempfile as _tf
    from whoosh import fields, query, scoring
    from whoosh.filedb.filestore import RamStorage
    ix = RamStorage().create_index(fields.Schema(k=fields.ID(stored=True), a=fields.TEXT, b=fields.TEXT))
    docs = [("xx yy", "xx"), ("yy", "xx zz"), ("yy zz", "xx"), ("zz", "xx xx"), ("yy", "xx"), ("zz", "zz")]
    w = ix.writer()
    for i, (a, b) in enumerate(docs):
        if i in (2, 4):
            w.commit(merge=False)
            w = ix.writer()
        w.add_document(k=u"%d" % i, a=a, b=b)
    w.commit(merge=False)

    class FinalW(scoring.Frequency):
        use_final = True

        def final(self, searcher, docnum, score):
            return score + 1000.0 * int(searcher.stored_fields(docnum)["k"])
    with ix.searcher(weighting=FinalW()) as s:
        if len(s.search(query.Term("b", u"xx"), limit=None)) != 5:
            fails.append({"case": "exception/scoring-paths", "detail": "harness corpus not indexed as intended", "corpus": None})
        for q in (query.Term("b", u"xx"), query.Or([query.Term("a", u"yy"), query.Term("b", u"zz")])):
            for h in s.search(q, limit=None):
                base = h.score - 1000.0 * int(h["k"])
                if not (0 < base < 50):
                    fails.append({"case": "C09-final-docnum", "detail": "weighting.final() was not given the hit's own document: hit k=%s of %r "
                                  "scores %r (expected 1000*k + term score)" % (h["k"], q, h.score), "corpus": None})
                    break
    for wcls in (scoring.TF_IDF, scoring.BM25F):
        def scores(s_, q):
            return sorted((h["k"], round(h.score, 6)) for h in s_.search(q, limit=None))
        with ix.searcher(weighting=wcls()) as s1:
            first = scores(s1, query.Term("a", u"xx"))
            second = scores(s1, query.Term("b", u"xx"))
        with ix.searcher(weighting=wcls()) as s2:
            second_fresh = scores(s2, query.Term("b", u"xx"))
            first_after = scores(s2, query.Term("a", u"xx"))
        if second != second_fresh or first != first_after:
            fails.append({"case": "C09-idf-per-field", "detail": "%s: b:x scored after a:x on one searcher %r, on a fresh searcher %r; a:x %r vs %r "
                          "(the word's statistics of one field leaked into the other)" % (wcls.__name__, second, second_fresh, first, first_after),
                          "corpus": None})
    with ix.searcher(weighting=scoring.Frequency()) as s:
        base = dict((h["k"], h.score) for h in s.search(query.Term("b", u"xx"), limit=None))
        for cls in (query.Or, query.And, query.DisjunctionMax):
            got = dict((h["k"], h.score) for h in s.search(cls([query.Term("b", u"xx")], boost=3.0), limit=None))
            if got != dict((k_, v * 3.0) for k_, v in base.items()):
                fails.append({"case": "C09-single-clause-boost", "detail": "%s([b:x], boost=3) scores %r, b:x alone %r" % (cls.__name__, got, base),
                              "corpus": None})


def check_limited_nested(fails):
    """C05 deterministic family: a limited search over DisjunctionMax of compound clauses whose block quality EQUALS the
    current k-th best score must terminate (DisjunctionMaxMatcher.skip_to_quality used to spin there) and return the prefix
    of the exhaustive ranking."""
    import signal
    from whoosh import fields, query, scoring
    from whoosh.filedb.filestore import RamStorage
    ix = RamStorage().create_index(fields.Schema(k=fields.ID(stored=True), body=fields.TEXT))
    w = ix.writer()
    w.add_document(k=u"0", body=u"xx")
    w.add_document(k=u"1", body=u"xx xx yy yy zz zz ww ww")
    for i in range(2, 10):
        w.add_document(k=u"%d" % i, body=u"xx yy zz ww")
    w.commit()
    T = lambda t: query.Term("body", t)
    shapes = [query.DisjunctionMax([query.Or([T(u"xx"), T(u"yy")]), query.Or([T(u"zz"), T(u"ww")])]),
              query.DisjunctionMax([query.And([T(u"xx"), T(u"yy")]), query.Or([T(u"zz"), T(u"ww")])]),
              query.DisjunctionMax([query.AndMaybe(T(u"xx"), T(u"yy")), query.AndMaybe(T(u"zz"), T(u"ww"))]),
              query.DisjunctionMax([query.DisjunctionMax([T(u"xx"), T(u"yy")]), query.Or([T(u"zz"), T(u"ww")])])]

    class Hang(Exception):
        pass

    def boom(*a):
        raise Hang()
    old = signal.signal(signal.SIGALRM, boom)
    try:
        with ix.searcher(weighting=scoring.Frequency()) as s:
            for q in shapes:
                full = [(h["k"], h.score) for h in s.search(q, limit=None)]
                for k in (1, 2, 3):
                    signal.alarm(20)
                    try:
                        got = [(h["k"], h.score) for h in s.search(q, limit=k)]
                    except Hang:
                        fails.append({"case": "C05-dismax-progress", "detail": "search(%r, limit=%d) did not return within 20 s" % (q, k), "corpus": None})
                        return
                    finally:
                        signal.alarm(0)
                    if [sc for _, sc in got] != [sc for _, sc in full[:k]]:
                        fails.append({"case": "C05-dismax-progress", "detail": "search(%r, limit=%d) = %r, exhaustive prefix %r" % (q, k, got, full[:k]), "corpus": None})
                        return
    finally:
        signal.signal(signal.SIGALRM, old)


def check_coord(fails):
    """C11 deterministic family: Or(scale=...) (CoordMatcher) over one segment in which every query term occurs: the
    (document, score) list read by stepping is what replace(0) and copy() continue with, from every position.  (Random
    corpora are not used for this kind: the coordination bonus counts the term matchers present in the tree, so its value
    for corpora lacking a term is not fixed by any property.)"""
    from whoosh import fields, query, scoring
    from whoosh.filedb.filestore import RamStorage
    ix = RamStorage().create_index(fields.Schema(t=fields.TEXT))
    w = ix.writer()
    for text in [u"bravo alfa", u"alfa bravo", u"alfa charlie", u"alfa bravo charlie", u"echo", u"echo alfa", u"charlie"]:
        w.add_document(t=text)
    w.commit()
    T = lambda x: query.Term("t", x)
    with ix.searcher(weighting=scoring.Frequency()) as s:
        for q in (query.Or([T(u"alfa"), T(u"charlie")], scale=0.5), query.Or([T(u"alfa"), T(u"echo"), T(u"charlie")], scale=0.5),
                  query.Or([T(u"echo"), T(u"bravo")], scale=2.0)):
            def mk():
                return q.matcher(s, s.context())
            _check_coord_paths(fails, q, mk, ("replace",))
    # the same over in-memory list matchers, which implement copy()
    from whoosh.matching import ListMatcher, UnionMatcher, CoordMatcher

    def mk2():
        a = ListMatcher([0, 1, 2, 3, 5], [1.0, 2.0, 1.0, 1.0, 3.0], term=("t", b"alfa"))
        b = ListMatcher([2, 3, 6], [1.0, 2.0, 1.0], term=("t", b"charlie"))
        return CoordMatcher(UnionMatcher(a, b), scale=0.5)
    _check_coord_paths(fails, "CoordMatcher(Union(List, List), scale=0.5)", mk2, ("replace", "copy"))


def _check_coord_paths(fails, q, mk, hows):
    if True:
        if True:
            ref = []
            m = mk()
            while m.is_active():
                ref.append((m.id(), m.score()))
                m.next()
            for j in range(len(ref)):
                for how in hows:
                    m = mk()
                    m.skip_to(ref[j][0])
                    m2 = m.replace(0) if how == "replace" else m.copy()
                    tail = []
                    while m2.is_active():
                        tail.append((m2.id(), m2.score()))
                        m2.next()
                    if tail != ref[j:]:
                        fails.append({"case": "C11-coord-" + how, "detail": "%r: %s at document %d continues with %r, stepping gives %r"
                                      % (q, how, ref[j][0], tail, ref[j:]), "corpus": None})
                        return


def check_zero_score(fails):
    """C01 deterministic family: a matching document whose score is 0 (field boost 0) or negative (a weighting that negates)
    is still a result: the scored search over an n-ary Or (ArrayUnionMatcher) returns the same documents as Query.docs()."""
    from whoosh import fields, query, scoring
    from whoosh.filedb.filestore import RamStorage
    ix = RamStorage().create_index(fields.Schema(k=fields.ID(stored=True), t=fields.TEXT))
    w = ix.writer()
    w.add_document(k=u"0", t=u"alfa bravo")
    w.add_document(k=u"1", t=u"charlie", _t_boost=0.0)
    w.add_document(k=u"2", t=u"delta alfa")
    w.add_document(k=u"3", t=u"echo")
    w.commit()
    q = query.Or([query.Term("t", x) for x in (u"alfa", u"bravo", u"charlie", u"delta")])

    class Negated(scoring.Frequency):
        class NegScorer(scoring.WeightScorer):
            def __init__(self):
                scoring.WeightScorer.__init__(self, 0)

            def score(self, matcher):
                return 0 - matcher.weight()

        def scorer(self, searcher, fieldname, text, qf=1):
            return self.NegScorer()
    for wname, wt in (("Frequency", scoring.Frequency()), ("negated weights", Negated())):
        with ix.searcher(weighting=wt) as s:
            scored = sorted(h["k"] for h in s.search(q, limit=None))
            unscored = sorted(s.stored_fields(d)["k"] for d in q.docs(s))
            if scored != unscored or scored != ["0", "1", "2"]:
                fails.append({"case": "C01-zero-score", "detail": "%s: scored search over Or of 4 terms returns %r, Query.docs() %r, expected "
                              "['0', '1', '2'] (document 1 has field boost 0)" % (wname, scored, unscored), "corpus": None})
                return


def check_batch4(fails):
    """Deterministic families added after the fourth batch of seeded changes.
    C09/C05 nested boosts: Or([aa^2, bb], boost=3) over 40 documents where bb runs out after 3 (the collector's periodic
    replace() then rebuilds the wrappers): every hit's score, for every limit, is 3 * (2 * tf(aa) + tf(bb)).
    C09 fractional weights: documents with _boost=0.5 next to unboosted ones in ONE posting block (block maximum exactly 1.0).
    C05 n-ary Or with a boost below 1 over 3000 documents whose best hits come last (array union parts skipped by quality).
    C11 span matchers: stepping with replace(0) after every step yields the same (id, spans) list as plain stepping.
    C12 two scorable fields with different lengths per document: block_quality() >= score() at every posting and
    max_quality() >= every remaining score, for every term of every field (BM25F, small blocks)."""
    import random as _random
    from whoosh import fields, query, scoring
    from whoosh.codec.whoosh3 import W3Codec
    from whoosh.filedb.filestore import RamStorage
    from whoosh.query import spans as sq

    def F(case, detail):
        fails.append({"case": case, "detail": detail, "corpus": None})

    # ---- nested boosts across replace()
    ix = RamStorage().create_index(fields.Schema(k=fields.ID(stored=True), t=fields.TEXT(phrase=False)))
    w = ix.writer()
    model = {}
    for i in range(40):
        tfa = 1 + (i % 4)
        tfb = 2 if i < 3 else 0
        w.add_document(k=u"%d" % i, t=u" ".join(["aa"] * tfa + ["bb"] * tfb))
        model[str(i)] = 3.0 * (2.0 * tfa + tfb)
    w.commit()
    with ix.searcher(weighting=scoring.Frequency()) as s:
        for mk in (lambda: query.Or([query.Term("t", u"aa", boost=2.0), query.Term("t", u"bb")], boost=3.0),
                   lambda: query.AndMaybe(query.Term("t", u"aa", boost=2.0), query.Term("t", u"bb"), boost=3.0) if False else
                   query.Or([query.Term("t", u"aa", boost=2.0), query.Term("t", u"bb")], boost=3.0)):
            for limit in (None, 12, 25, 39):
                r = s.search(mk(), limit=limit)
                bad = [(h["k"], h.score, model[h["k"]]) for h in r if abs(h.score - model[h["k"]]) > 1e-6]
                if bad:
                    F("C09-nested-boost-replace", "Or([aa^2, bb], boost=3) limit=%r: (doc, score, expected) %r" % (limit, bad[:4]))
                    break
    # ---- fractional weights in a block whose maximum is exactly 1.0
    ix = RamStorage().create_index(fields.Schema(k=fields.ID(stored=True), t=fields.TEXT(phrase=False)))
    w = ix.writer()
    model = {}
    for i in range(12):
        b = 0.5 if i % 3 == 1 else (0.25 if i == 6 else 1.0)
        w.add_document(k=u"%d" % i, t=u"cc dd" if i % 2 else u"cc", _boost=b)
        model[str(i)] = b
    w.commit()
    with ix.searcher(weighting=scoring.Frequency()) as s:
        got = dict((h["k"], h.score) for h in s.search(query.Term("t", u"cc"), limit=None))
        bad = [(k_, got.get(k_), v) for k_, v in sorted(model.items()) if got.get(k_) is None or abs(got[k_] - v) > 1e-6]
        if bad:
            F("C09-fractional-weight", "term score of documents with _boost < 1 (doc, score, expected): %r" % (bad[:5],))
    # ---- n-ary Or with a boost in (0, 1), best hits last
    ix = RamStorage().create_index(fields.Schema(k=fields.ID(stored=True), t=fields.TEXT(phrase=False)))
    w = ix.writer(limitmb=64)
    for i in range(3000):
        words = ["aa"] * (1 + i // 250) + (["bb"] if i % 2 else []) + (["cc"] * 2 if i % 3 == 0 else [])
        w.add_document(k=u"%d" % i, t=u" ".join(words))
    w.commit()
    with ix.searcher(weighting=scoring.Frequency()) as s:
        for boost in (0.5, 0.1, 1.0, 2.0):
            q = lambda: query.Or([query.Term("t", u"aa"), query.Term("t", u"bb"), query.Term("t", u"cc")], boost=boost)
            full = [(h["k"], round(h.score, 6)) for h in s.search(q(), limit=None)]
            for limit in (1, 5, 40):
                top = [(h["k"], round(h.score, 6)) for h in s.search(q(), limit=limit)]
                if top != full[:limit]:
                    F("C05-or3-fractional-boost", "Or([aa, bb, cc], boost=%r) limit=%d returns %r, exhaustive ranking starts %r"
                      % (boost, limit, top[:5], full[:5]))
                    break
    # ---- span matchers: replace(0) after every step changes nothing
    ix = RamStorage().create_index(fields.Schema(k=fields.ID(stored=True), t=fields.TEXT))
    rnd = _random.Random(4)
    w = ix.writer()
    for i in range(30):
        n = rnd.randint(1, 6)
        words = [rnd.choice(["aa", "bb", "cc", "dd"]) for _ in range(n)]
        if i > 12:
            words = [x for x in words if x != "bb"] or ["dd"]      # bb runs out early: the Or below simplifies itself
        w.add_document(k=u"%d" % i, t=u" ".join(words))
    w.commit()
    ta, tb, tc = query.Term("t", u"aa"), query.Term("t", u"bb"), query.Term("t", u"cc")
    span_kinds = [("spanfirst-or", lambda: sq.SpanFirst(query.Or([ta, tb]), limit=2)),
                  ("spanfirst", lambda: sq.SpanFirst(ta, limit=1)),
                  ("spannear-or", lambda: sq.SpanNear(query.Or([ta, tb]), tc, slop=2, ordered=False)),
                  ("spannot-or", lambda: sq.SpanNot(query.Or([ta, tb]), tc)),
                  ("spanor", lambda: sq.SpanOr([sq.SpanFirst(ta, limit=1), tb]))]
    with ix.searcher(weighting=scoring.Frequency()) as s:
        for name, mk in span_kinds:
            try:
                m = mk().matcher(s)
                plain = []
                while m.is_active():
                    plain.append((m.id(), sorted((sp.start, sp.end) for sp in m.spans())))
                    m.next()
                m = mk().matcher(s)
                repl = []
                while m.is_active():
                    repl.append((m.id(), sorted((sp.start, sp.end) for sp in m.spans())))
                    m.next()
                    m = m.replace(0)
                if repl != plain:
                    F("C11-span-replace/" + name, "stepping with replace(0) after every step: %r, plain stepping: %r" % (repl[:8], plain[:8]))
            except NotImplementedError:
                pass
    # ---- two scorable fields: quality bounds per term
    ix = RamStorage().create_index(fields.Schema(k=fields.ID(stored=True), lbody=fields.TEXT(phrase=False), title=fields.TEXT(phrase=False)))
    rnd = _random.Random(11)
    for part in range(2):
        w = ix.writer(codec=W3Codec(blocklimit=3))
        for i in range(25):
            nb = rnd.choice([1, 2, 30, 60, 120])
            nt = rnd.choice([1, 1, 2, 3])
            vocab = ["aardvark", "bee", "cat", "zebra"]
            body = [rnd.choice(vocab) for _ in range(nb)] + (["zebra"] if i % 2 else [])
            title = [rnd.choice(vocab) for _ in range(nt)]
            if i % 5 == 0:
                title = ["aardvark"]
            w.add_document(k=u"%d-%d" % (part, i), lbody=u" ".join(body), title=u" ".join(title))
        w.commit(merge=False)
    # (the ID field k sorts before both text fields, so the title postings directly follow the body postings)
    # a segment where the first title term starts in the very document the last body term ends in, that document being
    # long in body and the shortest in title (per-document lengths must be looked up per FIELD)
    w = ix.writer(codec=W3Codec(blocklimit=3))
    for i in range(6):
        w.add_document(k=u"2-%d" % i, lbody=u" ".join(["zebra"] * (3 if i < 5 else 90)),
                       title=u"bee cat cat cat" if i < 5 else u"aardvark")
    w.commit(merge=False)
    for wm in (scoring.BM25F(), scoring.TF_IDF()):
        with ix.searcher(weighting=wm) as s:
            for fname in ("lbody", "title"):
                for word in ("aardvark", "bee", "cat", "zebra"):
                    for sub, _off in s.leaf_searchers():
                        m = query.Term(fname, word).matcher(sub)
                        if not m.is_active() or not m.supports_block_quality():
                            continue
                        rows = []
                        while m.is_active():
                            rows.append((m.id(), m.score(), m.block_quality(), m.max_quality()))
                            m.next()
                        for j, (d, sc, bq, mq) in enumerate(rows):
                            if bq < sc - 1e-9:
                                F("C12-two-fields-block-quality", "%s %s:%s doc %d: block_quality %r < score %r" % (type(wm).__name__, fname, word, d, bq, sc))
                                break
                            rest = max(r[1] for r in rows[j:])
                            if mq < rest - 1e-9:
                                F("C12-two-fields-max-quality", "%s %s:%s at doc %d: max_quality %r < a remaining score %r" % (type(wm).__name__, fname, word, d, mq, rest))
                                break


def main():
    if sys.argv[1] == "--deterministic":
        fails = []
        for fam in (check_scoring_paths, check_limited_nested, check_coord, check_zero_score, check_batch4):
            try:
                fam(fails)
            except Exception as e:
                fails.append({"case": "exception/" + fam.__name__, "detail": "%s: %s" % (type(e).__name__, e), "corpus": None})
        want = sys.argv[2] if len(sys.argv) > 2 else None
        hit = [f for f in fails if want is None or f["case"] == want or f["case"].startswith("exception/")]
        for f in hit:
            print("FAIL", f["case"], "|", f["detail"])
        sys.exit(1 if hit else 0)
    if sys.argv[1] == "--corpus":
        corpus = json.loads(sys.argv[2])
        fails, counts = [], {"corpora": 0, "queries": 0}
        check_corpus(corpus, fails, counts)
        for f in fails:
            print("FAIL", f["case"], "|", f["detail"])
        print("corpus:", corpus)
        sys.exit(1 if fails else 0)
    n = int(sys.argv[1])
    seed = int(sys.argv[2])
    jobs = int(sys.argv[3]) if len(sys.argv) > 3 else 8
    seeds = [seed * 100003 + i for i in range(n)]
    chunks = [seeds[i::jobs] for i in range(jobs)]
    import multiprocessing
    with multiprocessing.get_context("fork").Pool(jobs) as pool:
        outs = pool.map(run, chunks)
    fails = [f for fs, _ in outs for f in fs]
    for fam in (check_scoring_paths, check_limited_nested, check_coord, check_zero_score, check_batch4):
        try:
            fam(fails)
        except Exception as e:
            fails.append({"case": "exception/" + fam.__name__, "detail": "%s: %s | %s" % (type(e).__name__, e, traceback.format_exc()[-400:]), "corpus": None})
    counts = {"corpora": sum(c["corpora"] for _, c in outs), "queries": sum(c["queries"] for _, c in outs)}
    # de-duplicate by case
    seen, uniq = set(), []
    for f in fails:
        if f["case"] not in seen:
            seen.add(f["case"])
            uniq.append(f)
    print(json.dumps({"cases": counts["queries"], "corpora": counts["corpora"], "failures": uniq, "kinds": len(KINDS)}))


if __name__ == "__main__":
    main()
