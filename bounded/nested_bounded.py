"""Bounded stand-in (class B) for the parent/child queries (C06: documents added as one group stay adjacent and in order so
that NestedParent / NestedChildren keep working through every merge; C01: result sets; C11: their matchers' cursor protocol).

Random corpora of groups (one parent followed by 0-3 children), committed over 1-3 segments cut at group boundaries, with
deleted children and deleted whole groups, then optimized; NestedParent(parents, child query) must return exactly the
parents with a live matching child, NestedChildren(parents, parent query) exactly the live children of the matching
parents - before and after optimize - and the matchers of both must step, skip and reset like cursors over that list.

usage: nested_bounded.py <corpora> <seed>      |  nested_bounded.py --corpus <json>
"""
import json
import os
import random
import sys
import tempfile
import traceback

WORDS = ["alfa", "bravo", "charlie"]


def gen(rnd):
    groups = []
    for g in range(rnd.randint(1, 6)):
        groups.append({"tag": rnd.choice(["red", "blue"]), "children": [rnd.choice(WORDS) for _ in range(rnd.randint(0, 3))]})
    cuts = sorted(set(rnd.sample(range(1, len(groups)), rnd.choice([0, 0, 1, 2])))) if len(groups) > 2 else []
    ndocs = sum(1 + len(g["children"]) for g in groups)
    dele = sorted(set(rnd.sample(range(ndocs), rnd.choice([0, 0, 1, 2])))) if ndocs > 2 else []
    return {"groups": groups, "cuts": cuts, "deleted": dele, "delgroup": rnd.choice([None, None, rnd.randrange(len(groups))])}


def check(corpus, fails):
    from whoosh import fields, query
    from whoosh.filedb.filestore import RamStorage

    def fail(case, detail):
        if not any(f["case"] == case for f in fails):
            fails.append({"case": case, "detail": detail[:600], "corpus": corpus})
    schema = fields.Schema(k=fields.ID(stored=True, unique=True), kind=fields.ID(stored=True), tag=fields.ID, t=fields.TEXT, g=fields.ID(stored=True))
    ix = RamStorage().create_index(schema)
    w = ix.writer()
    docs = []            # (key, kind, group index, text/tag)
    for gi, g in enumerate(corpus["groups"]):
        if gi in corpus["cuts"]:
            w.commit(merge=False)
            w = ix.writer()
        w.start_group()
        key = u"p%d" % gi
        w.add_document(k=key, kind=u"parent", tag=g["tag"], g=u"%d" % gi)
        docs.append((key, "parent", gi, g["tag"]))
        for ci, word in enumerate(g["children"]):
            key = u"c%d_%d" % (gi, ci)
            w.add_document(k=key, kind=u"child", t=word, g=u"%d" % gi)
            docs.append((key, "child", gi, word))
        w.end_group()
    w.commit(merge=False)
    # deletions: single CHILD documents (a deleted parent would orphan its children: not a supported use) and whole groups
    dead = set()
    w = ix.writer()
    for i in corpus["deleted"]:
        if i < len(docs) and docs[i][1] == "child":
            w.delete_by_term("k", docs[i][0])
            dead.add(docs[i][0])
    if corpus["delgroup"] is not None:
        w.delete_by_term("g", u"%d" % corpus["delgroup"])
        dead |= set(d[0] for d in docs if d[2] == corpus["delgroup"])
    w.commit(merge=False)
    live = [d for d in docs if d[0] not in dead]
    parents_q = query.Term("kind", u"parent")
    for phase in ("as committed", "optimized"):
        if phase == "optimized":
            ix.writer().commit(optimize=True)
        with ix.searcher() as s:
            k2d = dict((s.stored_fields(dn)["k"], dn) for dn in s.reader().all_doc_ids())
            for word in WORDS:
                q = query.NestedParent(parents_q, query.Term("t", word))
                exp = sorted(set(u"p%d" % d[2] for d in live if d[1] == "child" and d[3] == word))
                try:
                    got = sorted(h["k"] for h in s.search(q, limit=None))
                    if got != exp:
                        fail("C06-nested-parent", "%s: NestedParent(kind:parent, t:%s) -> %r expected %r" % (phase, word, got, exp))
                    got1 = sorted(h["k"] for h in s.search(q, limit=1))
                    if exp and (len(got1) != 1 or got1[0] not in exp):
                        fail("C06-nested-parent-limit", "%s: NestedParent(kind:parent, t:%s) limit=1 -> %r, matching parents %r" % (phase, word, got1, exp))
                except Exception as e:
                    fail("C06-nested-parent-exception", "%s: NestedParent(kind:parent, t:%s): %s: %s | %s"
                         % (phase, word, type(e).__name__, e, traceback.format_exc()[-300:]))
            for tag in ("red", "blue"):
                q = query.NestedChildren(parents_q, query.Term("tag", tag))
                wanted = set(d[2] for d in live if d[1] == "parent" and d[3] == tag)
                exp = sorted(d[0] for d in live if d[1] == "child" and d[2] in wanted)
                try:
                    got = sorted(h["k"] for h in s.search(q, limit=None))
                    if got != exp:
                        fail("C06-nested-children", "%s: NestedChildren(kind:parent, tag:%s) -> %r expected %r" % (phase, tag, got, exp))
                except Exception as e:
                    fail("C06-nested-children-exception", "%s: NestedChildren(kind:parent, tag:%s): %s: %s | %s"
                         % (phase, tag, type(e).__name__, e, traceback.format_exc()[-300:]))
            # ---- cursor protocol of the two matchers, per segment (as the collector drives them)
            for sub, offset in s.leaf_searchers():
                for q in [query.NestedParent(parents_q, query.Term("t", w_)) for w_ in WORDS] + \
                         [query.NestedChildren(parents_q, query.Term("tag", t_)) for t_ in ("red", "blue")]:
                    name = "nested-parent" if isinstance(q, query.NestedParent) else "nested-children"
                    try:
                        def ids_of(m_):
                            out = []
                            while m_.is_active() and len(out) < 100:
                                out.append(m_.id())
                                m_.next()
                            return out
                        ref = ids_of(q.matcher(sub, sub.context()))
                        if ref != sorted(set(ref)):
                            fail("C11-%s-order" % name, "%s: stepping %r gives ids %r (not strictly ascending)" % (phase, q, ref))
                            continue
                        for t in range(0, (ref[-1] if ref else 0) + 2):
                            m = q.matcher(sub, sub.context())
                            if not m.is_active():
                                break
                            m.skip_to(t)
                            rest = ids_of(m)
                            want = [d for d in ref if d >= t] if t > ref[0] else ref
                            if rest != want:
                                fail("C11-%s-skip_to" % name, "%s: %r skip_to(%d) then stepping gives %r, expected %r (full list %r)"
                                     % (phase, q, t, rest, want, ref))
                                break
                        m = q.matcher(sub, sub.context())
                        if m.is_active():
                            m.next()
                            m.reset()
                            rs = ids_of(m)
                            if rs != ref:
                                fail("C11-%s-reset" % name, "%s: %r after next() and reset(): %r expected %r" % (phase, q, rs, ref))
                    except NotImplementedError:
                        pass
                    except Exception as e:
                        fail("C11-%s-exception" % name, "%s: %r: %s: %s | %s" % (phase, q, type(e).__name__, e, traceback.format_exc()[-300:]))
    # ---- C07: delete_by_query with a parent/child query removes whole groups (NestedParent.deletion_docs): every document of
    # a group with a live matching child, and nothing else
    try:
        q = query.NestedParent(parents_q, query.Term("t", "alfa"))
        hit = set(d[2] for d in live if d[1] == "child" and d[3] == "alfa")
        w = ix.writer()
        n = w.delete_by_query(q)
        w.commit(merge=False)
        with ix.searcher() as s:
            got = sorted(h["k"] for h in s.search(query.Every(), limit=None))
        exp = sorted(d[0] for d in live if d[2] not in hit)
        expn = sum(1 for d in live if d[2] in hit)
        if got != exp or n != expn:
            fail("C07-nested-delete", "delete_by_query(NestedParent(kind:parent, t:alfa)) left %r, expected %r; returned %r, expected %r"
                 % (got, exp, n, expn))
    except Exception as e:
        fail("C07-nested-delete-exception", "%s: %s | %s" % (type(e).__name__, e, traceback.format_exc()[-300:]))


def main():
    tmp = tempfile.mkdtemp(prefix="nb_")
    os.environ["TMPDIR"] = tmp
    tempfile.tempdir = tmp
    fails = []
    if sys.argv[1] == "--corpus":
        check(json.loads(sys.argv[2]), fails)
        for f in fails:
            print("FAIL", f["case"], "|", f["detail"])
        sys.exit(1 if fails else 0)
    n, seed = int(sys.argv[1]), int(sys.argv[2])
    cases = 0
    for i in range(n):
        rnd = random.Random(seed * 100003 + i)
        corpus = gen(rnd)
        try:
            check(corpus, fails)
        except Exception as e:
            fails.append({"case": "exception/nested", "detail": "%s: %s | %s" % (type(e).__name__, e, traceback.format_exc()[-400:]), "corpus": corpus})
        cases += 1
    print(json.dumps({"cases": cases, "failures": fails}))


if __name__ == "__main__":
    main()
