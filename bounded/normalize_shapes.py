"""Native half of the C15 check: run the REAL rewriting functions on every query tree of the bounded shape family
and dump (input, output) pairs; the SMT half (contracts/rewrite.py) proves, per pair, that input and output
denote the same document set on EVERY index.

Rewrites exercised per input tree q: q.normalize(); normalize idempotence; q & r, q | r, q - r; q.with_boost(2);
q.replace(field, absent, x); q.accept(identity); copy.deepcopy(q); pickle round trip.

usage: normalize_shapes.py <nrandom> <seed>  -> JSON lines on stdout
"""
import copy
import itertools
import json
import pickle
import random
import sys
import traceback

from whoosh import query
from whoosh.query import qcore

F1, F2 = "f1", "f2"


def leaves():
    return [query.Term(F1, "a"), query.Term(F1, "c"), query.Term(F2, "a"),
            query.TermRange(F1, "a", "c"), query.TermRange(F1, "b", "d", True, False),
            query.TermRange(F1, "c", "e", False, True), query.TermRange(F1, None, "b"), query.TermRange(F2, "a", "c"),
            query.TermRange(F1, "c", "c"),
            query.Every(), query.Every(F1), qcore.NullQuery,
            query.NumericRange("n", 1, 5), query.NumericRange("n", 3, 9, True, False)]


def enc(q):
    if q is qcore.NullQuery or isinstance(q, qcore._NullQuery):
        return ["null"]
    if isinstance(q, query.Term):
        return ["term", q.fieldname, q.text]
    if isinstance(q, query.TermRange):
        return ["range", q.fieldname, q.start, q.end, bool(q.startexcl), bool(q.endexcl)]
    if isinstance(q, query.NumericRange):
        return ["nrange", q.fieldname, q.start, q.end, bool(q.startexcl), bool(q.endexcl)]
    if isinstance(q, query.Every):
        return ["every", q.fieldname]
    if isinstance(q, query.Not):
        return ["not", enc(q.query)]
    if isinstance(q, query.ConstantScoreQuery):
        return ["wrap", enc(q.child)]
    if isinstance(q, query.AndNot):
        return ["andnot", enc(q.a), enc(q.b)]
    if isinstance(q, query.AndMaybe):
        return ["andmaybe", enc(q.a), enc(q.b)]
    if isinstance(q, query.Require):
        return ["require", enc(q.a), enc(q.b)]
    if isinstance(q, query.Otherwise):
        return ["otherwise", enc(q.a), enc(q.b)]
    if isinstance(q, query.And):
        return ["and", [enc(s) for s in q.subqueries]]
    if isinstance(q, query.DisjunctionMax):
        return ["or", [enc(s) for s in q.subqueries]]
    if isinstance(q, query.Or):
        return ["or", [enc(s) for s in q.subqueries]]
    return ["opaque", repr(q)]


def build(rnd, depth):
    # NullQuery only occurs in the exhaustive shallow family: its (by design) propagation rules interact with every
    # other rewrite and are recorded there one at a time
    L = [q for q in leaves() if q is not qcore.NullQuery]
    if depth == 0 or rnd.random() < 0.25:
        return rnd.choice(L)
    k = rnd.choice(["not", "and", "or", "and", "or", "dismax", "andnot", "andmaybe", "require"])
    sub = lambda: build(rnd, depth - 1)
    if k == "not":
        return query.Not(sub())
    if k == "and":
        return query.And([sub() for _ in range(rnd.choice([1, 2, 2, 3]))], boost=rnd.choice([1.0, 1.0, 2.0]))
    if k == "or":
        return query.Or([sub() for _ in range(rnd.choice([1, 2, 2, 3]))], boost=rnd.choice([1.0, 1.0, 2.0]))
    if k == "dismax":
        return query.DisjunctionMax([sub() for _ in range(rnd.choice([2, 3]))])
    if k == "andnot":
        return query.AndNot(sub(), sub())
    if k == "andmaybe":
        return query.AndMaybe(sub(), sub())
    return query.Require(sub(), sub())


def all_shallow():
    L = leaves()
    out = list(L)
    for a in L:
        out.append(query.Not(a))
    for a, b in itertools.product(L, repeat=2):
        out += [query.And([a, b]), query.Or([a, b]), query.AndNot(a, b), query.AndMaybe(a, b), query.Require(a, b),
                query.DisjunctionMax([a, b])]
    return out


def kids_normalized(q):
    """The same node over individually normalized children (used only to EXPLAIN a difference by a recorded
    convention; the equivalence itself is always checked against the original input)."""
    try:
        if isinstance(q, (query.And, query.Or, query.DisjunctionMax)):
            return enc(q.__class__([s.normalize() for s in q.subqueries]))
        if isinstance(q, (query.AndNot, query.AndMaybe, query.Require)):
            return enc(q.__class__(q.a.normalize(), q.b.normalize()))
        if isinstance(q, query.Not):
            return enc(query.Not(q.query.normalize()))
    except Exception:
        return None
    return None


def emit(kind, qin, fn, extra=None):
    rec = {"kind": kind, "in": enc(qin) if not isinstance(qin, list) else qin}
    if extra:
        rec.update(extra)
    try:
        out = fn()
        rec["out"] = enc(out)
        if kind == "normalize":
            again = out.normalize()
            rec["idempotent"] = (again == out) and enc(again) == enc(out)
            if not rec["idempotent"]:
                rec["again"] = enc(again)
    except Exception as e:
        rec["error"] = "%s: %s | %s" % (type(e).__name__, e, traceback.format_exc()[-300:])
    print(json.dumps(rec))


def main():
    nrandom, seed = int(sys.argv[1]), int(sys.argv[2])
    rnd = random.Random(seed)
    qs = all_shallow()
    for _ in range(nrandom):
        qs.append(build(rnd, rnd.choice([2, 2, 3])))
    ident = lambda q: q
    for q in qs:
        emit("normalize", q, lambda: q.normalize(), {"in_kids": kids_normalized(q)})
    sample = rnd.sample(qs, min(len(qs), 400 + nrandom // 4))
    for q in sample:
        r = rnd.choice(qs)
        emit("op-and", ["and", [enc(q), enc(r)]], lambda: q & r, {"in_kids": kids_normalized(query.And([q, r]))})
        emit("op-or", ["or", [enc(q), enc(r)]], lambda: q | r, {"in_kids": kids_normalized(query.Or([q, r]))})
        # q - r is defined as And([q, Not(r)]).normalize()
        emit("op-sub", ["and", [enc(q), ["not", enc(r)]]], lambda: q - r,
             {"in_kids": kids_normalized(query.And([q, query.Not(r)]))})
        emit("with_boost", q, lambda: q.with_boost(2.0))
        emit("replace-absent", q, lambda: q.replace(F1, "zzz-absent", "yyy"))
        emit("accept-identity", q, lambda: q.accept(ident))
        emit("deepcopy", q, lambda: copy.deepcopy(q))
        emit("pickle", q, lambda: pickle.loads(pickle.dumps(q, 2)))


if __name__ == "__main__":
    main()
