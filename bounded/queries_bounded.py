"""Bounded stand-in (class B): term-expansion and positional queries of the REAL code against brute-force
evaluators over small corpora: Phrase with slop, Prefix, Wildcard, Regex, TermRange (open/closed/unbounded),
Every, NumericRange, FuzzyTerm; matched set through search / docs_for_query / Query.docs, with deletions and
several segments.

usage: queries_bounded.py <ncorpora> <seed> [jobs]     |    queries_bounded.py --corpus '<json>'
"""
import fnmatch
import json
import os
import random
import re
import sys
import tempfile
import traceback

WORDS = ["a", "ab", "abc", "abd", "b", "ba", "bab", "c", "ca", "cab", "cat", "cats", "catalog", "dog", "dogs", "do"]
WORDS = [w + w if len(w) == 1 else w for w in WORDS]      # avoid 1-letter tokens (analyzer minsize)


def osa(a, b):
    """Optimal string alignment (restricted Damerau-Levenshtein) distance, textbook DP."""
    d = [[0] * (len(b) + 1) for _ in range(len(a) + 1)]
    for i in range(len(a) + 1):
        d[i][0] = i
    for j in range(len(b) + 1):
        d[0][j] = j
    for i in range(1, len(a) + 1):
        for j in range(1, len(b) + 1):
            cost = 0 if a[i - 1] == b[j - 1] else 1
            d[i][j] = min(d[i - 1][j] + 1, d[i][j - 1] + 1, d[i - 1][j - 1] + cost)
            if i > 1 and j > 1 and a[i - 1] == b[j - 2] and a[i - 2] == b[j - 1]:
                d[i][j] = min(d[i][j], d[i - 2][j - 2] + 1)
    return d[len(a)][len(b)]


def lev(a, b):
    prev = list(range(len(b) + 1))
    for i in range(1, len(a) + 1):
        cur = [i]
        for j in range(1, len(b) + 1):
            cur.append(min(prev[j] + 1, cur[j - 1] + 1, prev[j - 1] + (a[i - 1] != b[j - 1])))
        prev = cur
    return prev[len(b)]


def gen_corpus(rnd):
    n = rnd.randint(2, 8)
    vocab = rnd.sample(WORDS, rnd.randint(3, 8))
    docs = []
    for i in range(n):
        docs.append({"t": [rnd.choice(vocab) for _ in range(rnd.randint(1, 6))], "n": rnd.choice([-3, -1, 0, 1, 2, 5, 9, 100, 127, -128])})
    cuts = sorted(set(rnd.sample(range(1, n), rnd.choice([0, 0, 1, 2])))) if n > 2 else []
    deleted = sorted(rnd.sample(range(n), rnd.choice([0, 0, 1]))) if n > 2 else []
    return {"docs": docs, "cuts": cuts, "deleted": deleted, "vocab": vocab}


def build(corpus):
    from whoosh import fields
    from whoosh.analysis import SpaceSeparatedTokenizer
    from whoosh.filedb.filestore import RamStorage
    schema = fields.Schema(k=fields.ID(stored=True), t=fields.TEXT(analyzer=SpaceSeparatedTokenizer(), phrase=True),
                           n=fields.NUMERIC(int, 8, signed=True, shift_step=2))
    ix = RamStorage().create_index(schema)
    docs = corpus["docs"]
    start = 0
    for end in corpus["cuts"] + [len(docs)]:
        if end <= start:
            continue
        w = ix.writer()
        for i in range(start, end):
            w.add_document(k=str(i), t=" ".join(docs[i]["t"]), n=docs[i]["n"])
        w.commit(merge=False)
        start = end
    if corpus["deleted"]:
        w = ix.writer()
        for d in corpus["deleted"]:
            w.delete_by_term("k", str(d))
        w.commit(merge=False)
    return ix


def phrase_match(tokens, words, slop):
    def rec(wi, lastpos):
        if wi == len(words):
            return True
        for p, tok in enumerate(tokens):
            if tok == words[wi] and (lastpos is None or 1 <= p - lastpos <= slop):
                if rec(wi + 1, p):
                    return True
        return False
    return rec(0, None)


def gen_queries(rnd, corpus):
    from whoosh import query
    vocab = corpus["vocab"]
    qs = []
    for _ in range(4):
        k = rnd.choice([2, 2, 3])
        words = [rnd.choice(vocab) for _ in range(k)]
        slop = rnd.choice([1, 1, 2, 3])
        qs.append(("phrase %r slop=%d" % (words, slop), query.Phrase("t", words, slop=slop),
                   lambda d, words=words, slop=slop: phrase_match(d["t"], words, slop)))
    for p in set(rnd.choice(vocab)[:rnd.randint(1, 3)] for _ in range(3)):
        qs.append(("prefix %r" % p, query.Prefix("t", p), lambda d, p=p: any(t.startswith(p) for t in d["t"])))
    for pat in rnd.sample(["a*", "?a*", "*b", "ca?", "c*t*", "d?g*", "ab?", "*a*", "[bc]a*"], 3):
        rx = re.compile(fnmatch.translate(pat))
        qs.append(("wildcard %r" % pat, query.Wildcard("t", pat), lambda d, rx=rx: any(rx.match(t) for t in d["t"])))
    for pat in rnd.sample(["cats?", "^cats?", "dogs*", "ab*", "ca.", "c(a|o)t", "do(g|gs)?$", "a+b?", ".*b$", "ba?b?", "cat"], 4):
        rx = re.compile(pat)
        qs.append(("regex %r" % pat, query.Regex("t", pat), lambda d, rx=rx: any(rx.match(t) for t in d["t"])))
    for _ in range(3):
        lo, hi = sorted([rnd.choice(vocab + ["b", "cz"]), rnd.choice(vocab + ["b", "cz"])])
        lo = rnd.choice([lo, lo, None])
        hi = rnd.choice([hi, hi, None])
        sx, ex = rnd.random() < 0.4, rnd.random() < 0.4
        def inr(t, lo=lo, hi=hi, sx=sx, ex=ex):
            if lo is not None and (t < lo or (sx and t == lo)):
                return False
            if hi is not None and (t > hi or (ex and t == hi)):
                return False
            return True
        qs.append(("termrange %r..%r %s%s" % (lo, hi, sx, ex), query.TermRange("t", lo, hi, sx, ex),
                   lambda d, inr=inr: any(inr(t) for t in d["t"])))
    for _ in range(3):
        a, b = sorted([rnd.choice([-128, -5, -3, -1, 0, 1, 2, 9, 100, 127]) for _ in range(2)])
        a = rnd.choice([a, a, None])
        b = rnd.choice([b, b, None])
        sx, ex = rnd.random() < 0.4, rnd.random() < 0.4
        def innum(v, a=a, b=b, sx=sx, ex=ex):
            return (a is None or v > a or (v == a and not sx)) and (b is None or v < b or (v == b and not ex))
        qs.append(("numrange %r..%r %s%s" % (a, b, sx, ex), query.NumericRange("n", a, b, sx, ex), lambda d, f=innum: f(d["n"])))
    qs.append(("every t", query.Every("t"), lambda d: True))
    qs.append(("every", query.Every(), lambda d: True))
    return qs


def check_corpus(corpus, rnd, fails, counts):
    ix = build(corpus)
    docs = corpus["docs"]
    live = [i for i in range(len(docs)) if i not in corpus["deleted"]]
    with ix.searcher() as s:
        k2d = {int(s.stored_fields(dn)["k"]): dn for dn in s.reader().all_doc_ids()}
        for name, q, pred in gen_queries(rnd, corpus):
            counts["queries"] += 1
            kind = name.split()[0]
            try:
                exp = sorted(k2d[i] for i in live if pred(docs[i]))
                got = sorted(h.docnum for h in s.search(q, limit=None))
                got2 = sorted(s.docs_for_query(q))
                got3 = sorted(q.docs(s))
                got4 = len(s.search(q, limit=1))
                for path, g in (("search", got), ("docs_for_query", got2), ("query.docs", got3)):
                    if g != exp:
                        fails.append({"case": "C01-%s/%s" % (path, kind), "detail": "%s: %r expected %r" % (name, g, exp), "corpus": corpus})
                        break
                else:
                    if got4 != len(exp):
                        fails.append({"case": "C01-len/%s" % kind, "detail": "%s: len(limit=1)=%d expected %d" % (name, got4, len(exp)), "corpus": corpus})
            except Exception as e:
                fails.append({"case": "exception/%s" % kind, "detail": "%s: %s: %s | %s" % (name, type(e).__name__, e, traceback.format_exc()[-300:]), "corpus": corpus})
    counts["corpora"] += 1


def run(seeds):
    fails, counts = [], {"corpora": 0, "queries": 0}
    tmp = tempfile.mkdtemp(prefix="qb_")
    os.environ["TMPDIR"] = tmp
    tempfile.tempdir = tmp
    for sd in seeds:
        rnd = random.Random(sd)
        corpus = gen_corpus(rnd)
        corpus["seed"] = sd
        try:
            check_corpus(corpus, rnd, fails, counts)
        except Exception:
            fails.append({"case": "exception/build", "detail": traceback.format_exc()[-600:], "corpus": corpus})
        if len(set(f["case"] for f in fails)) > 12:
            break
    import shutil
    shutil.rmtree(tmp, ignore_errors=True)
    return fails, counts


def main():
    if sys.argv[1] == "--corpus":
        corpus = json.loads(sys.argv[2])
        rnd = random.Random(corpus["seed"])
        gen_corpus(rnd)          # re-consume the same random stream as the original run
        fails, counts = [], {"corpora": 0, "queries": 0}
        check_corpus(corpus, rnd, fails, counts)
        for f in fails:
            print("FAIL", f["case"], "|", f["detail"])
        print("corpus:", corpus)
        sys.exit(1 if fails else 0)
    n, seed = int(sys.argv[1]), int(sys.argv[2])
    jobs = int(sys.argv[3]) if len(sys.argv) > 3 else 8
    seeds = [seed * 100003 + i for i in range(n)]
    import multiprocessing
    with multiprocessing.get_context("fork").Pool(jobs) as pool:
        outs = pool.map(run, [seeds[i::jobs] for i in range(jobs)])
    fails = [f for fs, _ in outs for f in fs]
    seen, uniq = set(), []
    for f in fails:
        if f["case"] not in seen:
            seen.add(f["case"])
            uniq.append(f)
    print(json.dumps({"cases": sum(c["queries"] for _, c in outs), "corpora": sum(c["corpora"] for _, c in outs), "failures": uniq}))


if __name__ == "__main__":
    main()
