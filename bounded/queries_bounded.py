"""Bounded stand-in (class B): term-expansion and positional queries of the REAL code against brute-force
evaluators over small corpora: Phrase with slop, Prefix, Wildcard, Regex, TermRange (open/closed/unbounded),
Every, NumericRange, FuzzyTerm; matched set through search / docs_for_query / Query.docs, with deletions and
several segments.

usage: queries_bounded.py <ncorpora> <seed> [jobs]     |    queries_bounded.py --corpus '<json>'
"""
import fnmatch
import json
import os
import random
import re
import sys
import tempfile
import traceback

WORDS = ["a", "ab", "abc", "abd", "b", "ba", "bab", "c", "ca", "cab", "cat", "cats", "catalog", "dog", "dogs", "do"]
WORDS = [w + w if len(w) == 1 else w for w in WORDS]      # avoid 1-letter tokens (analyzer minsize)


def osa(a, b):
    """Optimal string alignment (restricted Damerau-Levenshtein) distance, textbook DP."""
    d = [[0] * (len(b) + 1) for _ in range(len(a) + 1)]
    for i in range(len(a) + 1):
        d[i][0] = i
    for j in range(len(b) + 1):
        d[0][j] = j
    for i in range(1, len(a) + 1):
        for j in range(1, len(b) + 1):
            cost = 0 if a[i - 1] == b[j - 1] else 1
            d[i][j] = min(d[i - 1][j] + 1, d[i][j - 1] + 1, d[i - 1][j - 1] + cost)
            if i > 1 and j > 1 and a[i - 1] == b[j - 2] and a[i - 2] == b[j - 1]:
                d[i][j] = min(d[i][j], d[i - 2][j - 2] + 1)
    return d[len(a)][len(b)]


def lev(a, b):
    prev = list(range(len(b) + 1))
    for i in range(1, len(a) + 1):
        cur = [i]
        for j in range(1, len(b) + 1):
            cur.append(min(prev[j] + 1, cur[j - 1] + 1, prev[j - 1] + (a[i - 1] != b[j - 1])))
        prev = cur
    return prev[len(b)]


def gen_corpus(rnd):
    n = rnd.randint(2, 8)
    vocab = rnd.sample(WORDS, rnd.randint(3, 8))
    docs = []
    for i in range(n):
        docs.append({"t": [rnd.choice(vocab) for _ in range(rnd.randint(1, 6))], "n": rnd.choice([-3, -1, 0, 1, 2, 5, 9, 100, 127, -128])})
    cuts = sorted(set(rnd.sample(range(1, n), rnd.choice([0, 0, 1, 2])))) if n > 2 else []
    deleted = sorted(rnd.sample(range(n), rnd.choice([0, 0, 1]))) if n > 2 else []
    return {"docs": docs, "cuts": cuts, "deleted": deleted, "vocab": vocab, "blocklimit": rnd.choice([1, 2, 3, 128])}


def build(corpus):
    from whoosh import fields
    from whoosh.analysis import SpaceSeparatedTokenizer
    from whoosh.filedb.filestore import RamStorage
    schema = fields.Schema(k=fields.ID(stored=True, sortable=True), t=fields.TEXT(analyzer=SpaceSeparatedTokenizer(), phrase=True),
                           n=fields.NUMERIC(int, 8, signed=True, shift_step=2), d=fields.DATETIME, c=fields.ID(sortable=True))
    ix = RamStorage().create_index(schema)
    docs = corpus["docs"]
    start = 0
    for end in corpus["cuts"] + [len(docs)]:
        if end <= start:
            continue
        from whoosh.codec.whoosh3 import W3Codec
        # posting blocks of 1-3 entries (per corpus) so that limited searches really skip blocks by quality
        w = ix.writer(codec=W3Codec(blocklimit=corpus.get("blocklimit", 128)))
        for i in range(start, end):
            import datetime
            w.add_document(k=str(i), t=" ".join(docs[i]["t"]), n=docs[i]["n"], c=(docs[i]["t"] or ["none"])[0],
                           d=datetime.datetime(2020, 1, 15, 12, 0, 0) + datetime.timedelta(days=docs[i]["n"]))
        w.commit(merge=False)
        start = end
    if corpus["deleted"]:
        w = ix.writer()
        for d in corpus["deleted"]:
            w.delete_by_term("k", str(d))
        w.commit(merge=False)
    return ix


def phrase_match(tokens, words, slop):
    def rec(wi, lastpos):
        if wi == len(words):
            return True
        for p, tok in enumerate(tokens):
            if tok == words[wi] and (lastpos is None or 1 <= p - lastpos <= slop):
                if rec(wi + 1, p):
                    return True
        return False
    return rec(0, None)


def gen_queries(rnd, corpus):
    from whoosh import query
    vocab = corpus["vocab"]
    qs = []
    for _ in range(4):
        k = rnd.choice([2, 2, 3])
        words = [rnd.choice(vocab) for _ in range(k)]
        slop = rnd.choice([1, 1, 2, 3])
        qs.append(("phrase %r slop=%d" % (words, slop), query.Phrase("t", words, slop=slop),
                   lambda d, words=words, slop=slop: phrase_match(d["t"], words, slop)))
    for p in set(rnd.choice(vocab)[:rnd.randint(1, 3)] for _ in range(3)):
        qs.append(("prefix %r" % p, query.Prefix("t", p), lambda d, p=p: any(t.startswith(p) for t in d["t"])))
    for pat in rnd.sample(["a*", "?a*", "*b", "ca?", "c*t*", "d?g*", "ab?", "*a*", "[bc]a*"], 3):
        rx = re.compile(fnmatch.translate(pat))
        qs.append(("wildcard %r" % pat, query.Wildcard("t", pat), lambda d, rx=rx: any(rx.match(t) for t in d["t"])))
    for pat in rnd.sample(["cats?", "^cats?", "dogs*", "ab*", "ca.", "c(a|o)t", "do(g|gs)?$", "a+b?", ".*b$", "ba?b?", "cat"], 4):
        rx = re.compile(pat)
        qs.append(("regex %r" % pat, query.Regex("t", pat), lambda d, rx=rx: any(rx.match(t) for t in d["t"])))
    for _ in range(3):
        lo, hi = sorted([rnd.choice(vocab + ["b", "cz"]), rnd.choice(vocab + ["b", "cz"])])
        lo = rnd.choice([lo, lo, None])
        hi = rnd.choice([hi, hi, None])
        sx, ex = rnd.random() < 0.4, rnd.random() < 0.4
        def inr(t, lo=lo, hi=hi, sx=sx, ex=ex):
            if lo is not None and (t < lo or (sx and t == lo)):
                return False
            if hi is not None and (t > hi or (ex and t == hi)):
                return False
            return True
        qs.append(("termrange %r..%r %s%s" % (lo, hi, sx, ex), query.TermRange("t", lo, hi, sx, ex),
                   lambda d, inr=inr: any(inr(t) for t in d["t"])))
    for _ in range(3):
        a, b = sorted([rnd.choice([-128, -5, -3, -1, 0, 1, 2, 9, 100, 127]) for _ in range(2)])
        a = rnd.choice([a, a, None])
        b = rnd.choice([b, b, None])
        sx, ex = rnd.random() < 0.4, rnd.random() < 0.4
        def innum(v, a=a, b=b, sx=sx, ex=ex):
            return (a is None or v > a or (v == a and not sx)) and (b is None or v < b or (v == b and not ex))
        qs.append(("numrange %r..%r %s%s" % (a, b, sx, ex), query.NumericRange("n", a, b, sx, ex), lambda d, f=innum: f(d["n"])))
    # date ranges over d = 2020-01-15 + n days (n in -128..127): open / closed / half-open, bounds on and between values
    import datetime
    base = datetime.datetime(2020, 1, 15, 12, 0, 0)
    for _ in range(3):
        nums = [-128, -5, -3, -1, 0, 1, 2, 5, 9, 100, 127]
        a = rnd.choice(nums + [None, -200, 300, 3])
        b = rnd.choice(nums + [None, -200, 300, 4])
        if a is not None and b is not None and a > b:
            a, b = b, a
        sx, ex = rnd.random() < 0.5, rnd.random() < 0.5
        da = None if a is None else base + datetime.timedelta(days=a)
        db = None if b is None else base + datetime.timedelta(days=b)

        def indate(v, a=a, b=b, sx=sx, ex=ex):
            return (a is None or v > a or (v == a and not sx)) and (b is None or v < b or (v == b and not ex))
        qs.append(("daterange %r..%r %s%s" % (a, b, sx, ex), query.DateRange("d", da, db, startexcl=sx, endexcl=ex),
                   lambda d, f=indate: f(d["n"])))
    # span queries over single terms (a term's span is its position): SpanFirst, SpanNot (the excluded term may run out of
    # postings before the kept one, or not exist), SpanOr, SpanCondition, and a span query as a clause of And
    from whoosh.query import spans as sp
    T = lambda w_: query.Term("t", w_)
    for _ in range(2):
        w_, k = rnd.choice(vocab), rnd.choice([0, 1, 2])
        qs.append(("spanfirst %r limit=%d" % (w_, k), sp.SpanFirst(T(w_), limit=k), lambda d, w_=w_, k=k: w_ in d["t"][:k + 1]))
        a_, b_ = rnd.choice(vocab), rnd.choice(vocab + ["zzz"])
        qs.append(("spannot %r %r" % (a_, b_), sp.SpanNot(T(a_), T(b_)), lambda d, a_=a_, b_=b_: a_ in d["t"] and a_ != b_))
        qs.append(("spanor %r %r" % (a_, b_), sp.SpanOr([T(a_), T(b_)]), lambda d, a_=a_, b_=b_: a_ in d["t"] or b_ in d["t"]))
        qs.append(("spancondition %r %r" % (a_, b_), sp.SpanCondition(T(a_), T(b_)), lambda d, a_=a_, b_=b_: a_ in d["t"] and b_ in d["t"]))
        qs.append(("andspan %r %r" % (w_, a_), query.And([sp.SpanFirst(T(w_), limit=k), T(a_)]),
                   lambda d, w_=w_, k=k, a_=a_: w_ in d["t"][:k + 1] and a_ in d["t"]))
    # sequences / ordered / multi-way span-near / span-before / constant score
    def seq_pred(ws, adjacent):
        def pred(d):
            toks = d["t"]

            def rec(wi, last):
                if wi == len(ws):
                    return True
                return any(rec(wi + 1, p_) for p_, tk in enumerate(toks) if tk == ws[wi] and (last is None or (p_ == last + 1 if adjacent else p_ > last)))
            return rec(0, None)
        return pred
    for _ in range(2):
        a_, b_ = rnd.choice(vocab), rnd.choice(vocab)
        qs.append(("sequence %r %r" % (a_, b_), query.Sequence([T(a_), T(b_)]), seq_pred([a_, b_], True)))
        qs.append(("spannear2 %r %r" % (a_, b_), sp.SpanNear2([T(a_), T(b_)], slop=1, ordered=True), seq_pred([a_, b_], True)))
        if a_ != b_:
            qs.append(("spanbefore %r %r" % (a_, b_), sp.SpanBefore(T(a_), T(b_)),
                       lambda d, a_=a_, b_=b_: a_ in d["t"] and b_ in d["t"] and d["t"].index(a_) < d["t"].index(b_)))
        qs.append(("constantscore %r %r" % (a_, b_), query.ConstantScoreQuery(query.Or([T(a_), T(b_)]), 2.0),
                   lambda d, a_=a_, b_=b_: a_ in d["t"] or b_ in d["t"]))
    # a query over a column (the first token of the document, kept in a sortable field): by value and by predicate
    cw = rnd.choice(vocab)
    qs.append(("column == %r" % cw, query.ColumnQuery("c", cw), lambda d, cw=cw: (d["t"] or ["none"])[0] == cw))
    qs.append(("column >= %r" % cw, query.ColumnQuery("c", lambda v, cw=cw: v >= cw), lambda d, cw=cw: (d["t"] or ["none"])[0] >= cw))
    qs.append(("every t", query.Every("t"), lambda d: True))
    qs.append(("every", query.Every(), lambda d: True))
    return qs


def check_corpus(corpus, rnd, fails, counts):
    ix = build(corpus)
    docs = corpus["docs"]
    live = [i for i in range(len(docs)) if i not in corpus["deleted"]]
    with ix.searcher() as s:
        k2d = {int(s.stored_fields(dn)["k"]): dn for dn in s.reader().all_doc_ids()}
        for name, q, pred in gen_queries(rnd, corpus):
            counts["queries"] += 1
            kind = name.split()[0]
            try:
                exp = sorted(k2d[i] for i in live if pred(docs[i]))
                got = sorted(h.docnum for h in s.search(q, limit=None))
                got2 = sorted(s.docs_for_query(q))
                got3 = sorted(q.docs(s))
                got4 = len(s.search(q, limit=1))
                for path, g in (("search", got), ("docs_for_query", got2), ("query.docs", got3)):
                    if g != exp:
                        fails.append({"case": "C01-%s/%s" % (path, kind), "detail": "%s: %r expected %r" % (name, g, exp), "corpus": corpus})
                        break
                else:
                    if got4 != len(exp):
                        fails.append({"case": "C01-len/%s" % kind, "detail": "%s: len(limit=1)=%d expected %d" % (name, got4, len(exp)), "corpus": corpus})
                    # every access path and limit: hits are matching documents, as many as the limit allows, none twice
                    for lim in (1, 2, 3):
                        for path, kw in (("scored", {}), ("unscored", {"scored": False}), ("sorted", {"sortedby": "k"}),
                                         ("terms", {"terms": True})):
                            res = s.search(q, limit=lim, **kw)
                            hits = [h.docnum for h in res]
                            # (the unscored collector hands out more than `limit` hits; the property only fixes WHICH
                            # documents may appear and the count len() reports)
                            if any(d not in exp for d in hits) or len(set(hits)) != len(hits) or len(hits) < min(lim, len(exp)) \
                                    or len(res) != len(exp):
                                fails.append({"case": "C01-limit-%s/%s" % (path, kind), "detail": "%s: search(limit=%d, %s) -> %r but the matching documents are %r"
                                              % (name, lim, path, hits, exp), "corpus": corpus})
                                break
                    # ---- C15: estimate_size() is an upper bound of the match count, for every query kind
                    try:
                        est = q.estimate_size(s.reader())
                        if est < len(exp):
                            fails.append({"case": "C15-estimate/%s" % kind, "detail": "%s: estimate_size() = %r but %d documents match" % (name, est, len(exp)), "corpus": corpus})
                    except Exception as e:
                        fails.append({"case": "C15-estimate/%s" % kind, "detail": "%s: estimate_size() raised %s: %s" % (name, type(e).__name__, e), "corpus": corpus})
                    # ---- C11: the query's own matcher obeys the cursor protocol (span, phrase, multi-term and range
                    # matchers are wrappers the algebraic kinds of matchers-bounded never build)
                    def ids_of(m_, cap=200):
                        out_ = []
                        while m_.is_active() and len(out_) < cap:
                            out_.append(m_.id())
                            m_.next()
                        return out_
                    ctx = s.context()
                    stepped = ids_of(q.matcher(s, ctx))
                    if stepped != exp:
                        fails.append({"case": "C11-step/%s" % kind, "detail": "%s: stepping the matcher gives %r expected %r" % (name, stepped, exp), "corpus": corpus})
                    else:
                        bad11 = None
                        for t in range(0, (exp[-1] if exp else 0) + 2):
                            m = q.matcher(s, ctx)
                            if not m.is_active():
                                break
                            m.skip_to(t)
                            want = [d for d in exp if d >= max(t, exp[0])]
                            rest = ids_of(m)
                            if rest != want:
                                bad11 = ("C11-skip_to", "skip_to(%d) then stepping gives %r expected %r" % (t, rest, want))
                                break
                        for adv in (1, 2):
                            m = q.matcher(s, ctx)
                            n_adv = 0
                            while m.is_active() and n_adv < adv:
                                m.next()
                                n_adv += 1
                            if m.is_active():
                                try:
                                    c = m.copy()
                                except NotImplementedError:
                                    c = None       # on-disk leaf matchers refuse copy(): a refusal is not a wrong copy
                                c_ids = ids_of(c) if c is not None else exp[n_adv:]
                                if m.id() != (exp[n_adv] if n_adv < len(exp) else None) or c_ids != exp[n_adv:]:
                                    bad11 = ("C11-copy", "copy after %d next(): copy gives %r, original at %r, expected %r" % (n_adv, c_ids, m.id(), exp[n_adv:]))
                            try:
                                m.reset()
                                rs = ids_of(m)
                            except NotImplementedError:
                                rs = exp           # ArrayUnionMatcher refuses reset()
                            if rs != exp:
                                bad11 = ("C11-reset", "after %d next() and reset(): %r expected %r" % (n_adv, rs, exp))
                        if bad11:
                            fails.append({"case": "%s/%s" % (bad11[0], kind), "detail": "%s: %s" % (name, bad11[1]), "corpus": corpus})
                    un = sorted(h.docnum for h in s.search(q, limit=None, scored=False))
                    if un != exp:
                        fails.append({"case": "C01-unscored/%s" % kind, "detail": "%s: scored=False -> %r expected %r" % (name, un, exp), "corpus": corpus})
            except Exception as e:
                fails.append({"case": "exception/%s" % kind, "detail": "%s: %s: %s | %s" % (name, type(e).__name__, e, traceback.format_exc()[-300:]), "corpus": corpus})
    counts["corpora"] += 1


def run(seeds):
    fails, counts = [], {"corpora": 0, "queries": 0}
    tmp = tempfile.mkdtemp(prefix="qb_")
    os.environ["TMPDIR"] = tmp
    tempfile.tempdir = tmp
    for sd in seeds:
        rnd = random.Random(sd)
        corpus = gen_corpus(rnd)
        corpus["seed"] = sd
        try:
            check_corpus(corpus, rnd, fails, counts)
        except Exception:
            fails.append({"case": "exception/build", "detail": traceback.format_exc()[-600:], "corpus": corpus})
        if len(set(f["case"] for f in fails)) > 12:
            break
    import shutil
    shutil.rmtree(tmp, ignore_errors=True)
    return fails, counts


def check_big(fails):
    """Deterministic larger corpora for code that only runs at scale: (1) phrase / span-near queries under a limit over
    posting lists of many small blocks (after a quality skip the span condition must be re-checked); (2) an Or of three
    and four terms over more than 2 x 2048 documents (the pre-scored union matcher works in 2048-document windows)."""
    from whoosh import fields, query
    from whoosh.analysis import SpaceSeparatedTokenizer
    from whoosh.codec.whoosh3 import W3Codec
    from whoosh.filedb.filestore import RamStorage
    from whoosh.query import spans
    n = 0
    # ---- (1)
    for blocklimit in (2, 8, 128):
        ix = RamStorage().create_index(fields.Schema(k=fields.ID(stored=True), t=fields.TEXT(analyzer=SpaceSeparatedTokenizer())))
        w = ix.writer(codec=W3Codec(blocklimit=blocklimit))
        docs = []
        for i in range(600):
            if i < 40:
                d = "alpha beta" + " pad" * (40 - i)
            else:
                fill = 30 if (i // (blocklimit if blocklimit > 2 else 7)) % 2 else 3
                d = ("fill " * fill + "alpha beta") if i % 7 == 0 else ("alpha " + "fill " * fill + "beta")
            docs.append(d.split())
            w.add_document(k=str(i), t=d)
        w.commit()
        has_phrase = lambda toks: any(toks[j] == "alpha" and toks[j + 1] == "beta" for j in range(len(toks) - 1))
        exp = sorted(i for i in range(600) if has_phrase(docs[i]))
        with ix.searcher() as s:
            for qname, q in (("phrase", query.Phrase("t", ["alpha", "beta"])),
                             ("spannear", spans.SpanNear(query.Term("t", "alpha"), query.Term("t", "beta"), slop=1))):
                for lim in (1, 3, 10, 30, 50, 60, 100):
                    n += 1
                    hits = [int(h["k"]) for h in s.search(q, limit=lim)]
                    bad = [h for h in hits if h not in exp]
                    if bad or len(hits) != min(lim, len(exp)):
                        fails.append({"case": "C01-big-%s-limit" % qname, "detail": "%s 'alpha beta', posting blocks of %d, limit=%d: hits "
                                      "%r contain documents without the phrase: %r" % (qname, blocklimit, lim, hits[:12], bad), "corpus": None})
                        break
    # ---- (2)
    ix = RamStorage().create_index(fields.Schema(k=fields.ID(stored=True), t=fields.KEYWORD))
    w = ix.writer()
    words = ["apple", "banana", "cherry", "date"]
    has = {}
    for i in range(4300):
        ws = [wd for j, wd in enumerate(words) if (i % (577 + 131 * j) in (3, 7, 11)) or (i > 4250 and (i + j) % 9 == 0)]
        has[i] = set(ws)
        w.add_document(k=str(i), t=" ".join(ws) if ws else "other")
    w.commit()
    with ix.searcher() as s:
        for k in (3, 4):
            n += 1
            q = query.Or([query.Term("t", wd) for wd in words[:k]])
            exp = sorted(i for i in range(4300) if has[i] & set(words[:k]))
            for path, kw in (("scored", {}), ("unscored", {"scored": False}), ("sorted", {"sortedby": "k"})):
                got = sorted(int(h["k"]) for h in s.search(q, limit=None, **kw))
                if got != exp:
                    fails.append({"case": "C01-big-or%d-%s" % (k, path), "detail": "Or of %d terms over 4300 documents (%s): %d hits, expected %d; "
                                  "unexpected %r missing %r" % (k, path, len(got), len(exp), sorted(set(got) - set(exp))[:8],
                                                               sorted(set(exp) - set(got))[:8]), "corpus": None})
    return n


def check_parsed_dates(fails):
    """C13 deterministic family: date ranges written in the query language - every bracket combination, day / second /
    microsecond precision - select exactly the documents inside the interval (an exclusive bound excludes the whole period
    the date string names)."""
    import datetime
    from whoosh import fields
    from whoosh.filedb.filestore import RamStorage
    from whoosh.qparser import QueryParser
    schema = fields.Schema(k=fields.ID(stored=True), d=fields.DATETIME)
    ix = RamStorage().create_index(schema)
    w = ix.writer()
    for i in range(7):
        w.add_document(k=u"%d" % i, d=datetime.datetime(2010, 1, i + 1, 12))
    w.commit()
    with ix.searcher() as s:
        qp = QueryParser("d", schema)
        for lo, hi in ((u"20100102", u"20100105"), (u"20100102120000", u"20100105120000"),
                       (u"20100102120000000000", u"20100105120000000000"), (u"201001", u"201001"), (u"20100103", u"20100103")):
            for lb, sx in ((u"[", False), (u"{", True)):
                for rb, ex in ((u"]", False), (u"}", True)):
                    text = u"d:%s%s TO %s%s" % (lb, lo, hi, rb)

                    def period(sv):
                        fmt = {6: "%Y%m", 8: "%Y%m%d", 14: "%Y%m%d%H%M%S", 20: "%Y%m%d%H%M%S%f"}[len(sv)]
                        a = datetime.datetime.strptime(sv, fmt)
                        if len(sv) == 6:
                            b = datetime.datetime(a.year, a.month + 1, 1) - datetime.timedelta(microseconds=1)
                        elif len(sv) == 8:
                            b = a + datetime.timedelta(days=1, microseconds=-1)
                        elif len(sv) == 14:
                            b = a + datetime.timedelta(seconds=1, microseconds=-1)
                        else:
                            b = a
                        return a, b
                    (la, lb_), (ha, hb) = period(lo), period(hi)
                    exp = []
                    for i in range(7):
                        v = datetime.datetime(2010, 1, i + 1, 12)
                        if (v > lb_ if sx else v >= la) and (v < ha if ex else v <= hb):
                            exp.append(i)
                    try:
                        got = sorted(int(h["k"]) for h in s.search(qp.parse(text), limit=None))
                    except Exception as e:
                        got = "%s: %s" % (type(e).__name__, e)
                    if got != exp:
                        fails.append({"case": "C01-parsed/daterange", "detail": "%s -> %r expected %r" % (text, got, exp), "corpus": None})
                        return


def check_int_domain(fails):
    """C13 deterministic family: values outside the domain of an integer field - out of range or not whole numbers - are
    rejected at indexing time and at query time (Term and range bounds), never wrapped or truncated."""
    from whoosh import fields, query
    from whoosh.filedb.filestore import RamStorage
    for bits, signed, lo, hi in ((8, True, -128, 127), (16, False, 0, 65535), (32, True, -2 ** 31, 2 ** 31 - 1)):
        ix = RamStorage().create_index(fields.Schema(k=fields.ID(stored=True), n=fields.NUMERIC(int, bits, signed=signed)))
        w = ix.writer()
        w.add_document(k=u"0", n=3)
        w.add_document(k=u"1", n=hi)
        w.add_document(k=u"2", n=lo)
        accepted = []
        for badv in (3.7, -0.5, hi + 1, lo - 1, float(hi) + 0.5):
            try:
                w.add_document(k=u"bad", n=badv)
                accepted.append(badv)
            except (ValueError, OverflowError):
                pass
        w.commit()
        if accepted:
            fails.append({"case": "C01-domain/numrange", "detail": "NUMERIC(int, %d, signed=%s) accepted %r at indexing time" % (bits, signed, accepted), "corpus": None})
            return
        vals = {"0": 3, "1": hi, "2": lo}
        with ix.searcher() as s:
            # a query value outside the domain is either rejected or answered with the mathematically exact set - never with
            # the documents of a wrapped or truncated value
            for q, exact in ((query.Term("n", 3.7), lambda v: v == 3.7), (query.NumericRange("n", 1.5, 3.5), lambda v: 1.5 <= v <= 3.5),
                             (query.NumericRange("n", lo - 1, 3), lambda v: lo - 1 <= v <= 3), (query.NumericRange("n", 3, hi + 1), lambda v: 3 <= v <= hi + 1)):
                try:
                    got = sorted(h["k"] for h in s.search(q, limit=None))
                except (ValueError, OverflowError):
                    continue
                exp = sorted(k_ for k_, v in vals.items() if exact(v))
                if got != exp:
                    fails.append({"case": "C01-domain/numrange", "detail": "NUMERIC(int, %d, signed=%s): %r -> %r; the value is outside the field's "
                                  "domain: expected a rejection or the exact answer %r" % (bits, signed, q, got, exp), "corpus": None})
                    return
            # whole-number floats are inside the domain
            got = sorted(h["k"] for h in s.search(query.NumericRange("n", 3.0, float(hi)), limit=None))
            if got != ["0", "1"]:
                fails.append({"case": "C01-domain/numrange", "detail": "NumericRange(n, 3.0, %r) -> %r expected ['0', '1']" % (float(hi), got), "corpus": None})
                return


def check_same_interval_two_fields(fails):
    """C13 deterministic family: the same interval queried, in ONE process and in both orders, on NUMERIC fields that differ
    only in signedness (and on fields of different widths): each answer is the exact set for its own field - nothing
    computed for one field may be reused for another."""
    from whoosh import fields, query
    from whoosh.filedb.filestore import RamStorage
    specs = [("u8", 8, False), ("s8", 8, True), ("u16", 16, False), ("s16", 16, True), ("s32", 32, True), ("u32", 32, False)]
    sch = fields.Schema(k=fields.ID(stored=True), **dict((nm, fields.NUMERIC(int, bits, signed=sg)) for nm, bits, sg in specs))
    ix = RamStorage().create_index(sch)
    vals = [0, 1, 5, 16, 17, 100, 127]
    w = ix.writer()
    for i, v in enumerate(vals):
        if i == 4:
            w.commit(merge=False)
            w = ix.writer()
        w.add_document(k=u"%d" % v, **dict((nm, v) for nm, _, _ in specs))
    w.commit(merge=False)
    intervals = [(0, 16), (1, 100), (5, 5), (17, 127), (0, 127), (16, 17)]
    with ix.searcher() as s:
        for order in (specs, specs[::-1], specs[1::2] + specs[0::2]):
            for lo, hi in intervals:
                for exl, exh in ((False, False), (True, False), (False, True)):
                    exp = sorted(str(v) for v in vals if (lo < v if exl else lo <= v) and (v < hi if exh else v <= hi))
                    for nm, bits, sg in order:
                        got = sorted(h["k"] for h in s.search(query.NumericRange(nm, lo, hi, startexcl=exl, endexcl=exh), limit=None))
                        if got != exp:
                            fails.append({"case": "C01-two-fields/numrange", "detail": "NumericRange(%s, %d, %d, startexcl=%s, endexcl=%s) -> %r expected %r "
                                          "(the same interval was queried on the other fields %r before, in this process)"
                                          % (nm, lo, hi, exl, exh, got, exp, [x[0] for x in order]), "corpus": None})
                            return


def main():
    if sys.argv[1] == "--corpus":
        corpus = json.loads(sys.argv[2])
        rnd = random.Random(corpus["seed"])
        gen_corpus(rnd)          # re-consume the same random stream as the original run
        fails, counts = [], {"corpora": 0, "queries": 0}
        check_corpus(corpus, rnd, fails, counts)
        for f in fails:
            print("FAIL", f["case"], "|", f["detail"])
        print("corpus:", corpus)
        sys.exit(1 if fails else 0)
    n, seed = int(sys.argv[1]), int(sys.argv[2])
    jobs = int(sys.argv[3]) if len(sys.argv) > 3 else 8
    seeds = [seed * 100003 + i for i in range(n)]
    import multiprocessing
    with multiprocessing.get_context("fork").Pool(jobs) as pool:
        outs = pool.map(run, [seeds[i::jobs] for i in range(jobs)])
    fails = [f for fs, _ in outs for f in fs]
    tmp = tempfile.mkdtemp(prefix="qb_")
    os.environ["TMPDIR"] = tmp
    tempfile.tempdir = tmp
    try:
        check_big(fails)
        check_parsed_dates(fails)
        check_int_domain(fails)
        check_same_interval_two_fields(fails)
    except Exception as e:
        fails.append({"case": "exception/big", "detail": "%s: %s | %s" % (type(e).__name__, e, traceback.format_exc()[-400:]), "corpus": None})
    import shutil
    shutil.rmtree(tmp, ignore_errors=True)
    seen, uniq = set(), []
    for f in fails:
        if f["case"] not in seen:
            seen.add(f["case"])
            uniq.append(f)
    print(json.dumps({"cases": sum(c["queries"] for _, c in outs), "corpora": sum(c["corpora"] for _, c in outs), "failures": uniq}))


if __name__ == "__main__":
    main()
