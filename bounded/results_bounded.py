"""Bounded stand-in (class B) for C14: sorting, grouping, collapsing, filtering, paging of the REAL searcher
against list/set models on small corpora (<= 10 docs, 0-2 segment cuts, 0-2 deletions; numeric and text sort
fields with and without a column; a multi-valued keyword field for overlapping facets).

usage: results_bounded.py <ncorpora> <seed> [jobs]  |  results_bounded.py --corpus '<json>'
"""
import json
import os
import random
import sys
import tempfile
import traceback


def gen_corpus(rnd):
    n = rnd.randint(2, 14)
    docs = []
    for i in range(n):
        docs.append({"num": rnd.choice([1, 2, 2, 3, 5, -4]), "txt": rnd.choice(["alfa", "bravo", "bravo", "charlie", "delta"]),
                     "tags": sorted(set(rnd.choice(["red", "green", "blue"]) for _ in range(rnd.randint(1, 2)))),
                     "tf": rnd.choice([1, 1, 2, 3]), "hit": rnd.random() < 0.8})
    cuts = sorted(set(rnd.sample(range(1, n), rnd.choice([0, 0, 1, 2])))) if n > 2 else []
    deleted = sorted(rnd.sample(range(n), rnd.choice([0, 0, 1, 2]))) if n > 3 else []
    sortable = rnd.random() < 0.6
    # sometimes one whole segment has no value at all for the numeric field (no column file in that segment)
    nonum = None
    if sortable and cuts and rnd.random() < 0.5:
        bounds = [0] + cuts + [n]
        k = rnd.randrange(len(bounds) - 1)
        nonum = [bounds[k], bounds[k + 1]]
    return {"docs": docs, "cuts": cuts, "deleted": deleted, "sortable": sortable, "nonum": nonum}


def build(corpus):
    from whoosh import fields
    from whoosh.filedb.filestore import RamStorage
    so = corpus["sortable"]
    schema = fields.Schema(k=fields.ID(stored=True), body=fields.TEXT, num=fields.NUMERIC(int, 32, sortable=so, stored=True),
                           txt=fields.ID(sortable=so, stored=True), tags=fields.KEYWORD(stored=True))
    ix = RamStorage().create_index(schema)
    docs = corpus["docs"]
    start = 0
    for end in corpus["cuts"] + [len(docs)]:
        if end <= start:
            continue
        w = ix.writer()
        for i in range(start, end):
            d = docs[i]
            kw = {}
            nn = corpus.get("nonum")
            if not (nn and nn[0] <= i < nn[1]):
                kw["num"] = d["num"]
            w.add_document(k=str(i), body=("zz " + "aa " * d["tf"]) if d["hit"] else "zz", txt=d["txt"],
                           tags=" ".join(d["tags"]), **kw)
        w.commit(merge=False)
        start = end
    if corpus["deleted"]:
        w = ix.writer()
        for x in corpus["deleted"]:
            w.delete_by_term("k", str(x))
        w.commit(merge=False)
    return ix


def check_corpus(corpus, fails, counts):
    from whoosh import query, scoring, sorting
    ix = build(corpus)
    docs = corpus["docs"]
    live = [i for i in range(len(docs)) if i not in corpus["deleted"]]

    def fail(case, detail):
        if not any(f["case"] == case for f in fails):
            fails.append({"case": case, "detail": detail[:500], "corpus": corpus})
    with ix.searcher(weighting=scoring.Frequency()) as s:
        k2d = {int(s.stored_fields(dn)["k"]): dn for dn in s.reader().all_doc_ids()}
        d2k = dict((v, k) for k, v in k2d.items())
        q = query.Term("body", "aa")
        hits = [i for i in live if docs[i]["hit"]]
        ranked = sorted(hits, key=lambda i: (-docs[i]["tf"], k2d[i]))
        counts["queries"] += 1

        def ks(res):
            return [d2k[h.docnum] for h in res]
        try:
            # ---- sorting (a document without a value sorts with the column default: the largest 32-bit value)
            nn = corpus.get("nonum")
            dflt = s.schema["num"].from_column_value(s.schema["num"].default)
            numkey = lambda i: dflt if (nn and nn[0] <= i < nn[1]) else docs[i]["num"]
            for fld, keyf in (("num", numkey), ("txt", lambda i: docs[i]["txt"])):
                for rev in (False, True):
                    exp = sorted(hits, key=lambda i: k2d[i])
                    exp = sorted(exp, key=keyf, reverse=rev)           # stable: document order on ties
                    got = ks(s.search(q, limit=None, sortedby=fld, reverse=rev))
                    if got != exp:
                        fail("C14-sort-%s%s" % (fld, "-reverse" if rev else ""), "sortedby=%s reverse=%s -> %r expected %r" % (fld, rev, got, exp))
                    got3 = ks(s.search(q, limit=3, sortedby=fld, reverse=rev))
                    if got3 != exp[:3]:
                        fail("C14-sort-limit-%s%s" % (fld, "-reverse" if rev else ""), "limit=3 sortedby=%s reverse=%s -> %r expected %r" % (fld, rev, got3, exp[:3]))
                    got = ks(s.search(q, limit=None, sortedby=sorting.FieldFacet(fld, reverse=rev)))
                    if got != exp:
                        fail("C14-sort-facet-%s%s" % (fld, "-reverse" if rev else ""), "FieldFacet(%s, reverse=%s) -> %r expected %r" % (fld, rev, got, exp))
            mf = sorting.MultiFacet([sorting.FieldFacet("txt"), sorting.FieldFacet("num", reverse=True)])
            exp = sorted(sorted(sorted(hits, key=lambda i: k2d[i]), key=lambda i: -numkey(i)), key=lambda i: docs[i]["txt"])
            got = ks(s.search(q, limit=None, sortedby=mf))
            if got != exp:
                fail("C14-sort-multi", "MultiFacet(txt, num desc) -> %r expected %r" % (got, exp))
            # ---- grouping
            r = s.search(q, limit=None, groupedby="txt")
            g = dict((k, sorted(d2k[d] for d in v)) for k, v in r.groups("txt").items())
            expg = {}
            for i in hits:
                expg.setdefault(docs[i]["txt"], []).append(i)
            expg = dict((k, sorted(v)) for k, v in expg.items())
            if g != expg:
                fail("C14-group", "groups(txt) = %r expected %r" % (g, expg))
            r = s.search(q, limit=None, groupedby=sorting.FieldFacet("tags", allow_overlap=True))
            g = dict((k, sorted(d2k[d] for d in v)) for k, v in r.groups().items())
            expg = {}
            for i in hits:
                for t in docs[i]["tags"]:
                    expg.setdefault(t, []).append(i)
            expg = dict((k, sorted(v)) for k, v in expg.items())
            if g != expg:
                fail("C14-group-overlap", "groups(tags, overlap) = %r expected %r" % (g, expg))
            # range facets: buckets [start + k*gap, start + (k+1)*gap) while the bucket start is below `end`; a value outside
            # every bucket groups under None (incl. a value equal to an `end` that lies on a bucket boundary); query facets
            if not nn:
                for (st, en, gap, hard) in ((0, 6, 2, False), (1, 5, 2, False), (-4, 5, 3, True), (2, 3, 1, False), (0, 5, 5, False)):
                    import signal

                    def _alarm(signum, frame):
                        raise RuntimeError("did not terminate within 20 s")
                    signal.signal(signal.SIGALRM, _alarm)
                    signal.alarm(20)
                    try:
                        rf = sorting.RangeFacet("num", st, en, gap, hardend=hard)
                        r = s.search(q, limit=None, groupedby={"rng": rf})
                    except RuntimeError as e:
                        fail("C14-group-range", "RangeFacet(num, %d, %d, %d, hardend=%s): %s" % (st, en, gap, hard, e))
                        break
                    finally:
                        signal.alarm(0)
                    g = dict((k, sorted(d2k[d] for d in v)) for k, v in r.groups("rng").items())
                    buckets = []
                    c = st
                    while c < en:
                        e = min(en, c + gap) if hard else c + gap
                        buckets.append((c, e))
                        c = e
                    expg = {}
                    for i in hits:
                        v = docs[i]["num"]
                        key = next((b for b in buckets if b[0] <= v < b[1]), None)
                        expg.setdefault(key, []).append(i)
                    expg = dict((k, sorted(v)) for k, v in expg.items())
                    if g != expg:
                        fail("C14-group-range", "RangeFacet(num, %d, %d, %d, hardend=%s) groups %r expected %r" % (st, en, gap, hard, g, expg))
                        break
                qf = sorting.QueryFacet({"low": query.NumericRange("num", None, 2), "bravo": query.Term("txt", "bravo")})
                r = s.search(q, limit=None, groupedby={"qf": qf})
                g = dict((k, sorted(d2k[d] for d in v)) for k, v in r.groups("qf").items())
                expg = {}
                for i in hits:
                    ks_ = [name for name, ok in (("low", docs[i]["num"] <= 2), ("bravo", docs[i]["txt"] == "bravo")) if ok]
                    # (non-overlapping: the first matching query in the facet's own order decides)
                    expg.setdefault("__any__" if ks_ else None, []).append(i)
                got_any = sorted(sum((v for k, v in g.items() if k is not None), []))
                if sorted(expg.get("__any__", [])) != got_any or sorted(expg.get(None, [])) != sorted(g.get(None, [])):
                    fail("C14-group-query", "QueryFacet groups %r: documents in some group %r expected %r, in None %r expected %r"
                         % (g, got_any, sorted(expg.get("__any__", [])), sorted(g.get(None, [])), sorted(expg.get(None, []))))
            r = s.search(q, limit=2, groupedby="num")
            g = dict((k, sorted(d2k[d] for d in v)) for k, v in r.groups("num").items())
            expg = {}
            for i in hits:
                expg.setdefault(numkey(i), []).append(i)
            expg = dict((k, sorted(v)) for k, v in expg.items())
            if g != expg:
                fail("C14-group-limit", "groups(num) under limit=2 = %r expected %r" % (g, expg))
            # ---- collapse
            for lim in (1, 2):
                r = s.search(q, limit=None, collapse="txt", collapse_limit=lim)
                exp, cnt = [], {}
                for i in ranked:
                    key = docs[i]["txt"]
                    if cnt.get(key, 0) < lim:
                        exp.append(i)
                        cnt[key] = cnt.get(key, 0) + 1
                if ks(r) != exp:
                    fail("C14-collapse-%d" % lim, "collapse=txt limit=%d -> %r expected %r" % (lim, ks(r), exp))
            # ---- collapse under a limit (TopCollector.remove), with and without block-quality pruning: the admission
            # threshold must be reset while the heap has room again (fixed in /repo, see known_findings.json)
            for lim, k, opt in ((1, 3, False), (1, 6, False), (2, 6, False), (1, 3, True), (1, 2, True), (2, 3, True), (2, 6, True)):
                r = s.search(q, limit=k, collapse="txt", collapse_limit=lim, optimize=opt)
                exp, cnt = [], {}
                for i in ranked:
                    key = docs[i]["txt"]
                    if cnt.get(key, 0) < lim:
                        exp.append(i)
                        cnt[key] = cnt.get(key, 0) + 1
                if ks(r) != exp[:k]:
                    fail("C14-collapse-limit", "collapse=txt collapse_limit=%d limit=%d optimize=%s -> %r expected %r" % (lim, k, opt, ks(r), exp[:k]))
            # ---- filter / mask
            fq = query.Term("tags", "red")
            red = set(i for i in live if "red" in docs[i]["tags"])
            r = s.search(q, limit=None, filter=fq)
            if ks(r) != [i for i in ranked if i in red]:
                fail("C14-filter", "filter=tags:red -> %r expected %r" % (ks(r), [i for i in ranked if i in red]))
            r = s.search(q, limit=None, mask=fq)
            if ks(r) != [i for i in ranked if i not in red]:
                fail("C14-mask", "mask=tags:red -> %r expected %r" % (ks(r), [i for i in ranked if i not in red]))
            r = s.search(q, limit=2, filter=fq)
            if ks(r) != [i for i in ranked if i in red][:2] or len(r) != len([i for i in ranked if i in red]):
                fail("C14-filter-limit", "filter limit=2 -> %r len %d expected %r len %d" % (ks(r), len(r), [i for i in ranked if i in red][:2], len([i for i in ranked if i in red])))
            # filter and mask given as query / Results / id set, under limits: hits, len() and docs() must all describe
            # (matches n filter) - mask
            green = set(i for i in live if "green" in docs[i]["tags"])
            gq = query.Term("tags", "green")
            k2d = dict((v, k_) for k_, v in d2k.items())
            for form in ("query", "results", "set"):
                def as_form(qq, keyset):
                    if form == "query":
                        return qq
                    if form == "results":
                        return s.search(qq, limit=None)
                    return set(k2d[i] for i in keyset)
                for lim in (1, 2, None):
                    for use_f, use_m in ((False, True), (True, True), (True, False)):
                        kw = {}
                        exp = list(ranked)
                        if use_f:
                            kw["filter"] = as_form(fq, red)
                            exp = [i for i in exp if i in red]
                        if use_m:
                            kw["mask"] = as_form(gq, green)
                            exp = [i for i in exp if i not in green]
                        r = s.search(q, limit=lim, **kw)
                        want = exp if lim is None else exp[:lim]
                        got_docs = sorted(d2k[d] for d in r.docs())
                        if ks(r) != want or len(r) != len(exp) or got_docs != sorted(exp):
                            fail("C14-filter-mask-%s" % form, "filter=%s mask=%s as %s limit=%r -> hits %r len %d docs %r expected %r / %d / %r"
                                 % (use_f, use_m, form, lim, ks(r), len(r), got_docs, want, len(exp), sorted(exp)))
            noneq = query.Term("tags", "purple")
            r = s.search(q, limit=None, filter=noneq)
            if ks(r) != []:
                fail("C14-filter-empty", "filter matching nothing -> %r expected []" % (ks(r),))
            r = s.search(q, limit=None, mask=noneq)
            if ks(r) != ranked:
                fail("C14-mask-empty", "mask matching nothing -> %r expected %r" % (ks(r), ranked))
            # ---- paging / len
            for pl in (1, 2, 3):
                pc = (len(ranked) + pl - 1) // pl
                for pn in range(1, pc + 2):
                    pg = s.search_page(q, pn, pagelen=pl)
                    epn = max(1, min(pn, pc))
                    exp = ranked[(epn - 1) * pl:(epn - 1) * pl + pl]
                    if [d2k[h.docnum] for h in pg] != exp or pg.pagecount != pc or len(pg) != len(ranked):
                        fail("C14-page", "page %d of pagelen %d -> %r pagecount %d expected %r / %d" % (pn, pl, [d2k[h.docnum] for h in pg], pg.pagecount, exp, pc))
            for lim in (1, 2, 5):
                r = s.search(q, limit=lim)
                if len(r) != len(ranked) or ks(r) != ranked[:lim]:
                    fail("C14-len", "limit=%d len=%d hits %r expected len %d %r" % (lim, len(r), ks(r), len(ranked), ranked[:lim]))
        except Exception as e:
            fail("exception", "%s: %s | %s" % (type(e).__name__, e, traceback.format_exc()[-400:]))
    counts["corpora"] += 1


def run(seeds):
    fails, counts = [], {"corpora": 0, "queries": 0}
    tmp = tempfile.mkdtemp(prefix="rb_")
    os.environ["TMPDIR"] = tmp
    tempfile.tempdir = tmp
    for sd in seeds:
        rnd = random.Random(sd)
        corpus = gen_corpus(rnd)
        try:
            check_corpus(corpus, fails, counts)
        except Exception:
            fails.append({"case": "exception/build", "detail": traceback.format_exc()[-600:], "corpus": corpus})
    import shutil
    shutil.rmtree(tmp, ignore_errors=True)
    return fails, counts


def check_collapse_order(fails):
    """C14 deterministic family: collapse in a custom order (keep the `collapse_limit` documents with the smallest `n` per
    key) combined with a limit and score pruning over two segments, on corpora where the top-N heap never has to bring back
    a document it evicted (that is the recorded finding c14_collapse_order_forgets): limited == prefix of unlimited, and the
    unlimited result == the model."""
    from whoosh import fields, query, scoring
    from whoosh.filedb.filestore import RamStorage
    cases = [([("z", 3, 3), ("y", 3, 3), ("x", 0, 2), ("z", 5, 4), ("x", 3, 1), ("z", 4, 2), ("z", 4, 3), ("z", 4, 1), ("x", 5, 2), ("z", 2, 3)], 5, 2, 3),
             ([("a", 1, 1), ("a", 0, 5), ("b", 2, 4), ("a", 3, 6), ("b", 1, 1), ("b", 0, 2)], 3, 1, 2)]
    for docs, cut, cl, lim in cases:
        ix = RamStorage().create_index(fields.Schema(k=fields.ID(stored=True), g=fields.ID(sortable=True), n=fields.NUMERIC(sortable=True), t=fields.TEXT))
        w = ix.writer()
        for i, (g, n, tf) in enumerate(docs):
            if i == cut:
                w.commit(merge=False)
                w = ix.writer()
            w.add_document(k=u"%d" % i, g=u"%s" % g, n=n, t=u" ".join([u"aa"] * tf))
        w.commit(merge=False)
        keep = []
        for gv in sorted(set(d[0] for d in docs)):
            keep += [i for _, i in sorted((d[1], i) for i, d in enumerate(docs) if d[0] == gv)[:cl]]
        exp = sorted(keep, key=lambda i: (-docs[i][2], i))
        with ix.searcher(weighting=scoring.Frequency()) as s:
            q = query.Term("t", u"aa")
            for opt in (True, False):
                full = [int(h["k"]) for h in s.search(q, limit=None, collapse="g", collapse_limit=cl, collapse_order="n", optimize=opt)]
                got = [int(h["k"]) for h in s.search(q, limit=lim, collapse="g", collapse_limit=cl, collapse_order="n", optimize=opt)]
                if full != exp or got != exp[:lim]:
                    fails.append({"case": "C14-collapse-order-pruning", "detail": "docs (key, n, tf) %r cut at %d, collapse_limit=%d collapse_order=n "
                                  "optimize=%s: unlimited %r, limit=%d %r; expected %r" % (docs, cut, cl, opt, full, lim, got, exp), "corpus": None})
                    return


def main():
    if sys.argv[1] == "--deterministic":
        fails = []
        check_collapse_order(fails)
        for f in fails:
            print("FAIL", f["case"], "|", f["detail"])
        sys.exit(1 if fails else 0)
    if sys.argv[1] == "--corpus":
        corpus = json.loads(sys.argv[2])
        fails, counts = [], {"corpora": 0, "queries": 0}
        check_corpus(corpus, fails, counts)
        for f in fails:
            print("FAIL", f["case"], "|", f["detail"])
        print("corpus:", corpus)
        sys.exit(1 if fails else 0)
    n, seed = int(sys.argv[1]), int(sys.argv[2])
    jobs = int(sys.argv[3]) if len(sys.argv) > 3 else 8
    seeds = [seed * 100003 + i for i in range(n)]
    import multiprocessing
    with multiprocessing.get_context("fork").Pool(jobs) as pool:
        outs = pool.map(run, [seeds[i::jobs] for i in range(jobs)])
    fails = [f for fs, _ in outs for f in fs]
    try:
        check_collapse_order(fails)
    except Exception:
        fails.append({"case": "exception/collapse-order", "detail": traceback.format_exc()[-600:], "corpus": None})
    seen, uniq = set(), []
    for f in fails:
        if f["case"] not in seen:
            seen.add(f["case"])
            uniq.append(f)
    print(json.dumps({"cases": sum(c["corpora"] for _, c in outs) * 40, "corpora": sum(c["corpora"] for _, c in outs), "failures": uniq}))


if __name__ == "__main__":
    main()
