"""Bounded stand-in (class B) for the rewrites of C15 other than normalize(): the `&`, `|`, `-` operators, with_boost(),
replace() of an absent term, apply()/accept() with the identity, copy, deepcopy and pickling must give a query that
matches exactly the same documents as the original - evaluated ON DATA (random corpora), for random query trees over
the public query types built with NON-default parameters (Or minmatch, Sequence slop/ordered, DisjunctionMax tiebreak,
boosts, span queries, nested queries ...).  normalize() is checked here too, on data, for the types the SMT shape check
does not model.

usage: rewrites_bounded.py <n> <seed>
"""
import copy
import json
import pickle
import random
import sys
import tempfile
import os
import traceback

fails = []
counts = {"cases": 0}
WORDS = ["aa", "bb", "cc", "dd"]


def fail(case, detail):
    if not any(f["case"] == case for f in fails):
        fails.append({"case": case, "detail": detail[:800]})


def gen_leaf(rnd, in_and=False):
    from whoosh import query
    k = rnd.randrange(9)
    w = rnd.choice(WORDS)
    if k <= 2:
        return query.Term("f", w, boost=rnd.choice([1.0, 2.0]))
    if k == 3:
        return query.Prefix("f", w[0])
    if k in (4, 5) and in_and:
        # (two ranges on one field under And merge to the CONTAINING range: known finding C15/A4, shape check)
        return query.Term("f", w)
    if k == 4:
        # (ranges over the single-valued key field: merging overlapping ranges of a multi-valued field under And is the
        # known finding C15/A1, covered by the shape check)
        return query.TermRange("g", rnd.choice(["aa", "bb"]), rnd.choice(["cc", "dd"]), startexcl=rnd.random() < 0.3)
    if k == 5:
        return query.NumericRange("n", rnd.randint(0, 3), rnd.randint(3, 6), endexcl=rnd.random() < 0.3)
    if k == 6:
        return query.Phrase("f", [rnd.choice(WORDS), rnd.choice(WORDS)], slop=rnd.choice([1, 2, 3]))
    if k == 7:
        return query.FuzzyTerm("f", w, maxdist=1, prefixlength=rnd.choice([0, 1]))
    if rnd.random() < 0.5:
        # (a fielded Every inside And absorbs same-field siblings on normalize: known finding C15/A3, shape check)
        return query.Every() if in_and else query.Every("f")
    return query.Wildcard("f", w[0] + "*")


def gen(rnd, depth, in_and=False):
    from whoosh import query
    from whoosh.query import spans
    if depth == 0 or rnd.random() < 0.25:
        return gen_leaf(rnd, in_and)
    k = rnd.randrange(14)
    sub = lambda: gen(rnd, depth - 1, in_and or k in (0, 3, 4, 5))
    term = lambda: query.Term("f", rnd.choice(WORDS))
    if k == 0:
        return query.And([sub() for _ in range(rnd.randint(2, 3))], boost=rnd.choice([1.0, 2.0]))
    if k == 1:
        n = rnd.randint(2, 4)
        return query.Or([sub() for _ in range(n)], minmatch=rnd.choice([0, 0, 2, min(3, n)]), scale=rnd.choice([None, 0.5]))
    if k == 2:
        return query.Not(sub(), boost=rnd.choice([1.0, 2.0]))
    if k == 3:
        return query.AndNot(sub(), sub())
    if k == 4:
        return query.AndMaybe(sub(), sub())
    if k == 5:
        return query.Require(sub(), sub())
    if k == 6:
        return query.DisjunctionMax([sub(), sub()], tiebreak=rnd.choice([0.0, 0.3]))
    if k == 7:
        return query.Sequence([term(), term()], slop=rnd.choice([1, 2, 4]), ordered=rnd.random() < 0.5)
    if k == 8:
        return query.Ordered([term(), term()])
    if k == 9:
        return spans.SpanNear(term(), term(), slop=rnd.choice([1, 2, 3]), ordered=rnd.random() < 0.5)
    if k == 10:
        return spans.SpanNear2([term(), term(), term()][:rnd.randint(2, 3)], slop=rnd.choice([1, 2, 3]), ordered=rnd.random() < 0.5)
    if k == 11:
        return spans.SpanFirst(term(), limit=rnd.choice([0, 1, 2]))
    if k == 12:
        return spans.SpanNot(term(), term())
    return query.ConstantScoreQuery(sub(), score=2.0)


def docs_of(s, q):
    return sorted(s.stored_fields(dn)["k"] for dn in q.docs(s))


def check_batch4(ops):
    """Deterministic families (fourth batch of seeded changes).
    Wildcards: every pattern of length <= 4 over {a, b, ?, *} on a lexicon of short words: the rewrites (normalize may
    turn a pattern into a Prefix / Term / Every) match the same documents as the original pattern.
    Nested queries: compounds whose clauses are NestedParent / NestedChildren queries with the SAME child query but
    DIFFERENT parent selectors (equal-looking clauses that must not be merged) under every rewrite."""
    import itertools
    from whoosh import fields, query
    from whoosh.filedb.filestore import RamStorage
    ix = RamStorage().create_index(fields.Schema(k=fields.ID(stored=True), g=fields.ID))
    lex = ["", "a", "b", "ab", "ba", "aa", "abb", "aba", "abab", "abba", "bab", "abaa", "aab", "abc", "ab*", "a?"]
    w = ix.writer()
    for i, t in enumerate(lex):
        if i == 7:
            w.commit(merge=False)
            w = ix.writer()
        if t:
            w.add_document(k=u"%d" % i, g=t)
        else:
            w.add_document(k=u"%d" % i)
    w.commit(merge=False)
    with ix.searcher() as s:
        pats = set()
        for n in range(1, 5):
            for tup in itertools.product("ab?*", repeat=n):
                pats.add("".join(tup))
        for pat in sorted(pats):
            q = query.Wildcard("g", pat)
            base = docs_of(s, q)
            for name, op in ops:
                counts["cases"] += 1
                try:
                    r = op(q)
                    got = docs_of(s, r)
                except Exception as e:
                    fail("C15-wildcard-%s-exception" % name, "%s of %r raised %s: %s" % (name, q, type(e).__name__, e))
                    continue
                if got != base:
                    fail("C15-wildcard-%s" % name, "%r matches documents %r but its %s %r matches %r (lexicon %r)" % (q, base, name, r, got, lex))
    # nested
    ix = RamStorage().create_index(fields.Schema(k=fields.ID(stored=True), kind=fields.ID, f=fields.TEXT))
    w = ix.writer()
    n = 0
    for gi in range(5):
        w.start_group()
        for kind, text in (("book", "alfa kilo" if gi % 2 else "alfa"), ("chapter", "kilo" if gi % 3 == 0 else "lima"),
                           ("page", "kilo lima"), ("chapter", "mike kilo" if gi == 1 else "mike"), ("page", "november")):
            w.add_document(k=u"%d" % n, kind=kind, f=text)
            n += 1
        w.end_group()
        if gi == 2:
            w.commit(merge=False)
            w = ix.writer()
    w.commit(merge=False)
    books, chapters = query.Term("kind", u"book"), query.Term("kind", u"chapter")
    kilo, lima = query.Term("f", u"kilo"), query.Term("f", u"lima")
    mk = [lambda: query.Or([query.NestedParent(books, kilo), query.NestedParent(chapters, kilo)]),
          lambda: query.DisjunctionMax([query.NestedParent(books, kilo), query.NestedParent(chapters, kilo)]),
          lambda: query.Or([query.NestedChildren(books, kilo), query.NestedChildren(chapters, kilo)]),
          lambda: query.And([query.NestedParent(books, kilo), query.Not(query.NestedParent(chapters, kilo))]),
          lambda: query.Or([query.NestedParent(books, kilo), query.NestedParent(books, lima), query.NestedParent(chapters, lima)]),
          lambda: query.NestedParent(books, kilo) | query.NestedParent(chapters, kilo)]
    with ix.searcher() as s:
        for m in mk:
            q = m()
            base = docs_of(s, m())
            for name, op in ops:
                counts["cases"] += 1
                try:
                    r = op(q)
                    got = docs_of(s, r)
                except Exception as e:
                    fail("C15-nested-%s-exception" % name, "%s of %r raised %s: %s" % (name, q, type(e).__name__, e))
                    continue
                if got != base:
                    fail("C15-nested-%s" % name, "%r matches documents %r but its %s %r matches %r" % (q, base, name, r, got))


def main():
    n, seed = int(sys.argv[1]), int(sys.argv[2])
    tmp = tempfile.mkdtemp(prefix="rw_")
    os.environ["TMPDIR"] = tmp
    tempfile.tempdir = tmp
    from whoosh import fields, query
    from whoosh.filedb.filestore import RamStorage
    rnd = random.Random(seed)
    # corpora
    searchers = []
    for c in range(4):
        ix = RamStorage().create_index(fields.Schema(k=fields.ID(stored=True), f=fields.TEXT(stored=True), n=fields.NUMERIC(stored=True), g=fields.ID))
        w = ix.writer()
        nd = rnd.randint(4, 9)
        for i in range(nd):
            if i == nd // 2 and c % 2:
                w.commit(merge=False)
                w = ix.writer()
            w.add_document(k=u"%d" % i, f=u" ".join(rnd.choice(WORDS) for _ in range(rnd.randint(1, 6))), n=rnd.randint(0, 6),
                           g=rnd.choice(["aa", "ab", "bb", "bc", "cc", "cd", "dd", "de"]))
        w.commit(merge=False)
        searchers.append(ix.searcher())
    ident = lambda q: q
    ops = [("accept-identity", lambda q: q.accept(ident)),
           ("apply-identity", lambda q: q.apply(ident)),
           ("replace-absent", lambda q: q.replace("f", "zz-absent", "yy")),
           # a term of ANOTHER field with a text that does occur in the query is absent too
           ("replace-other-field", lambda q: q.replace("nofield", "aa", "dd").replace("g", "bb", "cc").replace("n", "aa", "bb")),
           ("with_boost", lambda q: q.with_boost(2.5)),
           ("copy", lambda q: copy.copy(q)),
           ("deepcopy", lambda q: copy.deepcopy(q)),
           ("pickle", lambda q: pickle.loads(pickle.dumps(q, 2))),
           ("normalize", lambda q: q.normalize()),
           ("normalize-twice", lambda q: q.normalize().normalize())]
    for it in range(n):
        q = gen(rnd, 2)
        qa = gen(rnd, 2, in_and=True)      # operands of & and -
        q2b = gen(rnd, 1, in_and=True)
        try:
            base = [docs_of(s, q) for s in searchers]
        except Exception as e:
            # a query the library cannot run at all is not a rewrite problem (e.g. span queries over non-positional leaves)
            continue
        for name, op in ops:
            counts["cases"] += 1
            try:
                r = op(q)
                got = [docs_of(s, r) for s in searchers]
            except Exception as e:
                fail("C15-%s-exception" % name, "%s of %r raised %s: %s" % (name, q, type(e).__name__, e))
                continue
            if got != base:
                k = [i for i in range(len(base)) if got[i] != base[i]][0]
                fail("C15-%s" % name, "%r matches %r but its %s %r matches %r (corpus %d)" % (q, base[k], name, r, got[k], k))
        # binary operators against the explicit constructors
        for name, mk_op, mk_explicit in (("and-operator", lambda: qa & q2b, lambda: query.And([qa, q2b])),
                                         ("or-operator", lambda: q | q2b, lambda: query.Or([q, q2b])),
                                         ("sub-operator", lambda: qa - q2b, lambda: query.And([qa, query.Not(q2b)]))):
            try:
                b = mk_explicit()
                db = [docs_of(s, b) for s in searchers]
                for operand in ((q if name == "or-operator" else qa), q2b):
                    [docs_of(s, operand) for s in searchers]
            except Exception:
                continue        # the combination or an operand is not runnable by itself (not a rewrite question)
            counts["cases"] += 1
            try:
                a = mk_op()
                da = [docs_of(s, a) for s in searchers]
            except Exception as e:
                fail("C15-%s-exception" % name, "%s: %s | %r , %r , %r" % (type(e).__name__, e, q, qa, q2b))
                continue
            if da != db:
                fail("C15-%s" % name, "%r via the operator matches %r, the explicit form %r matches %r" % (a, da, b, db))
    try:
        check_batch4(ops)
    except Exception:
        import traceback
        fail("exception/batch4", traceback.format_exc()[-600:])
    for s in searchers:
        s.close()
    import shutil
    shutil.rmtree(tmp, ignore_errors=True)
    print(json.dumps({"cases": counts["cases"], "failures": fails}))


if __name__ == "__main__":
    main()
