"""Bounded stand-in (class B) for C20: the REAL doc-id sets, hash files, ordered files, number codecs, external
sort and compound files against Python set/dict/list models.

  idsets    EXHAUSTIVE: every subset of UNIVERSE (11 ids straddling byte boundaries) x every query argument in
            0..26, every add/discard argument, invert sizes, and all ordered pairs of a 48-set sample for the binary
            operations; classes BitSet, SortedIntSet, OnDiskBitSet, ReverseIdSet, RoaringIdSet, MultiIdSet
  tables    random + adversarial byte-key maps (empty key, long keys, duplicate keys, forced hash collisions via many
            keys) written with HashWriter/OrderedHashWriter and read back; closest_key for every probe around every key
  codecs    varint / signed varint (through StructFile) over 0..2^14, every power of two +-1 up to 2^70;
            delta lists; GrowableArray at every typecode threshold; base85
  sort      SortingPool / sort with run sizes forcing 1..many runs
  compound  CompoundWriter sub-streams with uneven write sizes crossing the buffer several times, read back through
            save_as_compound (mmap on/off) and save_as_files, and CompoundStorage.assemble

usage: structures_bounded.py <scale> <seed>   (scale 1 = quick)   -> JSON
"""
import itertools
import json
import os
import random
import sys
import tempfile
import traceback

UNIVERSE = [0, 1, 6, 7, 8, 9, 15, 16, 17, 23, 24]
fails = []
counts = {"cases": 0}
distinct = set()


def note_case(*key):
    import hashlib
    distinct.add(hashlib.md5(repr(key).encode()).hexdigest())


def fail(case, detail):
    if not any(f["case"] == case for f in fails):
        fails.append({"case": case, "detail": detail[:600]})


def guarded(case, fn):
    try:
        return True, fn()
    except Exception as e:
        fail(case, "%s: %s | %s" % (type(e).__name__, e, traceback.format_exc()[-300:]))
        return False, None


# ---------------------------------------------------------------- id sets
def idset_factories():
    from whoosh.idsets import BitSet, SortedIntSet, OnDiskBitSet, ReverseIdSet, RoaringIdSet, MultiIdSet
    from whoosh.filedb.filestore import RamStorage
    st = RamStorage()
    n = [0]

    def ondisk(s):
        n[0] += 1
        name = "bits%d" % n[0]
        f = st.create_file(name)
        f.write(b"\x00\x01\x02")          # non-zero base position
        bc = BitSet(s, size=max(UNIVERSE) + 1).to_disk(f)
        f.close()
        return OnDiskBitSet(st.open_file(name), 3, bc)

    def reverse(s):
        limit = 26
        return ReverseIdSet(BitSet([i for i in range(limit) if i not in s], size=limit), limit)

    def multi(s):
        a = [i for i in s if i < 8]
        b = [i - 8 for i in s if 8 <= i < 16]
        c = [i - 16 for i in s if i >= 16]
        return MultiIdSet([BitSet(a, size=8), SortedIntSet(b), BitSet(c, size=10)], [0, 8, 16])
    return [("BitSet", lambda s: BitSet(s, size=max(UNIVERSE) + 1), True),
            ("BitSet-grown", lambda s: _grown(BitSet, s), True),
            ("SortedIntSet", lambda s: SortedIntSet(s), True),
            ("OnDiskBitSet", ondisk, False),
            ("ReverseIdSet", reverse, False),
            ("RoaringIdSet", lambda s: RoaringIdSet(s), True),
            ("MultiIdSet", multi, False)]


def _grown(cls, s):
    b = cls()
    for i in sorted(s, reverse=True):
        b.add(i)
    return b


def check_idsets(scale):
    facs = idset_factories()
    subsets = []
    for r in range(len(UNIVERSE) + 1):
        for c in itertools.combinations(UNIVERSE, r):
            subsets.append(frozenset(c))
    probes = list(range(0, 27))
    for name, mk, mutable in facs:
        for s in subsets:
            counts["cases"] += 1
            if s:
                note_case("idset", name, tuple(sorted(s)))
            ok, x = guarded("C20-%s-construct" % name, lambda: mk(s))
            if not ok:
                break
            srt = sorted(s)
            ok, it = guarded("C20-%s-iter" % name, lambda: list(x))
            if ok and it != srt:
                fail("C20-%s-iter" % name, "iter(%r) = %r" % (srt, it))
            ok, ln = guarded("C20-%s-len" % name, lambda: len(x))
            if ok and ln != len(s):
                fail("C20-%s-len" % name, "len(%r) = %r" % (srt, ln))
            for i in probes:
                ok, r = guarded("C20-%s-contains" % name, lambda: i in x)
                if ok and bool(r) != (i in s):
                    fail("C20-%s-contains" % name, "%d in %r -> %r" % (i, srt, r))
                if name in ("RoaringIdSet", "MultiIdSet"):
                    continue      # before/after/first/last use the generic (iteration based) defaults, checked once below
                ok, r = guarded("C20-%s-before" % name, lambda: x.before(i))
                exp = max([v for v in s if v < i], default=None)
                if ok and r != exp:
                    fail("C20-%s-before" % name, "%r.before(%d) = %r expected %r" % (srt, i, r, exp))
                ok, r = guarded("C20-%s-after" % name, lambda: x.after(i))
                exp = min([v for v in s if v > i], default=None)
                if ok and r != exp:
                    fail("C20-%s-after" % name, "%r.after(%d) = %r expected %r" % (srt, i, r, exp))
            if s:
                ok, r = guarded("C20-%s-first" % name, lambda: (x.first(), x.last()))
                if ok and r != (srt[0], srt[-1]):
                    fail("C20-%s-first-last" % name, "%r first/last = %r" % (srt, r))
            if not mutable:
                continue
            for i in [0, 5, 7, 8, 23, 24, 31, 40]:
                ok, c = guarded("C20-%s-copy" % name, lambda: x.copy())
                if not ok:
                    break
                ok, _ = guarded("C20-%s-add" % name, lambda: c.add(i))
                if ok and (sorted(c) != sorted(s | {i}) or sorted(x) != srt):
                    fail("C20-%s-add" % name, "%r.add(%d) -> %r (original now %r)" % (srt, i, sorted(c), sorted(x)))
                c = x.copy()
                ok, _ = guarded("C20-%s-discard" % name, lambda: c.discard(i))
                if ok and sorted(c) != sorted(s - {i}):
                    fail("C20-%s-discard" % name, "%r.discard(%d) -> %r" % (srt, i, sorted(c)))
            if name.startswith("BitSet"):
                for size in (max(UNIVERSE) + 1, 26, 32, 40):
                    ok, r = guarded("C20-%s-invert" % name, lambda: sorted(x.invert(size)))
                    exp = [v for v in range(size) if v not in s]
                    if ok and r != exp:
                        fail("C20-%s-invert" % name, "%r.invert(%d) = %r expected %r" % (srt, size, r, exp))
        # binary operations on a sample of pairs
        rnd = random.Random(7)
        sample = rnd.sample(subsets, 48 * scale if 48 * scale < len(subsets) else len(subsets))
        # the corner operands are always part of the sample: empty, full, lowest / highest singleton
        for corner in (frozenset(), frozenset(UNIVERSE), frozenset([min(UNIVERSE)]), frozenset([max(UNIVERSE)])):
            if not any(set(x) == set(corner) for x in sample):
                sample.append(type(sample[0])(corner) if not isinstance(sample[0], frozenset) else corner)
        if not mutable:
            continue
        broken = False
        for a in sample:
            if broken:
                break
            for b in sample:
                counts["cases"] += 1
                if a and b:
                    note_case("idset-pair", name, tuple(sorted(a)), tuple(sorted(b)))
                ok, pair = guarded("C20-%s-construct" % name, lambda: (mk(a), mk(b)))
                if not ok:
                    broken = True
                    break
                xa, xb = pair
                for opname, model in (("union", a | b), ("intersection", a & b), ("difference", a - b)):
                    ok, r = guarded("C20-%s-%s" % (name, opname), lambda: sorted(getattr(xa, opname)(xb)))
                    if ok and r != sorted(model):
                        fail("C20-%s-%s" % (name, opname), "%r %s %r = %r" % (sorted(a), opname, sorted(b), r))
                    ok, r = guarded("C20-%s-%s-pyset" % (name, opname), lambda: sorted(getattr(xa, opname)(set(b))))
                    if ok and r != sorted(model):
                        fail("C20-%s-%s-pyset" % (name, opname), "%r %s set(%r) = %r" % (sorted(a), opname, sorted(b), r))
                    c = mk(a)
                    upd = {"union": "update", "intersection": "intersection_update", "difference": "difference_update"}[opname]
                    ok, _ = guarded("C20-%s-%s" % (name, upd), lambda: getattr(c, upd)(xb))
                    if ok and sorted(c) != sorted(model):
                        fail("C20-%s-%s" % (name, upd), "%r.%s(%r) -> %r" % (sorted(a), upd, sorted(b), sorted(c)))
                if sorted(xa) != sorted(a) or sorted(xb) != sorted(b):
                    fail("C20-%s-binop-mutates" % name, "operands changed")
                ok, r = guarded("C20-%s-isdisjoint" % name, lambda: xa.isdisjoint(xb))
                if ok and bool(r) != (not (a & b)) or (ok and r is None):
                    fail("C20-%s-isdisjoint" % name, "%r.isdisjoint(%r) = %r" % (sorted(a), sorted(b), r))
                ok, r = guarded("C20-%s-eq" % name, lambda: xa == xb)
                if ok and bool(r) != (a == b):
                    fail("C20-%s-eq" % name, "%r == %r -> %r" % (sorted(a), sorted(b), r))


# ---------------------------------------------------------------- hash files
def check_tables(scale, rnd):
    from whoosh.filedb.filestore import RamStorage
    from whoosh.filedb.filetables import HashWriter, HashReader, OrderedHashWriter, OrderedHashReader
    st = RamStorage()
    for trial in range(60 * scale):
        counts["cases"] += 1
        nkeys = rnd.choice([0, 1, 2, 3, 10, 40, 300 if trial % 10 == 0 else 17])
        alphabet = rnd.choice([b"ab", b"abcdefgh", bytes(range(256))])
        items = []
        for _ in range(nkeys):
            k = bytes(rnd.choice(alphabet) for _ in range(rnd.choice([0, 1, 1, 2, 3, 8, 40])))
            v = bytes(rnd.randrange(256) for _ in range(rnd.choice([0, 1, 5, 100])))
            items.append((k, v))
        name = "h%d" % trial
        if items:
            note_case("table", tuple(items))

        def wr():
            hw = HashWriter(st.create_file(name))
            for k, v in items:
                hw.add(k, v)
            hw.close()
            return HashReader.open(st, name)
        ok, hr = guarded("C20-hash-write", wr)
        if not ok:
            continue
        model = {}
        for k, v in items:
            model.setdefault(k, []).append(v)
        try:
            if sorted(hr.items()) != sorted(items):
                fail("C20-hash-items", "items differ for %d keys" % nkeys)
            if list(hr.keys()) != [k for k, _ in items]:
                fail("C20-hash-keys-order", "keys() not in insertion order")
            for k, vs in model.items():
                if list(hr.all(k)) != vs:
                    fail("C20-hash-all", "all(%r) = %r expected %r" % (k, list(hr.all(k)), vs))
                if hr[k] != vs[0] or hr.get(k) != vs[0] or k not in hr:
                    fail("C20-hash-get", "get(%r) wrong" % (k,))
            for _ in range(20):
                k = bytes(rnd.choice(alphabet) for _ in range(rnd.choice([0, 1, 2, 3])))
                if k not in model:
                    if k in hr or hr.get(k) is not None or list(hr.all(k)):
                        fail("C20-hash-absent", "absent key %r reported present" % (k,))
        except Exception as e:
            fail("C20-hash-exception", "%s: %s" % (type(e).__name__, traceback.format_exc()[-300:]))
        hr.close()
        # ordered
        okeys = sorted(set(k for k, _ in items))
        name = "o%d" % trial

        def wro():
            ow = OrderedHashWriter(st.create_file(name))
            for k in okeys:
                ow.add(k, k + b"!")
            ow.close()
            return OrderedHashReader.open(st, name)
        ok, orr = guarded("C20-ordered-write", wro)
        if not ok:
            continue
        try:
            if list(orr.keys()) != okeys:
                fail("C20-ordered-keys", "keys not in order")
            probes = set(okeys)
            for k in okeys:
                probes.add(k + b"\x00")
                probes.add(k[:-1])
                if k:
                    probes.add(k[:-1] + bytes([max(0, k[-1] - 1)]))
            probes.add(b"")
            probes.add(b"\xff\xff\xff")
            for p in sorted(probes):
                exp = [k for k in okeys if k >= p]
                got = orr.closest_key(p)
                if got != (exp[0] if exp else None):
                    fail("C20-ordered-closest", "closest_key(%r) = %r expected %r" % (p, got, exp[:1]))
                if list(orr.keys_from(p)) != exp:
                    fail("C20-ordered-keys_from", "keys_from(%r) wrong" % (p,))
                if list(orr.items_from(p)) != [(k, k + b"!") for k in exp]:
                    fail("C20-ordered-items_from", "items_from(%r) wrong" % (p,))
        except Exception as e:
            fail("C20-ordered-exception", "%s: %s" % (type(e).__name__, traceback.format_exc()[-300:]))
        orr.close()


def check_hash_collisions():
    """two different keys with the SAME 32-bit hash but different lengths (found by a deterministic birthday search, for
    both shipped hash functions usable on bytes): each must be found, with its own value, whichever was added first, and
    an absent key that collides with a stored one must be absent"""
    from zlib import crc32
    from hashlib import md5
    import struct
    from whoosh.filedb.filestore import RamStorage
    from whoosh.filedb.filetables import HashWriter, HashReader
    st = RamStorage()
    for hashtype in (0, 1):
        from whoosh.filedb import filetables as _ft
        hf = _ft._hash_functions[hashtype]
        seen = {}
        import random as _random
        cr = _random.Random(20260925)
        for i in range(300000):
            k = cr.getrandbits(40).to_bytes(5, "big")
            seen[hf(k) & 0xffffffff] = k
        pairs = []
        for i in range(300000):
            k = cr.getrandbits(56).to_bytes(7, "big")
            o = seen.get(hf(k) & 0xffffffff)
            if o is not None and len(o) != len(k):
                pairs.append((o, k))
                if len(pairs) >= 3:
                    break
        if not pairs:
            fail("C20-hash-collision-search", "no colliding pair found for hash type %d (harness)" % hashtype)
            continue
        for a, b in pairs:
            for first, second in ((a, b), (b, a)):
                for absent_probe in (False, True):
                    counts["cases"] += 1
                    note_case("collision", hashtype, first, second, absent_probe)
                    name = "c%d_%d" % (hashtype, counts["cases"])

                    def run():
                        hw = HashWriter(st.create_file(name), hashtype=hashtype)
                        hw.add(b"zero", b"0")
                        hw.add(first, b"F")
                        if not absent_probe:
                            hw.add(second, b"S")
                        hw.add(b"last", b"9")
                        hw.close()
                        hr = HashReader.open(st, name)
                        out = (hr.get(first), hr.get(second), first in hr, second in hr, list(hr.all(second)), sorted(hr.keys()))
                        hr.close()
                        return out
                    ok, r = guarded("C20-hash-collision-exception", run)
                    if not ok:
                        continue
                    if absent_probe:
                        want = (b"F", None, True, False, [], sorted([b"zero", first, b"last"]))
                    else:
                        want = (b"F", b"S", True, True, [b"S"], sorted([b"zero", first, second, b"last"]))
                    if r != want:
                        fail("C20-hash-collision", "hashtype %d keys %r then %r (second stored: %s): got %r expected %r"
                             % (hashtype, first, second, not absent_probe, r, want))


# ---------------------------------------------------------------- codecs
def check_codecs(scale, rnd):
    from whoosh.filedb.filestore import RamStorage
    from whoosh.util.varints import varint, varint_to_int, signed_varint, decode_signed_varint, read_varint
    from whoosh.util.numlists import delta_encode, delta_decode, GrowableArray
    from whoosh.support.base85 import to_base85, from_base85
    st = RamStorage()
    vals = list(range(0, 2 ** 14, 1 if scale > 1 else 3))
    for e in range(0, 71):
        vals += [2 ** e - 1, 2 ** e, 2 ** e + 1]
    f = st.create_file("v")
    for v in vals:
        f.write_varint(v)
    f.close()
    f = st.open_file("v")
    for v in vals:
        counts["cases"] += 1
        got = f.read_varint()
        if got != v:
            fail("C20-varint-file", "read_varint after write_varint(%d) = %d" % (v, got))
            break
        bs = varint(v)
        if varint_to_int(bs) != v if isinstance(bs[0:1], str) else False:
            fail("C20-varint", "varint_to_int(varint(%d))" % v)
        it = iter(bs)
        if read_varint(lambda n: bytes([next(it)])) != v:
            fail("C20-varint-read", "read_varint(varint(%d))" % v)
            break
        if len(bs) != max(1, (v.bit_length() + 6) // 7):
            fail("C20-varint-minimal", "varint(%d) has %d bytes" % (v, len(bs)))
    for v in [0, 1, -1, 2, -2, 63, -64, 64, -65, 2 ** 40, -2 ** 40, 2 ** 62 + 5, -2 ** 62 - 5] + [rnd.randrange(-10 ** 9, 10 ** 9) for _ in range(300)]:
        counts["cases"] += 1
        it = iter(signed_varint(v))
        if decode_signed_varint(read_varint(lambda n: bytes([next(it)]))) != v:
            fail("C20-signed-varint", "signed varint round trip of %d" % v)
    for _ in range(200 * scale):
        counts["cases"] += 1
        lst = [rnd.randrange(-50, 5000) for _ in range(rnd.randrange(0, 12))]
        if list(delta_decode(delta_encode(lst))) != lst:
            fail("C20-delta", "delta round trip of %r" % lst)
    for th in (2 ** 8, 2 ** 16, 2 ** 31, 2 ** 32, 2 ** 62):
        for seq in ([1, th - 1, 3], [1, th, 3], [th + 1, 0], [5, th - 2, th - 1, th, th + 1]):
            if max(seq) >= 2 ** 64:
                continue
            counts["cases"] += 1
            def ga():
                g = GrowableArray()
                for v in seq:
                    g.append(v)
                return list(g)
            ok, r = guarded("C20-growable", ga)
            if ok and r != seq:
                fail("C20-growable", "GrowableArray %r -> %r" % (seq, r))
    # extend() with a batch that straddles a storage threshold (some values fit the current typecode, a later one does
    # not), followed by appends, and written to a file: the array must hold exactly the values given, in order
    from whoosh.filedb.filestore import RamStorage as _Ram
    gst = _Ram()
    for th in (2 ** 8, 2 ** 16, 2 ** 31, 2 ** 32):
        for batch in ([1, 2, th, 4], [th - 1, th, th + 1], [7] * 5 + [th] + [7] * 3, [th, 1], [0, th - 1]):
            for pre in ([], [3], [th - 1]):
                counts["cases"] += 1
                note_case("growable-extend", th, tuple(batch), tuple(pre))
                def gx():
                    g = GrowableArray()
                    for v in pre:
                        g.append(v)
                    g.extend(batch)
                    g.append(9)
                    f = gst.create_file("ga")
                    g.to_file(f)
                    f.close()
                    f = gst.open_file("ga")
                    back = list(f.read_array(g.typecode, len(g))) if g.typecode != "q" or True else None
                    f.close()
                    return list(g), back
                ok, r = guarded("C20-growable-extend", gx)
                want = pre + batch + [9]
                if ok and r[0] != want:
                    fail("C20-growable-extend", "GrowableArray %r extend %r -> %r" % (pre, batch, r[0]))
                elif ok and r[1] != want:
                    fail("C20-growable-extend-file", "GrowableArray %r extend %r written as %r" % (pre, batch, r[1]))
    for v in [0, 1, 84, 85, 86, 85 ** 2, 85 ** 5 - 1, 2 ** 32 - 1] + [rnd.randrange(0, 2 ** 32) for _ in range(200)]:
        counts["cases"] += 1
        if from_base85(to_base85(v)) != v:
            fail("C20-base85", "base85 round trip of %d" % v)


def check_sort(scale, rnd):
    from whoosh.externalsort import SortingPool, sort
    for trial in range(30 * scale):
        counts["cases"] += 1
        n = rnd.choice([0, 1, 2, 5, 50, 333])
        items = [(rnd.randrange(0, 40), rnd.choice(["x", "y", "zz"]), rnd.randrange(5)) for _ in range(n)]
        maxsize = rnd.choice([1, 2, 7, 50, 1000])
        td = tempfile.mkdtemp(prefix="sp_")
        def go():
            pool = SortingPool(maxsize=maxsize, tempdir=td)
            for it in items:
                pool.add(it)
            return list(pool.items(maxfiles=rnd.choice([2, 3, 128])))
        ok, r = guarded("C20-sort", go)
        if ok and r != sorted(items):
            fail("C20-sort", "SortingPool(maxsize=%d) of %d items not the sorted input" % (maxsize, n))
        ok, r = guarded("C20-sort-fn", lambda: list(sort(items, maxsize=maxsize, tempdir=td)))
        if ok and r != sorted(items):
            fail("C20-sort-fn", "sort() wrong")
        import shutil
        shutil.rmtree(td, ignore_errors=True)


def check_compound(scale, rnd):
    from whoosh.filedb.filestore import RamStorage, FileStorage
    from whoosh.filedb.compound import CompoundWriter, CompoundStorage
    for trial in range(10 * scale):
        counts["cases"] += 1
        td = tempfile.mkdtemp(prefix="cp_")
        st = FileStorage(td)
        bufsize = rnd.choice([16, 64, 32 * 1024])
        names = ["one", "two", "three"][:rnd.choice([1, 2, 3])]
        model = dict((n, b"") for n in names)
        def go():
            cw = CompoundWriter(st.temp_storage("tmp"), buffersize=bufsize)
            streams = dict((n, cw.create_file(n)) for n in names)
            for _ in range(rnd.choice([3, 10, 40])):
                n = rnd.choice(names)
                size = rnd.choice([0, 1, bufsize // 3 + 1, bufsize - 1, bufsize, bufsize + 1, 2 * bufsize + 5, 7])
                data = bytes([rnd.randrange(65, 91)]) * size
                streams[n].write(data)
                model[n] += data
            mode = rnd.choice(["compound", "files"])
            if mode == "compound":
                f = st.create_file("cmp.seg")
                cw.save_as_compound(f)
                out = {}
                for mm in (True, False):
                    cs = CompoundStorage(st.open_file("cmp.seg"), use_mmap=mm)
                    for n in names:
                        fh = cs.open_file(n)
                        out[(n, mm)] = fh.read()
                        # the same member through sized reads, positioned reads and seeks (file-object protocol)
                        fh2 = cs.open_file(n)
                        chunks = []
                        while True:
                            c = fh2.read(5)
                            if not c:
                                break
                            chunks.append(c)
                            if len(chunks) > len(model[n]) + 5:
                                break
                        out[(n, mm, "chunked")] = b"".join(chunks)
                        ln = len(model[n])
                        if ln >= 4:
                            fh2.seek(ln // 2)
                            tail = fh2.read(ln)            # asks for more than is left
                            fh2.seek(-3, 2)
                            last3 = fh2.read()
                            fh2.seek(1)
                            fh2.seek(1, 1)
                            two = fh2.read(2)
                            if tail != model[n][ln // 2:] or last3 != model[n][-3:] or two != model[n][2:4] or fh2.tell() != 4:
                                fail("C20-compound-seek-read", "member %r (mmap=%r): seek(%d)+read(%d) -> %d bytes (expected %d), seek(-3, 2)+read() "
                                     "-> %r (expected %r), seek(1);seek(1,1);read(2) -> %r (expected %r), tell %r"
                                     % (n, mm, ln // 2, ln, len(tail), ln - ln // 2, last3, model[n][-3:], two, model[n][2:4], fh2.tell()))
                        if cs.file_length(n) != len(model[n]):
                            fail("C20-compound-length", "file_length(%s) = %d expected %d" % (n, cs.file_length(n), len(model[n])))
                    cs.close()
                return out
            else:
                cw.save_as_files(st, lambda n: "f_" + n)
                return dict(((n, None), st.open_file("f_" + n).read()) for n in names)
        ok, out = guarded("C20-compound", go)
        if ok:
            for key_, data in out.items():
                n, mm = key_[0], key_[1]
                if data != model[n]:
                    pos = next((i for i in range(min(len(data), len(model[n]))) if data[i] != model[n][i]), min(len(data), len(model[n])))
                    fail("C20-compound-bytes", "member %r (mmap=%r, buffersize=%d) differs at byte %d (len %d vs %d)"
                         % (n, mm, bufsize, pos, len(data), len(model[n])))
        import shutil
        shutil.rmtree(td, ignore_errors=True)


def check_high_offsets():
    """hash / ordered hash files that start beyond 2**31 and 2**32 - 2**10 in a SPARSE file (a few KB really allocated):
    positions then need the unsigned 32-bit / 64-bit typecodes of the index tables"""
    from whoosh.filedb.filestore import FileStorage
    from whoosh.filedb.filetables import HashWriter, HashReader, OrderedHashWriter, OrderedHashReader
    d = tempfile.mkdtemp(prefix="hi_")
    st = FileStorage(d)
    try:
        for base in (17, 2 ** 31 + 17, 2 ** 32 - 900):
            keys = [("key%04d" % i).encode("ascii") for i in range(0, 120, 2)]
            model = dict((k, b"v:" + k) for k in keys)
            for ordered in (False, True):
                counts["cases"] += 1
                nm = "C20-%s-high-offset" % ("ordered" if ordered else "hash")

                def go():
                    f = st.create_file("big.hsh")
                    f.seek(base)
                    hw = (OrderedHashWriter if ordered else HashWriter)(f)
                    for k in keys:
                        hw.add(k, model[k])
                    hw.close()
                    hr = (OrderedHashReader if ordered else HashReader)(st.open_file("big.hsh"), startoffset=base)
                    try:
                        bad = [k for k in keys if hr.get(k) != model[k]]
                        if bad or hr.get(b"key0001") is not None or sorted(hr.keys()) != keys:
                            return "map lookups wrong at start offset %d: %r" % (base, bad[:3])
                        if ordered:
                            for probe in (b"", b"key0000", b"key0001", b"key0117", b"key0118", b"key0119", b"zzz"):
                                exp = [k for k in keys if k >= probe]
                                if hr.closest_key(probe) != (exp[0] if exp else None) or list(hr.keys_from(probe)) != exp \
                                        or list(hr.items_from(probe)) != [(k, model[k]) for k in exp]:
                                    return "closest_key/keys_from(%r) wrong at start offset %d" % (probe, base)
                    finally:
                        hr.close()
                    return None
                ok, out = guarded(nm, go)
                if ok and out:
                    fail(nm, out)
    finally:
        import shutil
        shutil.rmtree(d, ignore_errors=True)


def main():
    scale, seed = int(sys.argv[1]), int(sys.argv[2])
    tmp = tempfile.mkdtemp(prefix="sb_")
    os.environ["TMPDIR"] = tmp
    tempfile.tempdir = tmp
    rnd = random.Random(seed)
    for nm, fn in (("idsets", lambda: check_idsets(scale)), ("tables", lambda: check_tables(scale, rnd)),
                   ("codecs", lambda: check_codecs(scale, rnd)), ("sort", lambda: check_sort(scale, rnd)),
                   ("compound", lambda: check_compound(scale, rnd)), ("high-offsets", check_high_offsets),
                   ("hash-collisions", check_hash_collisions)):
        try:
            fn()
        except Exception:
            fail("exception/" + nm, traceback.format_exc()[-800:])
    import shutil
    shutil.rmtree(tmp, ignore_errors=True)
    print(json.dumps({"cases": counts["cases"], "distinct_nontrivial": len(distinct), "failures": fails,
                      "rule": "id sets: every subset of %r per class (non-empty ones counted as non-trivial) and sampled ordered "
                              "pairs of non-empty subsets; tables: distinct non-empty random key/value lists; distinctness by "
                              "hash of the case descriptor" % (UNIVERSE,)}))


if __name__ == "__main__":
    main()
