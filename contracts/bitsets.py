"""C20 — BitSet (whoosh.idsets): the byte array `bits` denotes the set

    mem(bits, x)  :=  0 <= x  and  x div 8 < len(bits)  and  bit (x mod 8) of bits[x div 8] is set

`add(i)` must turn the set into S + {i}, `discard(i)` into S - {i}, `i in S` must answer mem, for arrays of ANY length, and
every byte must stay a byte.  Shift amounts `i & 7` are decided case by case (contract option `split_small_shifts`), so each
path works with a concrete single-bit mask; `x | 2^k`, `x & 2^k`, `x & ~2^k` are encoded exactly over the integers
(pyvc/ops.py).  `_resize` is given the contract the proofs of add() rely on and is itself verified against it."""
import z3
from pyvc.contract import Canary, LoopSpec
from pyvc.values import Obj, SymList
from pyvc.ops import to_z3

M = "whoosh.idsets"
IntS = z3.IntSort()


def bit(byte, j):
    return (byte / (2 ** j)) % 2 == 1


def mem(bits, x):
    x = to_z3(x)
    b = z3.Select(bits.arr, x / 8)
    return z3.And(x >= 0, x / 8 < bits.n, z3.Or(*[z3.And(x % 8 == j, bit(b, j)) for j in range(8)]))


def memq(bits, q, j):
    """mem(bits, 8q + j) with the division done by hand: byte q exists and its bit j is set"""
    return z3.And(q >= 0, q < bits.n, bit(z3.Select(bits.arr, q), j))


def allbits(fn):
    """a statement about every x >= 0, written per byte q and bit j (x = 8q + j covers every x >= 0 exactly once; no
    x < 0 is ever a member by the definition of mem): keeps div/mod of the quantified variable out of the formula"""
    q = z3.Int("aq")
    return z3.And(*[z3.ForAll([q], z3.Implies(q >= 0, fn(q, j, 8 * q + j))) for j in range(8)])


def onebit(j, fn):
    q = z3.Int("aq")
    return z3.ForAll([q], z3.Implies(q >= 0, fn(q, j, 8 * q + j)))


def bytes_ok(bits):
    k = z3.Int("bk")
    return z3.And(bits.n >= 0, z3.ForAll([k], z3.Implies(z3.And(0 <= k, k < bits.n), z3.And(0 <= z3.Select(bits.arr, k), z3.Select(bits.arr, k) <= 255))))


def register(R, tier="quick"):
    register_invert(R)
    register_bitcolumn(R)

    def mk(I):
        bits = SymList(z3.Array(I.fresh_name("bits"), IntS, IntS), z3.Int(I.fresh_name("nbits")), "list")
        return {"self": Obj(I.repo.klass(M, "BitSet"), {"bits": bits}), "i": z3.Int("i")}

    def B(env):
        return env["self"].fields["bits"]

    K = M + ":BitSet."
    x = z3.Int("bx")

    R.contract(M + ":BaseBitSet.__contains__", label=M + ":BaseBitSet.__contains__@BitSet", props=["C20"], setup=mk,
               requires=[lambda I, env: bytes_ok(B(env)), "i >= 0"],
               ensures=[lambda I, env: to_z3(env["result"]) == mem(B(env), env["i"])],
               returns="bool", opts={"split_small_shifts": True},
               canaries=[Canary("wrong-byte", "bucket = i // 8", "bucket = i // 4"),
                         Canary("last-byte-excluded", "if bucket >= self.byte_count():", "if bucket >= self.byte_count() - 1:")],
               note="membership test reads bit (i mod 8) of byte (i div 8), False beyond the array")

    R.contract(K + "discard", props=["C20"], setup=mk,
               requires=[lambda I, env: bytes_ok(B(env)), "i >= 0"],
               ensures=[lambda I, env: bytes_ok(B(env)),
                        lambda I, env: B(env).n == I.old_env["self"].fields["bits"].n,
                        lambda I, env: z3.ForAll([x], mem(B(env), x) == z3.And(mem(I.old_env["self"].fields["bits"], x), x != env["i"]))],
               modifies=["self.bits"], opts={"split_small_shifts": True},
               canaries=[Canary("clears-the-byte", "self.bits[bucket] &= ~(1 << (i & 7))", "self.bits[bucket] = 0"),
                         Canary("wrong-bit", "self.bits[bucket] &= ~(1 << (i & 7))", "self.bits[bucket] &= ~(1 << (i & 3))")],
               note="discard(i) removes exactly i (nothing when i is beyond the array)")

    def resize_post(I, env):
        b, b0 = B(env), I.old_env["self"].fields["bits"]
        k = z3.Int("rk")
        need = (to_z3(env["tosize"]) + 8) / 8          # bytes_for_bits(tosize) = ceil((tosize + 1) / 8)
        return z3.And(z3.Implies(need > b0.n, b.n == need), z3.Implies(need <= b0.n, b.n <= b0.n), b.n >= z3.If(need < b0.n, need, b0.n),
                      z3.ForAll([k], z3.Implies(z3.And(0 <= k, k < b0.n, k < b.n), z3.Select(b.arr, k) == z3.Select(b0.arr, k))),
                      z3.ForAll([k], z3.Implies(z3.And(b0.n <= k, k < b.n), z3.Select(b.arr, k) == 0)))

    R.contract(K + "add", props=["C20"], setup=mk,
               requires=[lambda I, env: bytes_ok(B(env)), "i >= 0"],
               ensures=[lambda I, env: bytes_ok(B(env)),
                        lambda I, env: z3.ForAll([x], mem(B(env), x) == z3.Or(mem(I.old_env["self"].fields["bits"], x), x == env["i"]))],
               modifies=["self.bits"], opts={"split_small_shifts": True},
               canaries=[Canary("sets-the-byte", "self.bits[bucket] |= 1 << (i & 7)", "self.bits[bucket] = 1 << (i & 7)"),
                         Canary("wrong-bit", "self.bits[bucket] |= 1 << (i & 7)", "self.bits[bucket] |= 1 << (i & 3)"),
                         Canary("no-growth", "self._resize(i + 1)", "self._resize(i - 8)")],
               note="add(i) makes the set S + {i}: the array grows with zero bytes when i lies beyond it, no other member changes")

    R.contract(K + "_resize", props=["C20"],
               setup=lambda I: {"self": mk(I)["self"], "tosize": z3.Int("tosize")},
               requires=[lambda I, env: bytes_ok(B(env)), "tosize >= 0"],
               ensures=[resize_post], modifies=["self.bits"],
               # int(ceil((n + 1) / 8.0)) = (n + 8) div 8 for n >= 0 (float division assumed exact: class A; the bounded
               # structures harness exercises BitSet growth natively)
               externals={"whoosh.util.numeric.bytes_for_bits": lambda I, args, kw, node: (to_z3(args[0]) + 8) / 8,
                          "bytes_for_bits": lambda I, args, kw, node: (to_z3(args[0]) + 8) / 8},
               canaries=[Canary("grows-one-byte-short", "self.bits.extend((0,) * (newlength - curlength))", "self.bits.extend((0,) * (newlength - curlength - 1))"),
                         Canary("shrinks-too-far", "del self.bits[newlength + 1:]", "del self.bits[newlength - 1:]")],
               note="growing appends zero bytes and keeps the existing ones; it never shrinks below what the new size needs")


def register_invert(R):
    def mk(I):
        bits = SymList(z3.Array(I.fresh_name("bits"), IntS, IntS), z3.Int(I.fresh_name("nbits")), "list")
        return {"self": Obj(I.repo.klass(M, "BitSet"), {"bits": bits}), "size": z3.Int("size")}

    def B(env):
        return env["self"].fields["bits"]

    def B0(I):
        return I.old_env["self"].fields["bits"]

    K = M + ":BitSet."
    x, k = z3.Int("zx"), z3.Int("zk")

    def low(v, r):
        """v mod 2^r for r in 0..7"""
        e = v % 128
        for j in range(6, -1, -1):
            e = z3.If(r == j, v % (2 ** j), e)
        return e

    # ---- _zero_extra_bits(size): S := S restricted to [0, size)
    def z_inv(I, env):
        b, b0 = B(env), B0(I)
        size = to_z3(env["size"])
        full = size / 8
        idx = to_z3(env["_j"])
        lo = full + 1
        return z3.And(b.n == b0.n, bytes_ok(b),
                      z3.ForAll([k], z3.Implies(z3.And(0 <= k, k < full, k < b.n), z3.Select(b.arr, k) == z3.Select(b0.arr, k))),
                      z3.Implies(full < b.n, z3.Select(b.arr, full) == low(z3.Select(b0.arr, full), size % 8)),
                      z3.ForAll([k], z3.Implies(z3.And(lo <= k, k < idx, k < b.n), z3.Select(b.arr, k) == 0)),
                      z3.ForAll([k], z3.Implies(z3.And(idx <= k, k < b.n), z3.Select(b.arr, k) == z3.Select(b0.arr, k))))

    R.contract(K + "_zero_extra_bits", props=["C20"], setup=mk,
               requires=[lambda I, env: bytes_ok(B(env)), "size >= 0"],
               ensures=[lambda I, env: bytes_ok(B(env)), lambda I, env: B(env).n == B0(I).n,
                        lambda I, env: allbits(lambda q, j, xx: memq(B(env), q, j) == z3.And(memq(B0(I), q, j), xx < env["size"]))],
               modifies=["self.bits"], opts={"split_small_shifts": True},
               loops={0: LoopSpec(index="_j", inv=[z_inv])},
               canaries=[Canary("keeps-one-bit-too-many", "bits[full] &= (1 << (size & 7)) - 1", "bits[full] &= (1 << ((size & 7) + 1)) - 1"),
                         Canary("tail-bytes-kept", "bits[i] = 0", "pass")],
               note="clears every bit at position size or beyond and nothing below it")

    # ---- invert_update(size): S := [0, size) - S
    def compl_instance(v):
        return z3.Implies(z3.And(0 <= v, v <= 255), z3.And(*[bit(255 - v, j) == z3.Not(bit(v, j)) for j in range(8)]))

    def compl_lemma():
        v = z3.Int("cv")
        return [("bit j of 255 - v is the negation of bit j of v, for every byte v and j < 8", compl_instance(v))]
    R.lemma("bitsets/complement-byte", ["C20"], compl_lemma,
            note="used by BitSet.invert_update: its postcondition is proved under the instance of this lemma at the byte holding x")

    def mid(I, kk):
        b0 = B0(I)
        return z3.If(kk < b0.n, z3.Select(b0.arr, kk), 0)

    def inv_parts(I, env):
        b, b0 = B(env), B0(I)
        idx = to_z3(env["_j"])
        need = (to_z3(env["size"]) + 8) / 8
        return [z3.And(b.n == z3.If(need > b0.n, need, b0.n), idx <= b.n),
                z3.ForAll([k], z3.Implies(z3.And(0 <= k, k < idx), z3.Select(b.arr, k) == 255 - mid(I, k))),
                z3.ForAll([k], z3.Implies(z3.And(idx <= k, k < b.n), z3.Select(b.arr, k) == mid(I, k)))]

    R.contract(K + "invert_update", props=["C20"], setup=mk,
               requires=[lambda I, env: bytes_ok(B(env)), "size >= 0"],
               # the set equation is proved with the lemma `bitsets/complement-byte` (complementing a byte flips each of its
               # 8 bits; discharged in the same run, for all bytes) instantiated at the old byte q:
               # forall q, j. lemma_instance(old byte q) ==> (8q+j in S'  <=>  8q+j < size and 8q+j not in S)
               ensures=[lambda I, env: bytes_ok(B(env))] +
                       [(lambda jj: (lambda I, env: onebit(jj, lambda q, j, xx: z3.Implies(
                           compl_instance(mid(I, q)), memq(B(env), q, j) == z3.And(xx < env["size"], z3.Not(memq(B0(I), q, j)))))))(jj)
                        for jj in range(8)],
               modifies=["self.bits"],
               loops={0: LoopSpec(index="_j", inv=[lambda I, env: inv_parts(I, env)[0], lambda I, env: inv_parts(I, env)[1],
                                                    lambda I, env: inv_parts(I, env)[2]])},
               timeout_ms=90000,     # the per-bit clauses take 2-17 s in z3 on an idle machine; a wide margin for loaded runs
               canaries=[Canary("no-growth", "if needed > len(bits):", "if False:"),
                         Canary("extra-bits-kept", "self._zero_extra_bits(size)", "pass")],
               note="invert_update(size) makes the set the complement within [0, size), also when the array has to grow first")


def register_bitcolumn(R):
    """C08 — BitColumn (boolean per-document column) on top of the BitSet contracts: a truthy value for document d sets bit d
    and nothing else, a falsy one changes nothing; the reader answers membership of the document number."""
    C = "whoosh.columns"

    def mkbits(I):
        return SymList(z3.Array(I.fresh_name("cbits"), IntS, IntS), z3.Int(I.fresh_name("ncbits")), "list")

    def mkw(I):
        bs = Obj(I.repo.klass(M, "BitSet"), {"bits": mkbits(I)})
        return {"self": Obj(I.repo.klass(C, "BitColumn.Writer"), {"_bitset": bs, "_dbfile": None, "_compressat": z3.Int("compressat")}),
                "docnum": z3.Int("docnum"), "value": z3.Bool("value")}

    def WB(env):
        return env["self"].fields["_bitset"].fields["bits"]

    x = z3.Int("cx")
    R.contract(C + ":BitColumn.Writer.add", props=["C08"], setup=mkw,
               requires=[lambda I, env: bytes_ok(WB(env)), "docnum >= 0"],
               ensures=[lambda I, env: bytes_ok(WB(env)),
                        lambda I, env: z3.ForAll([x], mem(WB(env), x) == z3.Or(mem(I.old_env["self"].fields["_bitset"].fields["bits"], x),
                                                                                 z3.And(env["value"], x == env["docnum"])))],
               modifies=["self._bitset"],
               canaries=[Canary("false-values-set-too", "if value:", "if True:"),
                         Canary("wrong-row", "self._bitset.add(docnum)", "self._bitset.add(docnum + 1)")],
               note="row docnum becomes True iff the value is truthy; no other row changes")

    def mkr(I):
        bs = Obj(I.repo.klass(M, "BitSet"), {"bits": mkbits(I)})
        return {"self": Obj(I.repo.klass(C, "BitColumn.Reader"), {"_bitset": bs, "_reverse": False, "_doccount": z3.Int("doccount")}),
                "i": z3.Int("i")}

    R.contract(C + ":BitColumn.Reader.__getitem__", props=["C08"], setup=mkr,
               requires=[lambda I, env: bytes_ok(WB(env)), "i >= 0"],
               ensures=[lambda I, env: to_z3(env["result"]) == mem(WB(env), env["i"])], returns="bool",
               opts={"split_small_shifts": True},
               canaries=[Canary("neighbour-row", "return i in self._bitset", "return (i + 1) in self._bitset")],
               note="row i reads bit i of the (loaded) bit set; rows beyond the stored bytes read False (the default)")
