"""Registration of the bounded (class B) native harness bounded/matchers_bounded.py."""
import json
import os
import subprocess
import tempfile
import shutil

ROOT = os.path.dirname(os.path.dirname(os.path.abspath(__file__)))
_cache = {}


def run_native(script, args, timeout=3000):
    from pyvc.extract import REPO_SRC
    env = dict(os.environ)
    env["PYTHONPATH"] = REPO_SRC
    tmpd = tempfile.mkdtemp(prefix="pyvc_b_")
    env["TMPDIR"] = tmpd
    try:
        p = subprocess.run(["/venv/bin/python", "-W", "ignore", os.path.join(ROOT, "bounded", script)] + [str(a) for a in args],
                           capture_output=True, text=True, timeout=timeout, env=env, cwd=tmpd)
        if p.returncode != 0:
            return {"cases": 0, "failures": [], "error": (p.stderr or p.stdout)[-1500:]}
        return json.loads(p.stdout.strip().splitlines()[-1])
    finally:
        shutil.rmtree(tmpd, ignore_errors=True)


def register(R, tier="quick"):
    def make(prop):
        def fn(tier_, seed):
            key = (tier_, seed)
            if key not in _cache:
                n = 480 if tier_ == "quick" else 8000
                _cache[key] = run_native("matchers_bounded.py", [n, seed, 16])
            out = dict(_cache[key])
            fs = []
            for f in out.get("failures", []):
                p = f["case"].split("-")[0]
                if p == prop or not p.startswith("C"):
                    f = dict(f)
                    if f.get("corpus") is None:
                        f["snippet"] = ("import runpy, sys\nsys.argv = ['matchers_bounded.py', '--deterministic', %r]\n"
                                        "runpy.run_path(%r, run_name='__main__')\n"
                                        % (f["case"], os.path.join(ROOT, "bounded", "matchers_bounded.py")))
                    else:
                        f["snippet"] = ("import runpy, sys\nsys.argv = ['matchers_bounded.py', '--corpus', %r]\n"
                                        "runpy.run_path(%r, run_name='__main__')\n"
                                        % (json.dumps(f["corpus"]), os.path.join(ROOT, "bounded", "matchers_bounded.py")))
                    fs.append(f)
            out["failures"] = fs
            return out
        return fn
    def make06(tier_, seed):
        out = make("C01")(tier_, seed)
        # scores are compared with a reference scorer that only knows whole-index statistics: a score mismatch on a corpus
        # without deletions is a dependence on the segment layout
        sc = make("C09")(tier_, seed)
        out["failures"] = list(out["failures"]) + [f for f in sc["failures"]
                                                    if f["case"].startswith("C09-score") and not (f.get("corpus") or {}).get("deleted")]
        for f in out["failures"]:
            f["case"] = "C06-" + f["case"]
        return out
    R.bounded_check("matchers-bounded@C06", ["C06"], make06,
                    bound="the C01 cases of matchers-bounded (result set of every query kind over corpora split into 1-3 segments with "
                          "posting blocks of 1-16 entries) and its score cases on corpora without deletions",
                    note="C06: the result set of every query is independent of segment layout and block structure")
    for prop in ("C01", "C05", "C09", "C11", "C12"):
        R.bounded_check("matchers-bounded@" + prop, [prop], make(prop),
                        bound="16 query kinds x random corpora (<= 9 docs, 3 terms, tf in {1,2,3,5}, posting block size in "
                              "{1,2,3,4,16}, 0-2 segment cuts, 0-2 deletions): quick 480 corpora, thorough 8000; every "
                              "skip target / threshold / position enumerated per corpus",
                        note="real matchers/collectors/searcher vs an independent evaluator; see bounded/matchers_bounded.py")


    def qfn(tier_, seed):
        key = ("q", tier_, seed)
        if key not in _cache:
            _cache[key] = run_native("queries_bounded.py", [1000 if tier_ == "quick" else 20000, seed, 16])
        out = dict(_cache[key])
        fs = []
        for f in out.get("failures", []):
            f = dict(f)
            if f.get("corpus") is None:
                # deterministic large-corpus family: the replay is that family itself
                f["snippet"] = ("import sys\nsys.path.insert(0, %r)\nimport queries_bounded as q\nfails = []\nq.check_big(fails)\nq.check_parsed_dates(fails)\nq.check_int_domain(fails)\n"
                                "[print('FAIL', x['case'], '|', x['detail']) for x in fails]\nsys.exit(1 if fails else 0)\n"
                                % os.path.join(ROOT, "bounded"))
            else:
                f["snippet"] = ("import runpy, sys\nsys.argv = ['queries_bounded.py', '--corpus', %r]\n"
                                "runpy.run_path(%r, run_name='__main__')\n"
                                % (json.dumps(f["corpus"]), os.path.join(ROOT, "bounded", "queries_bounded.py")))
            fs.append(f)
        out["failures"] = fs
        return out
    def qfn01(tier_, seed):
        out = dict(qfn(tier_, seed))
        out["failures"] = [f for f in out.get("failures", []) if not f["case"].startswith("C11-") and not f["case"].startswith("C15-")]
        return out
    def qfn15(tier_, seed):
        out = dict(qfn(tier_, seed))
        out["failures"] = [f for f in out.get("failures", []) if f["case"].startswith("C15-")]
        return out
    def qfn11(tier_, seed):
        out = dict(qfn(tier_, seed))
        out["failures"] = [f for f in out.get("failures", []) if f["case"].startswith("C11-") or f["case"].startswith("exception")]
        return out
    def qfn13(tier_, seed):
        out = dict(qfn(tier_, seed))
        fs = []
        for f in out.get("failures", []):
            if f["case"].endswith("/numrange") or f["case"].endswith("/daterange"):
                f = dict(f)
                f["case"] = "C13-" + f["case"]
                fs.append(f)
        out["failures"] = fs
        return out
    R.bounded_check("queries-bounded@C13", ["C13"], qfn13,
                    bound="the NumericRange and DateRange queries of queries-bounded (8-bit signed NUMERIC with shift_step 2; DATETIME "
                          "values one day apart): open, closed and half-open intervals with bounds on and between stored values, over "
                          "1-3 segments with deletions, every access path",
                    note="index-level counterpart of the range-splitting proofs: which documents a range query returns")
    R.bounded_check("queries-bounded@C15", ["C15"], qfn15,
                    bound="every generated query of queries-bounded (Phrase, span queries, And with a span clause, Prefix, Wildcard, "
                          "Regex, TermRange, NumericRange, DateRange, Every) on corpora of <= 8 docs, 1-3 segments, 0-1 deletion",
                    note="estimate_size() never raises and is never below the number of documents the query matches")
    R.bounded_check("queries-bounded@C11", ["C11"], qfn11,
                    bound="the matcher of every generated query of queries-bounded (Phrase, span-near, Prefix, Wildcard, Regex, "
                          "TermRange, NumericRange, DateRange, Every; corpora of <= 8 docs, 1-3 segments, 0-1 deletion): stepping, "
                          "skip_to(t) for every t, copy after 1-2 steps, reset after 0-2 steps",
                    note="cursor protocol of the span / phrase / multi-term / range matchers against the brute-force matched set")
    R.bounded_check("queries-bounded@C01", ["C01"], qfn01,
                    bound="two deterministic large corpora (600 docs: phrase / span-near under limits 1..100 over posting blocks of "
                          "2, 8, 128; 4300 docs: Or of 3 and 4 terms, scored / unscored / sorted) and "
                          "random corpora (<= 8 docs of <= 6 tokens over a 16-word vocabulary, 0-2 segment cuts, 0-1 deletion, posting "
                          "blocks of 1-3 or 128 entries; every access path scored / unscored / sorted / terms under limits 1-3) x "
                          "~22 generated queries each: Phrase (2-3 words, slop 1-3), Prefix, Wildcard, Regex (incl. trailing "
                          "?/* quantifiers), TermRange (open/closed/unbounded), NumericRange (8-bit signed, step 2), Every; "
                          "quick 1000 corpora, thorough 20000",
                    note="matched set through search / docs_for_query / Query.docs / len(limit=1) vs brute-force evaluators")


    def nfn(prefixes):
        def fn(tier_, seed):
            key = ("nested", tier_, seed)
            if key not in _cache:
                _cache[key] = run_native("nested_bounded.py", [400 if tier_ == "quick" else 6000, seed])
            out = dict(_cache[key])
            fs = []
            for f in out.get("failures", []):
                if any(f["case"].startswith(p) for p in prefixes) or f["case"].startswith("exception"):
                    f = dict(f)
                    f["snippet"] = ("import runpy, sys\nsys.argv = ['nested_bounded.py', '--corpus', %r]\n"
                                    "runpy.run_path(%r, run_name='__main__')\n"
                                    % (json.dumps(f["corpus"]), os.path.join(ROOT, "bounded", "nested_bounded.py")))
                    fs.append(f)
            out["failures"] = fs
            return out
        return fn
    nested_bound = ("random corpora of 1-6 groups (one parent + 0-3 children each, incl. childless parents) over 1-3 segments cut at "
                    "group boundaries, 0-2 deleted children, optionally one deleted group, before and after optimize; "
                    "quick 400 corpora, thorough 6000")
    R.bounded_check("nested-bounded@C06", ["C06"], nfn(["C06-"]), bound=nested_bound,
                    note="NestedParent / NestedChildren return exactly the parents with a live matching child / the live children "
                         "of the matching parents, also after the groups went through optimize")
    R.bounded_check("nested-bounded@C07", ["C07"], nfn(["C07-"]), bound=nested_bound,
                    note="delete_by_query with a parent/child query deletes exactly the groups with a live matching child")
    R.bounded_check("nested-bounded@C01", ["C01"], nfn(["C06-"]), bound=nested_bound,
                    note="result sets of the parent/child queries against a group model")
    R.bounded_check("nested-bounded@C11", ["C11"], nfn(["C11-"]), bound=nested_bound,
                    note="NestedParentMatcher / NestedChildMatcher per segment: ascending ids, skip_to(t) for every t, reset")

    def sfn(tier_, seed):
        out = run_native("structures_bounded.py", [1 if tier_ == "quick" else 6, seed])
        for f in out.get("failures", []):
            f["snippet"] = ("import runpy, sys\nsys.argv = ['structures_bounded.py', '1', %r]\n"
                            "runpy.run_path(%r, run_name='__main__')\n" % (str(seed), os.path.join(ROOT, "bounded", "structures_bounded.py")))
        return out
    R.bounded_check("structures-bounded@C20", ["C20"], sfn,
                    bound="id sets: all 2048 subsets of 11 ids straddling byte boundaries x probes 0..26 x 7 classes, 48x48 "
                          "(thorough 288x288) ordered pairs for binary ops; hash/ordered files: 60 (360) random key maps incl. "
                          "empty/long/duplicate keys; varints 0..2^14 and 2^e+-1 up to 2^70; delta, GrowableArray thresholds, "
                          "base85; SortingPool with run sizes 1..1000; compound files with writes crossing the buffer",
                    note="real structures vs Python set/dict/list models; see bounded/structures_bounded.py")


    def rfn(tier_, seed):
        out = run_native("results_bounded.py", [600 if tier_ == "quick" else 12000, seed, 16])
        for f in out.get("failures", []):
            if f.get("corpus") is None:
                f["snippet"] = ("import runpy, sys\nsys.argv = ['results_bounded.py', '--deterministic']\n"
                                "runpy.run_path(%r, run_name='__main__')\n" % os.path.join(ROOT, "bounded", "results_bounded.py"))
                continue
            f["snippet"] = ("import runpy, sys\nsys.argv = ['results_bounded.py', '--corpus', %r]\n"
                            "runpy.run_path(%r, run_name='__main__')\n"
                            % (json.dumps(f["corpus"]), os.path.join(ROOT, "bounded", "results_bounded.py")))
        return out
    R.bounded_check("results-bounded@C14", ["C14"], rfn,
                    bound="random corpora (<= 10 docs, 0-2 segment cuts, 0-2 deletions, sort fields with or without column): "
                          "sort by numeric/text field asc/desc/limit, FieldFacet reverse, MultiFacet, groupedby (plain, "
                          "overlapping keyword, under a limit), collapse limit 1/2, filter/mask (incl. empty), every page of "
                          "pagelen 1..3, len(results) under limits; quick 600 corpora, thorough 12000",
                    note="real searcher vs list/set models; see bounded/results_bounded.py")


    def ffn(tier_, seed):
        out = run_native("fuzzy_bounded.py", [150 if tier_ == "quick" else 3000, seed])
        for f in out.get("failures", []):
            f["snippet"] = ("import runpy, sys\nsys.argv = ['fuzzy_bounded.py', '--corpus', %r]\n"
                            "runpy.run_path(%r, run_name='__main__')\n"
                            % (json.dumps(f.get("corpus")), os.path.join(ROOT, "bounded", "fuzzy_bounded.py")))
        return out
    R.bounded_check("fuzzy-bounded@C19", ["C19"], ffn,
                    bound="distance functions: all 14641 ordered pairs of words of length <= 4 over {a,b,c}, limit in "
                          "{None,1,2,3}; index level: 150 (thorough 3000) random vocabularies (4-14 words incl. multi-byte "
                          "letters, 1-3 segments) x 5 probes x maxdist 1..2 x prefix 0..3: terms_within, FuzzyTerm, suggest",
                    note="real code vs textbook OSA distance; see bounded/fuzzy_bounded.py")


    def colfn(tier_, seed):
        return run_native("columns_bounded.py", [1 if tier_ == "quick" else 2, seed])
    R.bounded_check("columns-bounded@C08", ["C08"], colfn,
                    bound="every shipped column type (VarBytes with and without offset table, FixedBytes, RefBytes variable and "
                          "fixed, Numeric b/B/h/H/i/I/q/Q/d with default 0 and a non-zero default, Bit plain and compressed, "
                          "Struct, Pickle, CompressedBytes, CompressedBlock, VarBytesList) written at doccount 0, 1, 2, 17, 300, 700 "
                          "(thorough also 70000) under 7 gap patterns (dense, every third, first half, second half, empty, random, "
                          "every-seventh-missing past 300) with 5 or 420 distinct values (RefBytes 1-byte -> 2-byte reference "
                          "switch), column placed at file offset 5; every row read by index, by iteration and through load()",
                    note="real column writers/readers vs a dict; see bounded/columns_bounded.py")


    def fmtfn(tier_, seed):
        out = run_native("formats_bounded.py", [120 if tier_ == "quick" else 3000, seed])
        for f in out.get("failures", []):
            if f.get("corpus"):
                f["snippet"] = ("import runpy, sys\nsys.argv = ['formats_bounded.py', '--corpus', %r]\n"
                                "runpy.run_path(%r, run_name='__main__')\n"
                                % (json.dumps(f["corpus"]), os.path.join(ROOT, "bounded", "formats_bounded.py")))
        return out
    R.bounded_check("formats-bounded@C10", ["C10"], fmtfn,
                    bound="every shipped posting format (Existence, Frequency, Positions, Characters, PositionBoosts, "
                          "CharacterBoosts) x field boost {1, 2} x posting block limit {1, 2, 128} x 1-2 segments x with/without "
                          "term vectors, random token streams (<= 6 docs of <= 7 tokens over 4 words incl. a non-ASCII one, "
                          "per-token boosts 0.5/2/3): postings (ids ascending, frequency, float32 weight, positions, character "
                          "spans, per-position boosts), term statistics and vectors; quick 120 rounds x 6 formats, thorough 3000",
                    note="real codec vs a reference analysis; see bounded/formats_bounded.py")


    def rwfn(tier_, seed):
        return run_native("rewrites_bounded.py", [400 if tier_ == "quick" else 8000, seed])
    R.bounded_check("rewrites-bounded@C15", ["C15"], rwfn,
                    bound="random query trees of depth <= 2 over the public query types with NON-default parameters (Or minmatch/"
                          "scale, Not boost, Sequence slop/ordered, DisjunctionMax tiebreak, Phrase slop, span queries, "
                          "ConstantScoreQuery, ranges, fuzzy, wildcard, Every) x rewrites {accept(identity), apply(identity), "
                          "replace(absent term), with_boost, copy, deepcopy, pickle, normalize, normalize twice, &, |, -} evaluated "
                          "on 4 random corpora (4-9 docs, 1-2 segments): same matching documents; quick 400 trees, thorough 8000",
                    note="on data, complements the SMT shape check of normalize(); constructs of the known findings A1-A3 are not "
                         "generated here (they are reported by the shape check); see bounded/rewrites_bounded.py")


    def make_ix(prop):
        def fn(tier_, seed):
            key = ("ix", tier_, seed)
            if key not in _cache:
                _cache[key] = run_native("index_bounded.py", [240 if tier_ == "quick" else 6000, seed, 16])
            out = dict(_cache[key])
            fs = []
            for f in out.get("failures", []):
                p = f["case"].split("-")[0]
                # the whole-index dump compares stored values, column values, postings and vectors: a difference there is a
                # violation of C06 (layout), C08 (stored/column values) and C10 (postings) alike
                if p == prop or not p.startswith("C") or (f["case"].startswith("C06-dump") and prop in ("C08", "C10")) \
                        or (f["case"].startswith("C06-merge-policy") and prop == "C07") \
                        or (f["case"].startswith("C04-async-deferred") and prop == "C03"):
                    f = dict(f)
                    if f.get("corpus") is None:
                        f["snippet"] = ("import runpy, sys\nsys.argv = ['index_bounded.py', '--deterministic', %r]\n"
                                        "runpy.run_path(%r, run_name='__main__')\n"
                                        % (f["case"], os.path.join(ROOT, "bounded", "index_bounded.py")))
                    else:
                        f["snippet"] = ("import runpy, sys\nsys.argv = ['index_bounded.py', '--scenario', %r]\n"
                                        "runpy.run_path(%r, run_name='__main__')\n"
                                        % (json.dumps(f["corpus"]), os.path.join(ROOT, "bounded", "index_bounded.py")))
                    fs.append(f)
            out["failures"] = fs
            return out
        return fn
    for prop in ("C02", "C03", "C04", "C06", "C07", "C08", "C10"):
        R.bounded_check("index-bounded@" + prop, [prop], make_ix(prop),
                        bound="random operation histories on a real directory index: 2-5 writers x 1-5 operations (add, update by "
                              "unique key, delete by id / by word, grouped adds) ending in commit / optimize / no-merge commit / "
                              "cancel / with-block (normal, ValueError, KeyboardInterrupt), compound or loose segments; after every "
                              "step the full logical dump is compared with a Python model, searchers are held across 2 later "
                              "generations and refreshed, a second writer is attempted, and for one step per history the commit is "
                              "aborted at EVERY storage operation (create/rename/delete) in turn and the directory re-opened; "
                              "quick 240 histories, thorough 6000",
                        note="real index vs a document-level model; see bounded/index_bounded.py")
