"""C05 / C14 — TopCollector's heap bookkeeping (whoosh.collectors) against the heap-list theory."""
import z3
from pyvc.contract import Canary, LoopSpec
from pyvc.values import Obj, SpecFn
from pyvc.theories.heap import HeapList, lex_le
from pyvc.ops import to_z3

CL = "whoosh.collectors"

REMOVE_FALLBACK = """
# bounded stand-in (class B) for TopCollector.remove when its body leaves the verified subset: EXHAUSTIVE over
# every insertion order of n <= 7 distinct scores and every victim: after remove() the list must hold exactly the
# other elements, satisfy the heapq invariant, and minscore must be a sound admission threshold (0 unless the heap is
# full, and then at most the weakest kept score)
import sys, itertools
from whoosh.collectors import TopCollector
for n in range(1, 8):
    for perm in itertools.permutations(range(1, n + 1)):
        for victim in range(n):
            tc = TopCollector(limit=n); tc.items = []; tc.minscore = 0; tc.total = 0
            for d, sc in enumerate(perm):
                tc._collect(d, float(sc))
            tc.remove(victim)
            it = tc.items
            exp = sorted((float(sc), -d) for d, sc in enumerate(perm) if d != victim)
            heap_ok = all(it[(i - 1) // 2] <= it[i] for i in range(1, len(it)))
            ms_ok = tc.minscore == 0 or (len(it) >= tc.limit and tc.minscore <= min(it)[0])
            if sorted(it) != exp or not heap_ok or not ms_ok:
                print("after collecting scores %r and remove(%d): items=%r heap_ok=%s minscore=%r" % (perm, victim, it, heap_ok, tc.minscore)); sys.exit(1)
sys.exit(0)
"""


def register(R, tier="quick"):
    register_matches(R)
    register_filter(R)
    def mk(I, **kw):
        items = HeapList(I, "items")
        I.assume(items.is_heap)
        return Obj(I.repo.klass(CL, "TopCollector"), {"items": items, "limit": z3.Int("limit"), "minscore": z3.Real("minscore"),
                                                      "total": z3.Int("total")})

    def mem_old(I, env_old, s, d):
        return env_old.fields["items"].mem(s, d)

    def post_remove(I, env):
        # every element except the removed key survives, nothing is invented, heap invariant re-established,
        # minscore is a sound admission threshold afterwards (C05: a document may only be pruned when it cannot enter
        # the top N: 0 while the heap has room, at most the weakest kept score when it is full)
        self_, old = env["self"], I.old_env["self"]
        h, h0 = self_.fields["items"], old.fields["items"]
        neg = -env["global_docnum"]
        s, d = z3.Real("ps"), z3.Int("pd")
        same = z3.ForAll([s, d], h.mem(s, d) == z3.And(h0.mem(s, d), d != neg))
        present = z3.Exists([s], h0.mem(s, neg))
        return [z3.Implies(present, h.is_heap),
                z3.Implies(present, _sound(h, self_.fields["limit"], self_.fields["minscore"])),
                z3.Implies(z3.Not(present), z3.And(h.n == h0.n, self_.fields["minscore"] == old.fields["minscore"])),
                h.wf(), same]
    R.contract(CL + ":TopCollector.remove", props=["C14", "C05"],
               setup=lambda I: {"self": mk(I), "global_docnum": z3.Int("global_docnum")},
               requires=["self.limit >= 1"],   # Searcher.search rejects limit < 1; limit=None uses UnlimitedCollector
               ensures=[lambda I, env: post_remove(I, env)[0], lambda I, env: post_remove(I, env)[1],
                        lambda I, env: post_remove(I, env)[2], lambda I, env: post_remove(I, env)[3],
                        lambda I, env: post_remove(I, env)[4]],
               loops={0: LoopSpec(index="_k", inv=["negated == -global_docnum",
                                                   "self.items.n == old(self.items.n)",
                                                   lambda I, env: _unchanged(I, env),
                                                   lambda I, env: _none_before(I, env)])},
               canaries=[Canary("no-heapify", "heapify(items)", "pass"),
                         Canary("threshold-from-partial-heap", "if len(items) >= self.limit:", "if items:")],
               native_fallback=REMOVE_FALLBACK,
               note="collapse support: removing a superseded document keeps exactly the other elements, restores the "
                    "heap invariant and recomputes the admission threshold")

    def post_collect(I, env):
        self_, old = env["self"], I.old_env["self"]
        h, h0 = self_.fields["items"], old.fields["items"]
        sc = to_z3(env["score"])
        nd = -env["global_docnum"]
        lim = old.fields["limit"]
        s, d = z3.Real("ps"), z3.Int("pd")
        grew = z3.ForAll([s, d], h.mem(s, d) == z3.Or(h0.mem(s, d), z3.And(s == sc, d == nd)))
        replaced = z3.ForAll([s, d], h.mem(s, d) == z3.Or(z3.And(h0.mem(s, d), z3.Not(z3.And(s == h0.sc(0), d == h0.nd(0)))),
                                                            z3.And(s == sc, d == nd)))
        unchanged = z3.ForAll([s, d], h.mem(s, d) == h0.mem(s, d))
        return z3.And(h.is_heap, h.wf(), self_.fields["total"] == old.fields["total"] + 1,
                      z3.If(h0.n < lim, z3.And(grew, h.n == h0.n + 1),
                            z3.If(sc > h0.sc(0), z3.And(replaced, h.n == h0.n),
                                  z3.And(unchanged, h.n == h0.n))),
                      _sound(h, lim, self_.fields["minscore"]))
    R.contract(CL + ":TopCollector._collect", props=["C05", "C14"],
               setup=lambda I: {"self": mk(I), "global_docnum": z3.Int("global_docnum"), "score": z3.Real("score")},
               requires=["self.limit >= 1", "self.items.n <= self.limit",
                         lambda I, env: _sound(env["self"].fields["items"], env["self"].fields["limit"], env["self"].fields["minscore"]),
                         lambda I, env: _newkey(I, env)],
               ensures=[post_collect],
               canaries=[Canary("admits-ties", "elif score > items[0][0]:", "elif score >= items[0][0]:"),
                         Canary("threshold-too-high", "self.minscore = items[0][0]", "self.minscore = score")],
               note="top-N heap: below the limit every document is added; at the limit a document enters iff its score "
                    "is strictly greater than the current minimum (later documents lose ties), evicting exactly that "
                    "minimum; minscore stays a sound pruning threshold (0 while the heap has room, never above the weakest "
                    "kept score)")


def _sound(h, lim, ms):
    return z3.Or(ms == 0, z3.And(h.n >= lim, ms <= h.sc(0)))


def _unchanged(I, env):
    h, h0 = env["self"].fields["items"], I.old_env["self"].fields["items"]
    k = z3.Int("uk")
    return z3.And(h.n == h0.n, h.is_heap == h0.is_heap,
                  z3.ForAll([k], z3.And(h.sc(k) == h0.sc(k), h.nd(k) == h0.nd(k))),
                  env["self"].fields["minscore"] == I.old_env["self"].fields["minscore"])


def _none_before(I, env):
    h = env["self"].fields["items"]
    k = z3.Int("nk")
    return z3.ForAll([k], z3.Implies(z3.And(0 <= k, k < env["_k"]), h.nd(k) != -env["global_docnum"]))


def _newkey(I, env):
    h = env["self"].fields["items"]
    k = z3.Int("wk")
    return z3.ForAll([k], z3.Implies(z3.And(0 <= k, k < h.n), h.nd(k) != -env["global_docnum"]))


def register_matches(R):
    """C05 — ScoredCollector.matches: the generator that drives a scored search may replace the matcher and skip blocks
    by quality; whatever it does NOT hand to the collector must score at most the collector's threshold.

    Ghost: Y = set of ids yielded so far.  Between two yields the consumer (collect_matches) collects the yielded
    document, which can only RAISE self.minscore (TopCollector._collect, proved above).  With m0 the matcher at entry:
        lost(s)  :=  s was in m0's remaining list, has not been yielded and is no longer in the current matcher's
                     remaining list
        invariant:  lost(s)  =>  score0(s) <= self.minscore         (and nothing is lost when quality is not in use)
    At exhaustion every posting was either collected or scores <= the final threshold, so the top N are unchanged."""
    from pyvc.theories.cursor import Cursor, INF, mem, score_at, pos, minv, _real
    from pyvc.theories.trace import Recorder
    IntS, BoolS = z3.IntSort(), z3.BoolSort()

    def mkself(I, quality=True, **kw):
        m0 = Cursor(I, "m")
        weighting = Recorder("weighting", attrs={"use_final": False})
        top = Recorder("top_searcher", attrs={"weighting": weighting})
        o = Obj(I.repo.klass(CL, "TopCollector"),
                {"matcher": m0, "minscore": z3.Real("minscore0"), "replace": z3.Int("replace"), "replaced_times": z3.Int("rt"),
                 "skipped_times": z3.Int("st"), "usequality": quality, "top_searcher": top, "limit": z3.Int("limit"),
                 "items": HeapList(I, "items"), "total": z3.Int("total")})
        I.ghost["Y"] = z3.K(IntS, z3.BoolVal(False))
        I.ghost["m0"] = m0
        I.ghost["pos0"] = m0.cur
        I.ghost["quality"] = quality
        I.assume(o.fields["minscore"] >= 0)
        I.assume(o.fields["replace"] >= 0)
        return {"self": o}

    def rem0(I, s):
        m0 = I.ghost["m0"]
        return z3.And(m0.S(s), s >= I.ghost["pos0"])

    def rem(m, s):
        return z3.And(m.S(s), s >= m.cur)

    def inv(I, env):
        o = env["self"]
        m = env["matcher"]
        m0 = I.ghost["m0"]
        Y = I.ghost["Y"]
        ms = _real(o.fields["minscore"])
        local = _real(env["minscore"])
        uq = I.truth(env["usequality"])
        uq = z3.BoolVal(uq) if isinstance(uq, bool) else uq
        s = z3.Int(I.fresh_name("s"))
        lost = z3.And(rem0(I, s), z3.Not(z3.Select(Y, s)), z3.Not(rem(m, s)))
        return [z3.And(m.wf(m.cur), local <= ms, local >= 0),
                z3.ForAll([s], z3.Implies(rem(m, s), rem0(I, s))),
                z3.ForAll([s], z3.Implies(lost, m0.sc(s) <= ms)),
                # with the collector's quality switch off nothing is ever dropped and scores are untouched
                z3.BoolVal(True) if I.ghost["quality"] else z3.And(z3.Not(uq), z3.ForAll([s], z3.Not(lost))),
                z3.ForAll([s], z3.Implies(z3.Select(Y, s), z3.And(rem0(I, s), s < m.cur))),
                z3.ForAll([s], z3.Implies(rem(m, s), z3.Or(m.sc(s) == m0.sc(s),
                                                           z3.And(z3.BoolVal(bool(I.ghost["quality"])), m0.sc(s) <= ms, m.sc(s) <= ms)))),
                z3.Implies(uq, m.sbq)]

    def post(I, env):
        o = env["self"]
        m0 = I.ghost["m0"]
        Y = I.ghost["Y"]
        ms = _real(o.fields["minscore"])
        s = z3.Int(I.fresh_name("s"))
        return z3.ForAll([s], z3.Implies(z3.And(rem0(I, s), z3.Not(z3.Select(Y, s))), m0.sc(s) <= ms))

    def post_yielded(I, env):
        Y = I.ghost["Y"]
        s = z3.Int(I.fresh_name("s"))
        return z3.ForAll([s], z3.Implies(z3.Select(Y, s), rem0(I, s)))

    state = {}

    def fresh_matcher(I):
        state["m"] = Cursor(I, "mh")
        return state["m"]

    def set_add(I, Y, y):
        return z3.Store(Y, to_z3(y), z3.BoolVal(True))

    def raised(I, v):
        nv = z3.Real(I.fresh_name("minscore"))
        I.assume(nv >= _real(v))
        return nv

    R.contract(CL + ":ScoredCollector.matches", props=["C05", "C01"], setup=mkself, variants=[dict(quality=True), dict(quality=False)],
               spec_funcs={"set_add": SpecFn("set_add", set_add), "raised": SpecFn("raised", raised)},
               requires=["minv(self.matcher)"],
               on_yield="Y = set_add(Y, _y)\nself.minscore = raised(self.minscore)\n",
               ensures=[post, post_yielded],
               loops={0: LoopSpec(inv=[(lambda I, env, k=k: inv(I, env)[k]) for k in range(7)] + ["matcher is self.matcher"], havoc=["Y"],
                                  havoc_as={"matcher": fresh_matcher, "self.matcher": lambda I: state["m"]},
                                  modifies=["self.minscore", "self.replaced_times", "self.skipped_times"])},
               canaries=[Canary("prunes-without-quality", "rq = minscore or 0 if usequality else 0", "rq = minscore or 0"),
                         Canary("threshold-from-the-future", "rq = minscore or 0 if usequality else 0", "rq = (minscore or 0) + 1 if usequality else 0"),
                         Canary("yields-a-non-member", "yield matcher.id()", "yield matcher.id() + 1"),
                         Canary("skips-by-current-threshold-plus", "matcher.skip_to_quality(minscore)", "matcher.skip_to_quality(minscore + 1)")],
               note="everything the generator does not yield scores at most the collector's (monotonically rising) threshold; "
                    "without quality support nothing is dropped at all")


def register_filter(R):
    """C14 / C01 — FilterCollector: `filter=` and `mask=` restrict what reaches the wrapped collector to

        PASS(d)  :=  (allow is None or d in allow) and (restrict is None or d not in restrict)          d = offset + sub_docnum

    collect_matches(): of the child's matches M(0..n) exactly those with PASS are handed to child.collect, each once, in
    order; filtered_count grows by the number of the others.  all_ids(): yields exactly the passing ids of child.all_ids().
    Ghost: KEPT(i) = number of passing matches among the first i (defining equation instantiated where mentioned); the child
    stub knows which match the loop is on and asserts that collect() gets that match and that it passes."""
    from pyvc.values import Abstract, SpecFn
    IntS, BoolS = z3.IntSort(), z3.BoolSort()
    M = z3.Function("fc_match", IntS, IntS)
    ALLOW = z3.Function("fc_allow", IntS, BoolS)
    RESTRICT = z3.Function("fc_restrict", IntS, BoolS)
    KEPT = z3.Function("fc_kept", IntS, IntS)

    class IdSet(Abstract):
        def __init__(self, fn):
            self.fn = fn

        def havoc(self, I):
            pass

        def is_none(self, I):
            return False

        def contains(self, I, x):
            return self.fn(to_z3(x))

    class Matches(Abstract):
        def __init__(self, I, child):
            self.child = child
            self.n = z3.Int(I.fresh_name("nmatches"))
            I.assume(self.n >= 0)

        def havoc(self, I):
            pass

        def __deepcopy__(self, memo):
            return self

        def a_n(self, I):
            return self.n

        def iter_protocol(self, I):
            def get(i):
                self.child.cur = to_z3(i)
                return M(to_z3(i))
            return 0, self.n, 1, get

    class Child(Abstract):
        def __init__(self, I, passes):
            self.passes = passes             # python function id -> z3 Bool
            self.cur = z3.IntVal(-1)
            self.ncollected = z3.IntVal(0)
            self.forwarded = False
            self.seq = Matches(I, self)

        def havoc(self, I):
            self.ncollected = z3.Int(I.fresh_name("ncollected"))

        def m_matches(self, I):
            return self.seq

        def m_all_ids(self, I):
            return self.seq

        def m_collect(self, I, sub_docnum):
            I.oblige("assert", "collect-the-current-passing-match",
                     z3.And(to_z3(sub_docnum) == M(self.cur), self.passes(I.ghost["fc_offset"] + M(self.cur))),
                     note="child.collect() is given the match the loop is on, and only when that document passes filter and mask")
            self.ncollected = self.ncollected + 1

        def m_collect_matches(self, I):
            self.forwarded = True

    def mk(I, allow, restrict, gen=False):
        def passes(d):
            cs = []
            if allow:
                cs.append(ALLOW(d))
            if restrict:
                cs.append(z3.Not(RESTRICT(d)))
            return z3.And(*cs) if cs else z3.BoolVal(True)
        child = Child(I, passes)
        off = z3.IntVal(0) if gen else z3.Int("offset")
        I.ghost["fc_offset"] = off
        I.ghost["fc_passes"] = passes
        I.ghost["fc_child"] = child
        I.assume(KEPT(0) == 0)
        fields = {"child": child, "_allow": IdSet(ALLOW) if allow else None, "_restrict": IdSet(RESTRICT) if restrict else None,
                  "filtered_count": z3.Int("filtered0"), "offset": off}
        return {"self": Obj(I.repo.klass(CL, "FilterCollector"), fields), "allow": allow, "restrict": restrict}

    def kept(I, i):
        i = to_z3(i)
        I.assume(KEPT(i + 1) == KEPT(i) + z3.If(I.ghost["fc_passes"](I.ghost["fc_offset"] + M(i)), 1, 0))
        return KEPT(i)

    def cm_inv(I, env):
        ch = I.ghost["fc_child"]
        k = to_z3(env["_k"])
        return z3.And(ch.ncollected == kept(I, k), to_z3(env["filtered_count"]) == to_z3(I.old_env["self"].fields["filtered_count"]) + k - kept(I, k),
                      k <= ch.seq.n)

    def cm_post(I, env):
        ch = I.ghost["fc_child"]
        n = ch.seq.n
        if not env["allow"] and not env["restrict"]:
            return z3.And(z3.BoolVal(ch.forwarded), ch.ncollected == 0,
                          env["self"].fields["filtered_count"] == I.old_env["self"].fields["filtered_count"])
        return z3.And(z3.BoolVal(not ch.forwarded), ch.ncollected == kept(I, n),
                      env["self"].fields["filtered_count"] == I.old_env["self"].fields["filtered_count"] + n - kept(I, n))

    variants = [dict(allow=True, restrict=False), dict(allow=False, restrict=True), dict(allow=True, restrict=True),
                dict(allow=False, restrict=False)]
    R.contract(CL + ":FilterCollector.collect_matches", props=["C14", "C01"], setup=mk, variants=variants,
               ensures=[cm_post],
               loops={0: LoopSpec(index="_k", inv=[cm_inv], modifies=["self.child", "filtered_count"])},
               canaries=[Canary("mask-inverted", "global_docnum in _restrict", "global_docnum not in _restrict"),
                         Canary("filter-inverted", "global_docnum not in _allow", "global_docnum in _allow"),
                         Canary("offset-forgotten", "global_docnum = self.offset + sub_docnum", "global_docnum = sub_docnum"),
                         Canary("filtered-not-counted", "filtered_count += 1", "pass"),
                         Canary("collected-twice", "child.collect(sub_docnum)", "child.collect(sub_docnum); child.collect(sub_docnum)")],
               note="filter / mask: exactly the matches inside the allow set and outside the restrict set reach the wrapped "
                    "collector (once, in order); filtered_count counts the others; with neither set the call is forwarded")

    def ids_post(I, env):
        ch = I.ghost["fc_child"]
        return z3.And(I.ghost["ok"] if not isinstance(I.ghost["ok"], bool) else z3.BoolVal(I.ghost["ok"]),
                      to_z3(I.ghost["ny"]) == kept(I, ch.seq.n))

    def good_yield(I, y, i):
        return z3.And(to_z3(y) == M(to_z3(i)), I.ghost["fc_passes"](M(to_z3(i))))

    R.contract(CL + ":FilterCollector.all_ids", props=["C14", "C01"], setup=lambda I, allow, restrict: mk(I, allow, restrict, gen=True),
               variants=variants,
               spec_funcs={"good_yield": SpecFn("good_yield", good_yield), "kept": SpecFn("kept", kept)},
               ghost="ok = True\nny = 0\n",
               on_yield="ok = ok and good_yield(_y, _k)\nny = ny + 1\n",
               ensures=[ids_post],
               loops={0: LoopSpec(index="_k", inv=["ok", "ny == kept(_k)", lambda I, env: to_z3(env["_k"]) <= I.ghost["fc_child"].seq.n],
                                  havoc=["ok", "ny"])},
               canaries=[Canary("mask-inverted", "global_docnum in _restrict", "global_docnum not in _restrict"),
                         Canary("filter-inverted", "global_docnum not in _allow", "global_docnum in _allow")],
               note="all_ids() under filter / mask yields exactly the passing ids of the wrapped collector, each once, in order")
