"""C05 / C14 — TopCollector's heap bookkeeping (whoosh.collectors) against the heap-list theory."""
import z3
from pyvc.contract import Canary, LoopSpec
from pyvc.values import Obj, SpecFn
from pyvc.theories.heap import HeapList, lex_le
from pyvc.ops import to_z3

CL = "whoosh.collectors"

REMOVE_FALLBACK = """
# bounded stand-in (class B) for TopCollector.remove when its body leaves the verified subset: EXHAUSTIVE over
# every insertion order of n <= 7 distinct scores and every victim: after remove() the list must hold exactly the
# other elements, satisfy the heapq invariant, and minscore must be the minimum
import sys, itertools
from whoosh.collectors import TopCollector
for n in range(1, 8):
    for perm in itertools.permutations(range(1, n + 1)):
        for victim in range(n):
            tc = TopCollector(limit=n); tc.items = []; tc.minscore = 0; tc.total = 0
            for d, sc in enumerate(perm):
                tc._collect(d, float(sc))
            tc.remove(victim)
            it = tc.items
            exp = sorted((float(sc), -d) for d, sc in enumerate(perm) if d != victim)
            heap_ok = all(it[(i - 1) // 2] <= it[i] for i in range(1, len(it)))
            ms_ok = tc.minscore == (min(it)[0] if it else 0)
            if sorted(it) != exp or not heap_ok or not ms_ok:
                print("after collecting scores %r and remove(%d): items=%r heap_ok=%s minscore=%r" % (perm, victim, it, heap_ok, tc.minscore)); sys.exit(1)
sys.exit(0)
"""


def register(R, tier="quick"):
    def mk(I, **kw):
        items = HeapList(I, "items")
        I.assume(items.is_heap)
        return Obj(I.repo.klass(CL, "TopCollector"), {"items": items, "limit": z3.Int("limit"), "minscore": z3.Real("minscore"),
                                                      "total": z3.Int("total")})

    def mem_old(I, env_old, s, d):
        return env_old.fields["items"].mem(s, d)

    def post_remove(I, env):
        # every element except the removed key survives, nothing is invented, heap invariant re-established,
        # minscore is the new minimum (0 for an empty heap)
        self_, old = env["self"], I.old_env["self"]
        h, h0 = self_.fields["items"], old.fields["items"]
        neg = -env["global_docnum"]
        s, d = z3.Real("ps"), z3.Int("pd")
        same = z3.ForAll([s, d], h.mem(s, d) == z3.And(h0.mem(s, d), d != neg))
        present = z3.Exists([s], h0.mem(s, neg))
        return [z3.Implies(present, h.is_heap),
                z3.Implies(present, self_.fields["minscore"] == z3.If(h.n > 0, h.sc(0), 0)),
                z3.Implies(z3.Not(present), z3.And(h.n == h0.n, self_.fields["minscore"] == old.fields["minscore"])),
                h.wf(), same]
    R.contract(CL + ":TopCollector.remove", props=["C14", "C05"],
               setup=lambda I: {"self": mk(I), "global_docnum": z3.Int("global_docnum")},
               ensures=[lambda I, env: post_remove(I, env)[0], lambda I, env: post_remove(I, env)[1],
                        lambda I, env: post_remove(I, env)[2], lambda I, env: post_remove(I, env)[3],
                        lambda I, env: post_remove(I, env)[4]],
               loops={0: LoopSpec(index="_k", inv=["items is self.items", "negated == -global_docnum",
                                                   "self.items.n == old(self.items.n)",
                                                   lambda I, env: _unchanged(I, env),
                                                   lambda I, env: _none_before(I, env)])},
               canaries=[Canary("no-heapify", "heapify(items)", "pass"),
                         Canary("minscore-not-updated", "self.minscore = items[0][0] if items else 0", "pass")],
               native_fallback=REMOVE_FALLBACK,
               note="collapse support: removing a superseded document keeps exactly the other elements, restores the "
                    "heap invariant and recomputes the admission threshold")

    def post_collect(I, env):
        self_, old = env["self"], I.old_env["self"]
        h, h0 = self_.fields["items"], old.fields["items"]
        sc = to_z3(env["score"])
        nd = -env["global_docnum"]
        lim = old.fields["limit"]
        s, d = z3.Real("ps"), z3.Int("pd")
        grew = z3.ForAll([s, d], h.mem(s, d) == z3.Or(h0.mem(s, d), z3.And(s == sc, d == nd)))
        replaced = z3.ForAll([s, d], h.mem(s, d) == z3.Or(z3.And(h0.mem(s, d), z3.Not(z3.And(s == h0.sc(0), d == h0.nd(0)))),
                                                            z3.And(s == sc, d == nd)))
        unchanged = z3.ForAll([s, d], h.mem(s, d) == h0.mem(s, d))
        return z3.And(h.is_heap, h.wf(), self_.fields["total"] == old.fields["total"] + 1,
                      z3.If(h0.n < lim, z3.And(grew, h.n == h0.n + 1),
                            z3.If(sc > h0.sc(0), z3.And(replaced, h.n == h0.n, self_.fields["minscore"] == h.sc(0)),
                                  z3.And(unchanged, h.n == h0.n))))
    R.contract(CL + ":TopCollector._collect", props=["C05", "C14"],
               setup=lambda I: {"self": mk(I), "global_docnum": z3.Int("global_docnum"), "score": z3.Real("score")},
               requires=["self.limit >= 1", "self.items.n <= self.limit",
                         lambda I, env: _newkey(I, env)],
               ensures=[post_collect],
               canaries=[Canary("admits-ties", "elif score > items[0][0]:", "elif score >= items[0][0]:"),
                         Canary("minscore-stale", "self.minscore = items[0][0]", "pass")],
               note="top-N heap: below the limit every document is added; at the limit a document enters iff its score "
                    "is strictly greater than the current minimum (later documents lose ties), evicting exactly that "
                    "minimum; minscore is the new minimum")


def _unchanged(I, env):
    h, h0 = env["self"].fields["items"], I.old_env["self"].fields["items"]
    k = z3.Int("uk")
    return z3.And(h.n == h0.n, h.is_heap == h0.is_heap,
                  z3.ForAll([k], z3.And(h.sc(k) == h0.sc(k), h.nd(k) == h0.nd(k))),
                  env["self"].fields["minscore"] == I.old_env["self"].fields["minscore"])


def _none_before(I, env):
    h = env["self"].fields["items"]
    k = z3.Int("nk")
    return z3.ForAll([k], z3.Implies(z3.And(0 <= k, k < env["_k"]), h.nd(k) != -env["global_docnum"]))


def _newkey(I, env):
    h = env["self"].fields["items"]
    k = z3.Int("wk")
    return z3.ForAll([k], z3.Implies(z3.And(0 <= k, k < h.n), h.nd(k) != -env["global_docnum"]))
