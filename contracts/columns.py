"""C08 — row addressing of the fixed-width columns (whoosh.columns: ColumnWriter.fill, FixedBytesColumn, NumericColumn,
StructColumn) against the record-file theory.

Logical column of a writer w over file f that started at f.base:

    L(w, k) = string written at f.base + fixedlen * k     if k < w._count
              w._default                                  otherwise           (for every row k >= 0)

`add(docnum, v)` must turn L into L[docnum := v] and nothing else; the reader opened on (base, length = bytes written)
must return L(docnum) for every row.  Together: each document reads back its own value, a document without a value
reads the default, whatever rows were skipped in between.
"""
import z3
from pyvc.contract import Canary, LoopSpec
from pyvc.values import Obj, ClassRef, Abstract
from pyvc.ops import to_z3
from pyvc.theories.recfile import RecFile, BytesVal, LEN

C = "whoosh.columns"


def _w(env):
    s = env["self"]
    f = s.fields["_dbfile"]
    return s, f, s.fields["_fixedlen"], s.fields["_count"], s.fields["_defaultbytes"]


def wf_writer(I, env):
    s, f, fl, cnt, d = _w(env)
    k = z3.Int("wk")
    return z3.And(cnt >= 0, fl >= 1, LEN(d.vid) == fl, f.wpos == f.base + fl * cnt,
                  z3.ForAll([k], z3.Implies(z3.And(0 <= k, k < cnt), LEN(f.at(f.base + fl * k)) == fl)))


def L(s, k):
    f, fl, cnt, d = s.fields["_dbfile"], s.fields["_fixedlen"], s.fields["_count"], s.fields["_default"]
    return z3.If(k < cnt, f.at(f.base + fl * k), d.vid)


def mk_writer(I, fixedlen=None, cls="FixedBytesColumn.Writer", extra=None):
    f = RecFile(I)
    d = BytesVal.fresh(I, "default")
    fl = z3.IntVal(fixedlen) if fixedlen is not None else z3.Int("fixedlen")
    fields = {"_dbfile": f, "_fixedlen": fl, "_default": d, "_defaultbytes": d, "_count": z3.Int("count")}
    fields.update(extra or {})
    return Obj(I.repo.klass(C, cls), fields)


def register(R, tier="quick"):
    register_varbytes(R)
    lens = [None]            # symbolic fixedlen first; the variants below pin it when the solver needs linear arithmetic
    variants = [dict(fixedlen=n) for n in (1, 2, 4, 8, 5)]

    # ------------------------------------------------------------------ ColumnWriter.fill
    def fill_post(I, env):
        s, f, fl, cnt, d = _w(env)
        f0 = I.old_env["self"].fields["_dbfile"]
        cnt0 = I.old_env["self"].fields["_count"]
        dn = env["docnum"]
        p, k = z3.Int("fp"), z3.Int("fk")
        return [cnt == cnt0,
                f.wpos == f0.wpos + fl * z3.If(dn > cnt0, dn - cnt0, 0),
                z3.ForAll([p], z3.Implies(p < f0.wpos, f.at(p) == f0.at(p))),
                z3.ForAll([k], z3.Implies(z3.And(cnt0 <= k, k < dn), f.at(f.base + fl * k) == d.vid))]

    def fill_inv(I, env):
        s, f, fl, cnt, d = _w(env)
        f0 = I.old_env["self"].fields["_dbfile"]
        cnt0 = I.old_env["self"].fields["_count"]
        j = env["_j"]
        p, k = z3.Int("ip"), z3.Int("ik")
        return z3.And(cnt == cnt0, j <= env["docnum"] - cnt0, f.wpos == f0.wpos + fl * j,
                      z3.ForAll([p], z3.Implies(p < f0.wpos, f.at(p) == f0.at(p))),
                      z3.ForAll([k], z3.Implies(z3.And(cnt0 <= k, k < cnt0 + j), f.at(f.base + fl * k) == d.vid)))

    R.contract(C + ":ColumnWriter.fill", props=["C08"],
               setup=lambda I, fixedlen=None: {"self": mk_writer(I, fixedlen), "docnum": z3.Int("docnum")},
               variants=variants,
               requires=[wf_writer],
               ensures=[lambda I, env: fill_post(I, env)[0], lambda I, env: fill_post(I, env)[1],
                        lambda I, env: fill_post(I, env)[2], lambda I, env: fill_post(I, env)[3]],
               modifies=["self._dbfile"],
               loops={0: LoopSpec(index="_j", inv=[fill_inv], modifies=["self._dbfile"])},
               canaries=[Canary("fills-one-too-few", "for _ in xrange(docnum - self._count):", "for _ in xrange(docnum - self._count - 1):"),
                         Canary("fills-when-not-behind", "if docnum > self._count:", "if docnum >= self._count - 1:")],
               note="rows count .. docnum-1 receive the default record, nothing before them changes, the row counter "
                    "is left to the caller")

    # ------------------------------------------------------------------ FixedBytesColumn.Writer.add
    def add_post(I, env):
        s, f, fl, cnt, d = _w(env)
        s0 = I.old_env["self"]
        k = z3.Int("ak")
        v = env["v"]
        dn = env["docnum"]
        return [z3.ForAll([k], z3.Implies(k >= 0, L(s, k) == z3.If(k == dn, v.vid, L(s0, k)))),
                wf_writer(I, env),
                cnt >= s0.fields["_count"]]

    R.contract(C + ":FixedBytesColumn.Writer.add", props=["C08"],
               setup=lambda I, fixedlen=None: {"self": mk_writer(I, fixedlen), "docnum": z3.Int("docnum"), "v": BytesVal.fresh(I, "v")},
               variants=variants,
               requires=[wf_writer, "docnum >= self._count", "blen(v) == self._fixedlen"],
               ensures=[lambda I, env: add_post(I, env)[0], lambda I, env: add_post(I, env)[1],
                        lambda I, env: add_post(I, env)[2]],
               modifies=["self._dbfile", "self._count"],
               canaries=[Canary("count-not-advanced", "self._count = docnum + 1", "self._count = docnum"),
                         Canary("no-fill", "self.fill(docnum)", "pass")],
               note="the logical column becomes L[docnum := v]: skipped rows read the default, earlier rows are untouched")

    # ------------------------------------------------------------------ FixedBytesColumn.Reader
    def wf_reader(I, env):
        s = env["self"]
        f, fl, cnt, d = s.fields["_dbfile"], s.fields["_fixedlen"], s.fields["_count"], s.fields["_defaultbytes"]
        k = z3.Int("rk")
        return z3.And(fl >= 1, cnt >= 0, s.fields["_basepos"] == f.base, LEN(d.vid) == fl,
                      z3.ForAll([k], z3.Implies(z3.And(0 <= k, k < cnt), LEN(f.at(f.base + fl * k)) == fl)))

    def mk_reader(I, fixedlen):
        f = RecFile(I)
        d = BytesVal.fresh(I, "default")
        return Obj(I.repo.klass(C, "FixedBytesColumn.Reader"),
                   {"_dbfile": f, "_basepos": f.base, "_fixedlen": z3.IntVal(fixedlen), "_default": d, "_defaultbytes": d,
                    "_count": z3.Int("rcount"), "_doccount": z3.Int("doccount")})

    def getitem_post(I, env):
        s = env["self"]
        f, fl, cnt, d = s.fields["_dbfile"], s.fields["_fixedlen"], s.fields["_count"], s.fields["_defaultbytes"]
        dn = env["docnum"]
        return env["result"].vid == z3.If(dn < cnt, f.at(f.base + fl * dn), d.vid)

    R.contract(C + ":FixedBytesColumn.Reader.__getitem__", props=["C08"],
               setup=lambda I, fixedlen: {"self": mk_reader(I, fixedlen), "docnum": z3.Int("docnum")},
               variants=variants,
               requires=[wf_reader, "docnum >= 0"],
               ensures=[getitem_post, "blen(result) == self._fixedlen"],
               returns=lambda I, env: BytesVal.fresh(I, "item"),
               canaries=[Canary("row-offset-off-by-one", "pos = self._basepos + self._fixedlen * docnum",
                                "pos = self._basepos + self._fixedlen * (docnum + 1)"),
                         Canary("base-ignored", "pos = self._basepos + self._fixedlen * docnum", "pos = self._fixedlen * docnum"),
                         Canary("last-row-default", "if docnum >= self._count:", "if docnum >= self._count - 1:")],
               note="row docnum is the record at base + fixedlen*docnum when it was written, the default otherwise")

    # ------------------------------------------------------------------ writer -> reader (relational harness)
    def rt_setup(I, fixedlen):
        w = mk_writer(I, fixedlen)
        return {"w": w, "docnum": z3.Int("docnum"), "v": BytesVal.fresh(I, "v"), "q": z3.Int("q"), "doccount": z3.Int("doccount"),
                "Reader": ClassRef(I.repo.klass(C, "FixedBytesColumn.Reader")), "f": w.fields["_dbfile"],
                "fixedlen": z3.IntVal(fixedlen), "default": w.fields["_default"]}

    def rt_post(I, env):
        w0 = I.old_env["w"]
        return env["x"].vid == z3.If(env["q"] == env["docnum"], env["v"].vid, L(w0, env["q"]))

    R.contract(C + ":FixedBytesColumn.Reader.__init__", label="columns/fixed-roundtrip", props=["C08"],
               setup=rt_setup, variants=variants,
               requires=[lambda I, env: wf_writer(I, {"self": env["w"]}), "docnum >= w._count", "blen(v) == fixedlen", "q >= 0"],
               harness="w.add(docnum, v)\n"
                       "r = Reader(f, f.base, f.tell() - f.base, doccount, fixedlen, default)\n"
                       "x = r[q]\n",
               ensures=[rt_post],
               inline_callees=[C + ":FixedBytesColumn.Reader.__init__"],
               canaries=[Canary("count-from-length", "self._count = length // fixedlen", "self._count = length // fixedlen - 1")],
               note="after any add on a well-formed writer, a reader opened on (base, bytes written) returns the added value "
                    "for that row and the previous logical column for every other row - by induction over the adds, each "
                    "document reads back its own value and rows without a value read the default")

    # ------------------------------------------------------------------ NumericColumn (struct-packed numbers)
    PACK = z3.Function("struct_pack_num", z3.IntSort(), z3.IntSort())        # number -> id of its packed bytes
    UNPACK = z3.Function("struct_unpack_num", z3.IntSort(), z3.IntSort())

    class PackFn(Abstract):
        """struct.Struct('!' + typecode).pack for one number (class A: unpack(pack(x)) == x for x in the typecode's range,
        the packed string has calcsize(typecode) bytes)"""
        def __init__(self, fl):
            self.fl = fl

        def havoc(self, I):
            pass

        def call(self, I, args, kwargs, node=None):
            (x,) = args
            x = to_z3(x)
            r = BytesVal(PACK(x))
            I.assume(LEN(r.vid) == self.fl)
            I.assume(UNPACK(r.vid) == x)
            return r

    class UnpackFn(Abstract):
        def havoc(self, I):
            pass

        def call(self, I, args, kwargs, node=None):
            (b,) = args
            return (UNPACK(b.vid),)

    def Ln(s, k):
        f, fl, cnt = s.fields["_dbfile"], s.fields["_fixedlen"], s.fields["_count"]
        return z3.If(k < cnt, UNPACK(f.at(f.base + fl * k)), to_z3(s.fields["_default"]))

    def mk_nwriter(I, fixedlen):
        f = RecFile(I)
        dflt = z3.Int("default")
        db = BytesVal(PACK(dflt))
        I.assume(LEN(db.vid) == fixedlen)
        I.assume(UNPACK(db.vid) == dflt)
        return Obj(I.repo.klass(C, "NumericColumn.Writer"),
                   {"_dbfile": f, "_fixedlen": z3.IntVal(fixedlen), "_default": dflt, "_defaultbytes": db, "_count": z3.Int("count"),
                    "_pack": PackFn(z3.IntVal(fixedlen))})

    def wf_nwriter(I, env):
        s = env["self"]
        f, fl, cnt, db = s.fields["_dbfile"], s.fields["_fixedlen"], s.fields["_count"], s.fields["_defaultbytes"]
        k = z3.Int("wk")
        return z3.And(cnt >= 0, fl >= 1, LEN(db.vid) == fl, UNPACK(db.vid) == to_z3(s.fields["_default"]),
                      f.wpos == f.base + fl * cnt,
                      z3.ForAll([k], z3.Implies(z3.And(0 <= k, k < cnt), LEN(f.at(f.base + fl * k)) == fl)))

    def nadd_post(I, env):
        s, s0 = env["self"], I.old_env["self"]
        k = z3.Int("ak")
        v, dn = to_z3(env["v"]), env["docnum"]
        return [z3.ForAll([k], z3.Implies(k >= 0, Ln(s, k) == z3.If(k == dn, v, Ln(s0, k)))), wf_nwriter(I, env)]

    nvariants = [dict(fixedlen=n) for n in (1, 2, 4, 8)]
    R.contract(C + ":NumericColumn.Writer.add", props=["C08"],
               setup=lambda I, fixedlen: {"self": mk_nwriter(I, fixedlen), "docnum": z3.Int("docnum"), "v": z3.Int("v")},
               variants=nvariants,
               requires=[wf_nwriter, "docnum >= self._count"],
               ensures=[lambda I, env: nadd_post(I, env)[0], lambda I, env: nadd_post(I, env)[1]],
               modifies=["self._dbfile", "self._count"],
               canaries=[Canary("count-not-advanced", "self._count = docnum + 1", "self._count = docnum"),
                         Canary("fill-one-short", "if docnum > self._count:", "if docnum > self._count + 1:")],
               assumptions=["struct pack/unpack of one number are inverse for values in the typecode's range and produce "
                            "calcsize(typecode) bytes (class A); numbers modelled as integers"],
               note="numeric column: the logical column of numbers becomes L[docnum := v]")

    def mk_nreader(I, fixedlen):
        f = RecFile(I)
        dflt = z3.Int("default")
        db = BytesVal(PACK(dflt))
        I.assume(LEN(db.vid) == fixedlen)
        I.assume(UNPACK(db.vid) == dflt)
        return Obj(I.repo.klass(C, "NumericColumn.Reader"),
                   {"_dbfile": f, "_basepos": f.base, "_fixedlen": z3.IntVal(fixedlen), "_default": dflt, "_defaultbytes": db,
                    "_count": z3.Int("rcount"), "_doccount": z3.Int("doccount"), "_unpack": UnpackFn(), "_reverse": False})

    def ngetitem_post(I, env):
        s = env["self"]
        f, fl, cnt = s.fields["_dbfile"], s.fields["_fixedlen"], s.fields["_count"]
        dn = env["docnum"]
        return to_z3(env["result"]) == z3.If(dn < cnt, UNPACK(f.at(f.base + fl * dn)), to_z3(s.fields["_default"]))

    R.contract(C + ":NumericColumn.Reader.__getitem__", props=["C08"],
               setup=lambda I, fixedlen: {"self": mk_nreader(I, fixedlen), "docnum": z3.Int("docnum")},
               variants=nvariants,
               requires=[wf_reader, "docnum >= 0"],
               ensures=[ngetitem_post], returns="int",
               note="the number unpacked from row docnum's record, or the default number beyond the written rows")
    R.contract(C + ":NumericColumn.Reader.sort_key", props=["C08", "C14"],
               setup=lambda I, fixedlen: {"self": mk_nreader(I, fixedlen), "docnum": z3.Int("docnum")},
               variants=[dict(fixedlen=4)],
               requires=[wf_reader, "docnum >= 0"],
               ensures=[lambda I, env: ngetitem_post(I, env)], returns="int",
               canaries=[Canary("always-negated", "if self._reverse:", "if not self._reverse:")],
               note="sort key of a non-reversed numeric column is the row's own number")

    # reversed sorting: the key of a row is the NEGATED number, and the key a segment WITHOUT a column file hands out for
    # every document (EmptyColumnReader over default_value(reverse)) is the key a column file would give a value-less row
    def mk_nreader_rev(I, fixedlen):
        o = mk_nreader(I, fixedlen)
        o.fields["_reverse"] = z3.Bool("reversed")
        return o

    def nsort_post(I, env):
        s = env["self"]
        f, fl, cnt = s.fields["_dbfile"], s.fields["_fixedlen"], s.fields["_count"]
        dn = env["docnum"]
        v = z3.If(dn < cnt, UNPACK(f.at(f.base + fl * dn)), to_z3(s.fields["_default"]))
        return to_z3(env["result"]) == z3.If(to_z3(s.fields["_reverse"]), 0 - v, v)

    R.contract(C + ":NumericColumn.Reader.sort_key", label=C + ":NumericColumn.Reader.sort_key#reverse", props=["C14", "C08"],
               setup=lambda I, fixedlen: {"self": mk_nreader_rev(I, fixedlen), "docnum": z3.Int("docnum")},
               variants=[dict(fixedlen=4)],
               requires=[wf_reader, "docnum >= 0"],
               ensures=[nsort_post], returns="int",
               canaries=[Canary("reverse-ignored", "if self._reverse:", "if False:")],
               note="sort key = the row's number, negated exactly when the reader was set to reverse; a value-less row gives "
                    "(-)default")
    R.contract(C + ":NumericColumn.default_value", props=["C14", "C08"],
               setup=lambda I: {"self": Obj(I.repo.klass(C, "NumericColumn"), {"_default": z3.Int("cdefault")}), "reverse": z3.Bool("reverse")},
               ensures=[lambda I, env: to_z3(env["result"]) == z3.If(env["reverse"], 0 - env["self"].fields["_default"], env["self"].fields["_default"])],
               returns="int",
               canaries=[Canary("reverse-ignored", "if reverse:", "if False:")],
               note="what a segment without a column file answers for every document equals the sort key a column file gives a "
                    "value-less row (previous contract): (-)default - so the order of value-less documents does not depend on "
                    "whether their segment happens to have a column file")


# ====================================================================== VarBytesColumn (variable-length rows)
class GArr(Abstract):
    """GrowableArray as an abstract list of integers (class A: its re-typing on overflow is covered by the bounded columns
    harness, case VarBytes-offsets-retype): append, extend, len, indexing; `.array` is the list itself."""
    def __init__(self, I, name):
        self.name = name
        self.arr = z3.Array(I.fresh_name(name), z3.IntSort(), z3.IntSort())
        self.n = z3.Int(I.fresh_name("n" + name))
        I.assume(self.n >= 0)

    def havoc(self, I):
        self.arr = z3.Array(I.fresh_name(self.name), z3.IntSort(), z3.IntSort())
        self.n = z3.Int(I.fresh_name("n" + self.name))
        I.assume(self.n >= 0)

    def __deepcopy__(self, memo):
        c = GArr.__new__(GArr)
        c.name, c.arr, c.n = self.name, self.arr, self.n
        return c

    def a_n(self, I):
        return self.n

    def length(self, I):
        return self.n

    def at(self, k):
        return z3.Select(self.arr, to_z3(k))

    def getitem(self, I, idx, node=None):
        idx = to_z3(idx)
        if not I.in_spec and not I.decide(z3.And(idx >= 0, idx < self.n), "index-in-bounds"):
            I.raise_builtin("IndexError", node)
        return z3.Select(self.arr, idx)

    def m_append(self, I, x):
        self.arr = z3.Store(self.arr, self.n, to_z3(x))
        self.n = self.n + 1

    def m_extend(self, I, xs):
        from pyvc.values import SymList
        if not isinstance(xs, SymList):
            from pyvc.values import OutsideSubset
            raise OutsideSubset("GrowableArray.extend of %r" % (xs,))
        new = z3.Array(I.fresh_name(self.name + "_ext"), z3.IntSort(), z3.IntSort())
        k = z3.Int(I.fresh_name("ek"))
        I.assume(z3.ForAll([k], z3.Implies(z3.And(0 <= k, k < self.n), z3.Select(new, k) == z3.Select(self.arr, k))))
        I.assume(z3.ForAll([k], z3.Implies(z3.And(self.n <= k, k < self.n + xs.n), z3.Select(new, k) == z3.Select(xs.arr, k - self.n))))
        self.arr = new
        self.n = self.n + xs.n


def register_varbytes(R):
    V = C + ":VarBytesColumn.Writer."

    def mkw(I):
        f = RecFile(I)
        return Obj(I.repo.klass(C, "VarBytesColumn.Writer"),
                   {"_dbfile": f, "_count": z3.Int("count"), "_lengths": GArr(I, "lengths"), "_offsets": GArr(I, "offsets"),
                    "_offset_base": z3.Int("offset_base"), "allow_offsets": True, "cutoff": z3.Int("cutoff")})

    def parts(s):
        return s.fields["_dbfile"], s.fields["_count"], s.fields["_lengths"], s.fields["_offsets"], s.fields["_offset_base"]

    def wf(I, s):
        """rows 0.._count-1 are described by parallel arrays; offsets are the running sums of the lengths (stated locally:
        each offset is the previous one plus the previous length), the next write position is base + offset_base, and
        the data of a non-empty row is the string written at base + its offset"""
        f, cnt, ln, of, ob = parts(s)
        k = z3.Int("vk")
        return z3.And(cnt >= 0, ln.n == cnt, of.n == cnt, ob >= 0, f.wpos == f.base + ob,
                      z3.ForAll([k], z3.Implies(z3.And(0 <= k, k < cnt), z3.And(ln.at(k) >= 0, of.at(k) >= 0, of.at(k) + ln.at(k) <= ob))),
                      z3.ForAll([k], z3.Implies(z3.And(0 <= k, k + 1 < cnt), of.at(k + 1) == of.at(k) + ln.at(k))),
                      z3.Implies(cnt > 0, z3.And(of.at(0) == 0, ob == of.at(cnt - 1) + ln.at(cnt - 1))),
                      z3.Implies(cnt == 0, ob == 0),
                      z3.ForAll([k], z3.Implies(z3.And(0 <= k, k < cnt, ln.at(k) > 0), LEN(f.at(f.base + of.at(k))) == ln.at(k))))

    def row(s, k, empty):
        """logical row k: the string stored for it, or `empty` when it has none"""
        f, cnt, ln, of, ob = parts(s)
        return z3.If(z3.And(k < cnt, ln.at(k) > 0), f.at(f.base + of.at(k)), empty)

    EMPTY = z3.Int("empty_vid")

    def fill_post(I, env):
        s, s0 = env["self"], I.old_env["self"]
        f, cnt, ln, of, ob = parts(s)
        f0, cnt0, ln0, of0, ob0 = parts(s0)
        dn = env["docnum"]
        k = z3.Int("fk")
        gap = z3.If(dn > cnt0, dn - cnt0, 0)
        return [z3.And(cnt == cnt0, ob == ob0, f.wpos == f0.wpos, f.content == f0.content),
                z3.And(ln.n == ln0.n + gap, of.n == of0.n + gap),
                z3.ForAll([k], z3.Implies(z3.And(0 <= k, k < cnt0), z3.And(ln.at(k) == ln0.at(k), of.at(k) == of0.at(k)))),
                z3.ForAll([k], z3.Implies(z3.And(cnt0 <= k, k < cnt0 + gap), z3.And(ln.at(k) == 0, of.at(k) == ob0)))]

    R.contract(V + "fill", props=["C08"], setup=lambda I: {"self": mkw(I), "docnum": z3.Int("docnum")},
               requires=[lambda I, env: wf(I, env["self"])],
               ensures=[lambda I, env: fill_post(I, env)[0], lambda I, env: fill_post(I, env)[1],
                        lambda I, env: fill_post(I, env)[2], lambda I, env: fill_post(I, env)[3]],
               modifies=["self._lengths", "self._offsets"],
               canaries=[Canary("one-row-gap-not-filled", "if docnum > self._count:", "if docnum > self._count + 1:"),
                         Canary("gap-offsets-zero", "base = self._offset_base", "base = 0")],
               note="rows count .. docnum-1 get length 0 and the current end offset; data and earlier rows are untouched")

    def add_post(I, env):
        s, s0 = env["self"], I.old_env["self"]
        v, dn = env["v"], env["docnum"]
        k = z3.Int("ak")
        newrow = z3.If(LEN(v.vid) > 0, v.vid, EMPTY)
        return [wf(I, s),
                z3.ForAll([k], z3.Implies(k >= 0, row(s, k, EMPTY) == z3.If(k == dn, newrow, row(s0, k, EMPTY))))]

    R.contract(V + "add", props=["C08"], setup=lambda I: {"self": mkw(I), "docnum": z3.Int("docnum"), "v": BytesVal.fresh(I, "v")},
               requires=[lambda I, env: wf(I, env["self"]), "docnum >= self._count", "blen(v) >= 0"],
               ensures=[lambda I, env: add_post(I, env)[0], lambda I, env: add_post(I, env)[1]],
               modifies=["self._dbfile", "self._lengths", "self._offsets", "self._offset_base", "self._count"],
               canaries=[Canary("count-not-advanced", "self._count = docnum + 1", "self._count = docnum"),
                         Canary("offset-after-advance", "self._offsets.append(self._offset_base)", "self._offsets.append(self._offset_base + len(v))"),
                         Canary("base-not-advanced", "self._offset_base += len(v)", "pass"),
                         Canary("no-fill", "self.fill(docnum)", "pass")],
               note="the logical column becomes L[docnum := v] (an empty string reads as the default); lengths and offsets stay "
                    "parallel running sums, so every other row still addresses its own bytes")

    # ---- reader: row k = the bytes at basepos + offsets[k] of length lengths[k]
    def mkr(I):
        f = RecFile(I)
        return Obj(I.repo.klass(C, "VarBytesColumn.Reader"),
                   {"_dbfile": f, "_basepos": f.base, "_lengths": GArr(I, "rlengths"), "_offsets": GArr(I, "roffsets"),
                    "_doccount": z3.Int("doccount")})

    def r_wf(I, env):
        s = env["self"]
        f, ln, of = s.fields["_dbfile"], s.fields["_lengths"], s.fields["_offsets"]
        k = z3.Int("rk")
        return z3.And(ln.n == of.n, env["docnum"] >= 0, env["docnum"] < ln.n,
                      z3.ForAll([k], z3.Implies(z3.And(0 <= k, k < ln.n), z3.And(ln.at(k) >= 0, of.at(k) >= 0))),
                      z3.ForAll([k], z3.Implies(z3.And(0 <= k, k < ln.n, ln.at(k) > 0), LEN(f.at(f.base + of.at(k))) == ln.at(k))))

    def r_post(I, env):
        s = env["self"]
        f, ln, of = s.fields["_dbfile"], s.fields["_lengths"], s.fields["_offsets"]
        dn = env["docnum"]
        res = env["result"]
        if isinstance(res, bytes):       # the literal default returned for an empty row
            return z3.And(z3.BoolVal(res == b""), z3.Not(ln.at(dn) > 0))
        return z3.And(ln.at(dn) > 0, res.vid == f.at(f.base + of.at(dn)))

    R.contract(C + ":VarBytesColumn.Reader.__getitem__", props=["C08"],
               setup=lambda I: {"self": mkr(I), "docnum": z3.Int("docnum")},
               requires=[r_wf], ensures=[r_post], returns=lambda I, env: BytesVal.fresh(I, "item"),
               canaries=[Canary("base-ignored", "return self._dbfile.get(self._basepos + offset, length)", "return self._dbfile.get(offset, length)"),
                         Canary("neighbour-row", "offset = self._offsets[docnum]", "offset = self._offsets[docnum] + 1")],
               note="row docnum is the string stored at basepos + offsets[docnum] (the empty default when its length is 0)")
