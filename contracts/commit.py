"""C02 / C04 / C07 — ordering discipline of the writer's commit / cancel / lock handling (whoosh.writing,
whoosh.index, whoosh.util.filelock) as ghost-trace contracts, plus the generic crash and serialisation lemmas."""
import z3
from pyvc.contract import Canary, LoopSpec
from pyvc.values import Obj, Opaque, PyList, SpecFn, Abstract
from pyvc.theories.trace import Recorder, trace_of

W = "whoosh.writing"
IX = "whoosh.index"


def ev(name):
    def eff(I, env):
        args = tuple(v for k, v in env.items() if k != "self")
        trace_of(I).append(("self", name, args))
    return eff


def register(R, tier="quick"):
    register_ramlock(R)
    SW = W + ":SegmentWriter."
    # ---- call-site contracts: each step of the commit is one event (their own bodies are verified below or are
    # codec/pool code outside this property)
    R.contract(SW + "_merge_segments", label="commit/_merge_segments@callsite", props=["C02"], verify=False,
               effect=ev("_merge_segments"), returns=lambda I, env: PyList([]))
    R.contract(SW + "_finalize_segment", label="commit/_finalize_segment@callsite", props=["C02"], verify=False,
               effect=ev("_finalize_segment"), returns=lambda I, env: Recorder("newsegment"))
    R.contract(SW + "_close_segment", label="commit/_close_segment@callsite", props=["C02"], verify=False,
               effect=ev("_close_segment"))
    R.contract(SW + "_commit_toc", label="commit/_commit_toc@callsite", props=["C02"], verify=False, effect=ev("_commit_toc"))
    R.contract(SW + "_finish", label="commit/_finish@callsite", props=["C02"], verify=False, effect=ev("_finish"))

    def mk_writer(I, **f):
        fields = {"is_closed": False, "_added": z3.Bool("added"), "mergetype": None, "optimize": False, "merge": True}
        fields.update(f)
        return Obj(I.repo.klass(W, "SegmentWriter"), fields)
    R.contract(SW + "commit", props=["C02", "C04"], setup=lambda I: {"self": mk_writer(I), "mergetype": None, "optimize": None, "merge": None},
               ensures=["trace_methods() == ('self._merge_segments', 'self._finalize_segment', 'self._commit_toc', 'self._finish') "
                        "or trace_methods() == ('self._merge_segments', 'self._close_segment', 'self._commit_toc', 'self._finish')",
                        "(count_events('self._finalize_segment') == 1) == self._added"],
               canaries=[Canary("toc-before-segment-closed", "self._commit_toc(finalsegments)\n    self._finish()",
                                "self._finish()\n    self._commit_toc(finalsegments)"),
                         Canary("no-finish", "self._finish()", "pass")],
               note="commit(): segment files are finished/closed BEFORE the TOC is written, the TOC is written exactly "
                    "once, and _finish (lock release) comes last (O2, and the lock bracket of C04)")
    R.contract(SW + "cancel", props=["C02", "C04", "C07"], setup=lambda I: {"self": mk_writer(I)},
               ensures=["trace_methods() == ('self._close_segment', 'self._finish')"],
               canaries=[Canary("cancel-writes-toc", "self._finish()", "self._commit_toc(self.segments)\n    self._finish()")],
               note="cancel(): no TOC is written, the lock is released (via _finish)")
    R.contract(SW + "commit", label=SW + "commit@closed", props=["C04"],
               setup=lambda I: {"self": mk_writer(I, is_closed=True), "mergetype": None, "optimize": None, "merge": None},
               raises={"IndexingError": "True"}, ensures=["False"], ensures_on_raise=["trace_methods() == ()"],
               note="a closed writer cannot commit again (no storage event happens)")

    # ---- _commit_toc: new TOC first, clean-up afterwards, for the writer's generation and the final segment list
    R.contract(IX + ":TOC.write", label="commit/TOC.write@callsite", props=["C02"], verify=False,
               effect=lambda I, env: trace_of(I).append(("toc", "write", (env["self"], env["storage"], env["indexname"]))))
    R.contract(IX + ":clean_files", label="commit/clean_files@callsite", props=["C02"], verify=False,
               effect=lambda I, env: trace_of(I).append(("index", "clean_files", (env["storage"], env["indexname"], env["gen"], env["segments"]))))
    R.contract(IX + ":TOC.__init__", label="commit/TOC.__init__", props=["C02"], verify=False, inline=True)

    def setup_ct(I):
        return {"self": mk_writer(I, schema=Recorder("schema"), generation=z3.Int("generation"), storage=Recorder("storage"),
                                  indexname="MAIN"), "segments": PyList([Recorder("seg1")])}
    R.contract(SW + "_commit_toc", props=["C02", "C03"], setup=setup_ct,
               ensures=["trace_methods() == ('toc.write', 'index.clean_files')",
                        "event_arg('toc.write', 0).generation == self.generation",
                        "event_arg('toc.write', 0).segments is segments",
                        "event_arg('toc.write', 1) is self.storage",
                        "event_arg('index.clean_files', 2) == self.generation",
                        "event_arg('index.clean_files', 3) is segments"],
               canaries=[Canary("clean-before-toc", "toc.write(self.storage, self.indexname)\n    clean_files(self.storage, self.indexname, self.generation, segments)",
                                "clean_files(self.storage, self.indexname, self.generation, segments)\n    toc.write(self.storage, self.indexname)"),
                         Canary("wrong-generation", "toc = TOC(self.schema, segments, self.generation)", "toc = TOC(self.schema, segments, self.generation - 1)")],
               note="O4: files are deleted only AFTER the new TOC is in place, and clean-up is told the generation and "
                    "segment list that were just written")

    # ---- _finish: the lock release is the last storage-visible event
    def setup_fin(I, locked):
        wl = Recorder("writelock") if locked else None
        return {"self": mk_writer(I, _tempstorage=Recorder("tempstorage"), writelock=wl)}
    R.contract(SW + "_finish", props=["C04", "C02"], setup=setup_fin, variants=[dict(locked=True), dict(locked=False)],
               ensures=["self.is_closed == True",
                        "trace_methods() == (('tempstorage.destroy', 'writelock.release') if self.writelock is not None "
                        "else ('tempstorage.destroy',))"],
               canaries=[Canary("lock-not-released", "self.writelock.release()", "pass")],
               note="the write lock is released exactly once, last, and the writer is marked closed")

    # ---- TOC.write: temp file -> content -> close -> rename (O3)
    R.contract("whoosh.fields:ensure_schema", label="commit/ensure_schema@callsite", props=["C02"], verify=False,
               returns=lambda I, env: env["schema"])
    R.contract(IX + ":TOC._filename", label="commit/TOC._filename@callsite", props=["C02"], verify=False,
               returns=lambda I, env: Opaque("tocname"))

    def setup_tw(I):
        stream = Recorder("stream")
        storage = Recorder("storage", returns={"create_file": stream})
        toc = Obj(I.repo.klass(IX, "TOC"), {"schema": Recorder("schema", quiet=["items"]), "generation": z3.Int("generation"),
                                            "segments": PyList([Recorder("seg1")])})
        return {"self": toc, "storage": storage, "indexname": "MAIN"}

    def tw_post(I, env):
        ms = [("%s.%s" % (o, m), a) for (o, m, a) in trace_of(I)]
        names = [m for m, _ in ms]
        ok = names.count("storage.create_file") == 1 and names.count("storage.rename_file") == 1 and names.count("stream.close") == 1
        if ok:
            ic, icl, ir = names.index("storage.create_file"), names.index("stream.close"), names.index("storage.rename_file")
            writes = [i for i, m in enumerate(names) if m.startswith("stream.write")]
            ok = ic < min(writes) and max(writes) < icl < ir and ir == len(names) - 1
            created = ms[ic][1][0]
            src, dst = ms[ir][1][0], ms[ir][1][1]
            ok = ok and src is created and dst is not created
            # the generation and the segment list are what gets written
            wints = [a[0] for m, a in ms if m == "stream.write_int"]
            ok = ok and any(x is env["self"].fields["generation"] for x in wints)
            ok = ok and any(m == "stream.write_pickle" and a[0] is env["self"].fields["segments"] for m, a in ms)
        return z3.BoolVal(bool(ok))
    R.contract(IX + ":TOC.write", props=["C02", "C03"], setup=setup_tw,
               externals={"pickle.dumps": lambda I, args, kw, node: Opaque("pickled"), "time.time": lambda I, args, kw, node: Opaque("now")},
               ensures=[tw_post],
               canaries=[Canary("rename-before-close", "stream.close()\n    storage.rename_file(tempfilename, tocfilename, safe=True)",
                                "storage.rename_file(tempfilename, tocfilename, safe=True)\n    stream.close()"),
                         Canary("writes-toc-in-place", "stream = storage.create_file(tempfilename)", "stream = storage.create_file(tocfilename)")],
               assumptions=["the temporary name '<toc>.<time>' differs from every TOC name and does not match the TOC pattern "
                            "(string fact, discharged separately by cvc5 in design_probes/cvc5_toc_tmpname.smt2)",
                            "os.rename within a directory is atomic w.r.t. process death (class A)"],
               note="O3: the TOC comes into existence only by renaming a temp file that was completely written and closed")

    # ---- IndexWriter.__exit__: cancel iff an exception is in flight
    R.contract(SW + "commit", label="commit/commit@callsite", props=["C07"], verify=False, effect=ev("commit"))
    R.contract(SW + "cancel", label="commit/cancel@callsite", props=["C07"], verify=False, effect=ev("cancel"))

    def setup_exit(I, exc):
        from pyvc.values import ExcValue
        from pyvc.builtins import BUILTINS
        et = None if exc is None else BUILTINS[exc]
        return {"self": mk_writer(I), "exc_type": et, "exc_val": None if exc is None else ExcValue(exc), "exc_tb": None}
    R.by_key[SW + "commit"] = R.contracts["commit/commit@callsite"]
    R.by_key[SW + "cancel"] = R.contracts["commit/cancel@callsite"]
    R.contract(W + ":IndexWriter.__exit__", props=["C07", "C04"], setup=setup_exit,
               variants=[dict(exc=None), dict(exc="ValueError"), dict(exc="KeyboardInterrupt")],
               ensures=["trace_methods() == (('self.commit',) if exc_type is None else ('self.cancel',))"],
               canaries=[Canary("commit-on-error", "if exc_type:", "if not exc_type:")],
               note="leaving a with-block through ANY exception (incl. KeyboardInterrupt/SystemExit) cancels; only a "
                    "normal exit commits")

    # ---- try_for: True only if some call of fn returned true
    class Fn(Abstract):
        def __init__(self):
            self.calls = 0
            self.last = None

        def havoc(self, I):
            self.last = z3.Bool(I.fresh_name("acq"))

        def call(self, I, args, kwargs, node=None):
            self.calls += 1
            self.last = z3.Bool(I.fresh_name("acq"))
            trace_of(I).append(("fn", "call", (self.last,)))
            return self.last

        def a_last(self, I):
            return self.last

    def setup_tf(I):
        return {"fn": Fn(), "timeout": z3.Real("timeout"), "delay": z3.Real("delay")}

    class Clock(object):
        pass
    R.contract("whoosh.util.filelock:try_for", props=["C04"], setup=setup_tf,
               externals={"time.time": lambda I, args, kw, node: I.fresh_real("now"), "time.sleep": lambda I, args, kw, node: None},
               requires=["timeout >= 0"],
               ensures=["result == fn.last", "count_events('fn.call') >= 1"],
               loops={0: LoopSpec(inv=["v == fn.last", "count_events('fn.call') >= 1"], modifies=["fn"])},
               canaries=[Canary("returns-true-on-timeout", "return v", "return True")],
               note="the result is the value of the LAST acquire attempt (so True only if an attempt succeeded); at "
                    "least one attempt is always made, also with timeout 0")

    # ---- generic lemmas (proved once over abstract traces)
    def crash_lemma():
        # per file uninterpreted event times; pre-state consistent for generation g; writer obeys O1-O5
        F = z3.DeclareSort("File")
        created = z3.Function("created", F, z3.IntSort())
        closed = z3.Function("closed", F, z3.IntSort())
        deleted = z3.Function("deleted", F, z3.IntSort())
        ref_old = z3.Function("ref_old", F, z3.BoolSort())
        ref_new = z3.Function("ref_new", F, z3.BoolSort())
        r, T = z3.Ints("rename_time crash_time")
        f = z3.Const("f", F)
        INFTY = z3.Int("never")
        exists_at = lambda x, t: z3.And(created(x) <= t, t < deleted(x))
        complete_at = lambda x, t: closed(x) <= t
        hyp = z3.And(
            INFTY > r, r > 0, INFTY > T,
            # old generation consistent before the transaction (time 0)
            z3.ForAll([f], z3.Implies(ref_old(f), z3.And(created(f) <= 0, closed(f) <= 0))),
            # O1: nothing the old TOC references is created/written again
            # O2: every file of the new generation is closed before the rename
            z3.ForAll([f], z3.Implies(ref_new(f), z3.And(created(f) <= closed(f), closed(f) < r))),
            # O4: deletes of old-referenced files happen after the rename and only if not in the new generation;
            #     nothing the new TOC references is ever deleted
            z3.ForAll([f], z3.Implies(ref_old(f), z3.And(deleted(f) > r, z3.Implies(ref_new(f), deleted(f) == INFTY)))),
            z3.ForAll([f], z3.Implies(ref_new(f), deleted(f) == INFTY)),
            z3.ForAll([f], deleted(f) <= INFTY))
        # reader after a crash at time T selects new TOC iff rename happened (O3/O5)
        sel_new = T >= r
        goal = z3.ForAll([f], z3.And(
            z3.Implies(z3.And(sel_new, ref_new(f)), z3.And(exists_at(f, T), complete_at(f, T))),
            z3.Implies(z3.And(z3.Not(sel_new), ref_old(f)), z3.And(exists_at(f, T), complete_at(f, T)))))
        return [("every crash prefix is old-or-new and complete", z3.Implies(z3.And(hyp, T >= 0), goal))]
    R.lemma("commit/L-crash", ["C02"], crash_lemma,
            note="if a writer's trace satisfies O1-O5 (the ensures above + clean_files' contract), then at every crash "
                 "time the selected TOC is old or new and everything it references exists, closed")

    def serial_lemma():
        l1, u1, l2, u2, r1, r2, rd1, rd2 = z3.Ints("lock1 unlock1 lock2 unlock2 rename1 rename2 read1 read2")
        g = z3.Int("g")
        excl = z3.Or(u1 < l2, u2 < l1)          # the lock is exclusive: bracketed intervals are disjoint
        shape = z3.And(l1 < rd1, rd1 < r1, r1 < u1, l2 < rd2, rd2 < r2, r2 < u2)
        gen_read = lambda t: z3.If(z3.And(r1 < t, r2 < t), g + 2, z3.If(z3.Or(r1 < t, r2 < t), g + 1, g))
        # each writer writes (generation it read) + 1
        w1, w2 = gen_read(rd1) + 1, gen_read(rd2) + 1
        return [("two bracketed writers produce consecutive generations",
                 z3.Implies(z3.And(excl, shape), z3.And(w1 != w2, z3.Or(w1 == g + 1, w2 == g + 1), z3.Or(w1 == g + 2, w2 == g + 2))))]
    R.lemma("commit/L-serial", ["C04"], serial_lemma,
            note="lock < read TOC < rename < unlock for every writer + exclusive lock => commits are serialised and "
                 "each advances the generation by exactly one")

    # ---- SegmentWriter.__init__: the lock is taken BEFORE the TOC is read; generation = read generation + 1
    R.contract("whoosh.util.filelock:try_for", label="commit/try_for@callsite", props=["C04"], verify=False,
               effect=lambda I, env: trace_of(I).append(("lock", "try_for", (env["fn"],))),
               returns=lambda I, env: z3.Bool("acquired"))

    def setup_init(I):
        lock = Recorder("writelock")
        info = Recorder("tocinfo", attrs={"generation": z3.Int("gen_read"), "schema": Recorder("schema"), "segments": PyList([])})
        ix = Recorder("ix", attrs={"storage": Recorder("storage", returns={"temp_storage": Recorder("tempstorage")}), "indexname": "MAIN"},
                      returns={"lock": lock, "_read_toc": info})
        codec = Recorder("codec", attrs={"length_stats": True},
                         returns={"new_segment": Recorder("newsegment", returns={"should_assemble": True})})
        return {"self": Obj(I.repo.klass(W, "SegmentWriter")), "ix": ix, "codec": codec, "timeout": z3.Real("timeout"),
                "delay": z3.Real("delay"), "_lk": True}
    R.by_key["whoosh.util.filelock:try_for"] = R.contracts["commit/try_for@callsite"]
    R.contract(W + ":PostingPool.__init__", label="commit/PostingPool.__init__@callsite", props=["C04"], verify=False)
    R.contract(SW + "_setup_doc_offsets", label="commit/_setup_doc_offsets@callsite", props=["C04"], verify=False)
    R.contract(SW + "__init__", props=["C04", "C02"], setup=setup_init,
               raises={"LockError": "True"},
               ensures=["before('ix.lock', 'lock.try_for')", "before('lock.try_for', 'ix._read_toc')",
                        "count_events('ix._read_toc') == 1",
                        lambda I, env: env["self"].fields["generation"] == z3.Int("gen_read") + 1,
                        "self.is_closed == False",
                        lambda I, env: z3.Bool("acquired"),       # a writer only exists if the lock was really taken
                        lambda I, env: z3.BoolVal(env["self"].fields["writelock"] is env["ix"].returns["lock"])],
               ensures_on_raise=["count_events('ix._read_toc') == 0", "count_events('lock.try_for') == 1"],
               canaries=[Canary("generation-not-advanced", "self.generation = info.generation + 1", "self.generation = info.generation"),
                         Canary("lock-failure-ignored", "raise LockError", "pass")],
               note="O5/C04: the writer reads the TOC only after it holds the write lock; if the lock cannot be taken it "
                    "raises LockError without having read or touched anything")


def register_ramlock(R):
    """C04 on RamStorage: the named lock must be ONE object per name, otherwise every writer acquires its own lock"""
    from pyvc.values import Obj, PyDict
    from pyvc.theories.trace import Recorder
    FS = "whoosh.filedb.filestore"
    n = [0]

    def new_lock(I, args, kw, node):
        n[0] += 1
        return Recorder("lock#%d" % n[0])
    for pre in (False, True):
        def setup(I, pre=pre):
            locks = {}
            if pre:
                locks["WRITELOCK"] = Recorder("lock#existing")
            return {"self": Obj(I.repo.klass(FS, "RamStorage"), {"files": PyDict({}), "locks": PyDict(locks), "folder": ""}),
                    "name": "WRITELOCK"}
        R.contract(FS + ":RamStorage.lock", label="commit/RamStorage.lock-one-per-name" + ("#existing" if pre else ""), props=["C04"],
                   setup=setup, externals={"threading.Lock": new_lock},
                   harness="l1 = self.lock(name)\nl2 = self.lock(name)\n",
                   ensures=["l1 is l2"] + (["l1 is old(self.locks['WRITELOCK'])"] if pre else []),
                   inline_callees=[FS + ":RamStorage.lock"],
                   canaries=[Canary("fresh-lock-per-call", "return self.locks[name]", "return Lock()")] if not pre else [],
                   note="two requests for the lock of one name get the same lock object (so a second writer really contends "
                        "with the first)")
