"""C07 — SegmentWriter.delete_document(docnum, delete): a delete by GLOBAL document number reaches exactly the segment
that owns the number, with the number rebased to that segment, once; a number beyond the committed documents is refused.

`sum(seg.doc_count_all() for seg in self.segments)` is a sum over a segment list of symbolic length: pyvc gives it the
prefix-sum function PS (PS(0) = 0, PS(k+1) = PS(k) + CNT(k)); that PS(n) is the `total` of the writer's offset table
(offsets_ok: offs[0] = 0, offs[k+1] = offs[k] + CNT(k), total = offs[n-1] + CNT(n-1)) needs induction and is the lemma
`layout/offsets-are-prefix-sums` below (base, step and conclusion discharged by z3); the contract uses it through a
checked override of `sum` (the override verifies that the summed element IS CNT(k) over all n segments)."""
import z3
from pyvc.contract import Canary
from pyvc.values import Obj, SymList, SymGen, Builtin, OutsideSubset
from pyvc.ops import to_z3
from pyvc import builtins as B
from pyvc.theories.trace import trace_of
from contracts.layout import CNT, offsets_ok, Readers, SubReader

W = "whoosh.writing"
IntS = z3.IntSort()
TOTAL = z3.Int("total_docs")


def register(R, tier="quick"):
    # ------------------------------------------------------------------ lemma: the offset table is the prefix sums
    def prefix_lemma():
        offs = SymList(z3.Array("pl_offs", IntS, IntS), z3.Int("pl_noffs"), "list")
        n, total, k = z3.Int("pl_n"), z3.Int("pl_total"), z3.Int("pl_k")
        PS = z3.Function("pl_PS", IntS, IntS)

        class _I(object):
            pass
        H1 = z3.And(PS(0) == 0, z3.ForAll([k], z3.Implies(z3.And(0 <= k, k < n), PS(k + 1) == PS(k) + CNT(k))))
        H2 = z3.And(offsets_ok(None, offs, n, total), n >= 0)
        a = offs.arr
        j = z3.Int("pl_j")
        allk = z3.ForAll([j], z3.Implies(z3.And(0 <= j, j < n), z3.Select(a, j) == PS(j)))
        return [("base", z3.Implies(z3.And(H1, H2, n > 0), z3.Select(a, 0) == PS(0))),
                ("step", z3.Implies(z3.And(H1, H2, 0 <= k, k + 1 < n, z3.Select(a, k) == PS(k)), z3.Select(a, k + 1) == PS(k + 1))),
                ("conclusion", z3.Implies(z3.And(H1, H2, allk), z3.If(n > 0, total == PS(n), total == 0)))]

    R.lemma("layout/offsets-are-prefix-sums", ["C07", "C06"], prefix_lemma,
            note="offs[k] = CNT(0) + ... + CNT(k-1) for every k < n (induction on k), hence total = the sum over all segments")

    # ------------------------------------------------------------------ delete_document
    class Segments(Readers):
        def getitem(self, I, idx, node=None):
            idx = to_z3(idx)
            if not I.in_spec and not I.decide(z3.And(idx >= -self.n, idx < self.n), "index-in-bounds"):
                I.raise_builtin("IndexError", node)
            return SubReader(z3.If(idx < 0, idx + self.n, idx))

    def setup(I):
        segs = Segments(I)
        offs = SymList(z3.Array(I.fresh_name("woffs"), IntS, IntS), z3.Int(I.fresh_name("nwoffs")), "list")
        o = Obj(I.repo.klass(W, "SegmentWriter"), {"segments": segs, "_doc_offsets": offs, "is_closed": False})
        return {"self": o, "docnum": z3.Int("docnum"), "delete": z3.Bool("delete")}

    def wf(I, env):
        s = env["self"]
        return z3.And(offsets_ok(I, s.fields["_doc_offsets"], s.fields["segments"].n, TOTAL), s.fields["segments"].n >= 1)

    def checked_sum(I, args, kw, node):
        g = args[0]
        if not isinstance(g, SymGen):
            raise OutsideSubset("sum() of something else than the segment sizes", node)
        r = B.b_sum(I, args, kw, node)
        PS, lo, hi, k, el = I.ghost["last_prefix_sum"]
        segs = I.root_frame.env["self"].fields["segments"]
        same = z3.eq(z3.simplify(el), z3.simplify(CNT(k))) and z3.eq(z3.simplify(to_z3(lo)), z3.IntVal(0)) \
            and z3.eq(z3.simplify(to_z3(hi)), z3.simplify(segs.n))
        I.oblige("assert", "sums-doc_count_all-over-every-segment", z3.BoolVal(bool(same)),
                 note="the sum ranges over all the writer's segments and adds each one's doc_count_all()")
        # lemma layout/offsets-are-prefix-sums: under offsets_ok the prefix-sum function ends at the total
        I.assume(z3.If(hi > lo, PS(hi) == TOTAL, TOTAL == 0))
        I.notes.add("lemma:layout/offsets-are-prefix-sums used for sum(seg.doc_count_all() ...) == total")
        return r

    def post(I, env):
        ev = [a for (o, m, a) in trace_of(I) if o == "segment"]
        if len(ev) != 1 or [m for (o, m, a) in trace_of(I) if o == "segment"] != ["delete_document"]:
            return z3.BoolVal(False)
        idx, local, delete = ev[0]
        s = env["self"]
        a = s.fields["_doc_offsets"].arr
        d = env["docnum"]
        dl = delete if hasattr(delete, "sort") else z3.BoolVal(bool(delete))
        return z3.And(0 <= idx, idx < s.fields["segments"].n, z3.Select(a, idx) <= d, d < z3.Select(a, idx) + CNT(idx),
                      local == d - z3.Select(a, idx), dl == env["delete"])

    R.contract(W + ":SegmentWriter.delete_document", props=["C07", "C06"], setup=setup,
               requires=[wf, "docnum >= 0"],
               raises={"IndexingError": lambda I, env: env["docnum"] >= TOTAL},
               ensures=[post],
               opts={"builtin_override": {"sum": Builtin("sum", checked_sum)}},
               canaries=[Canary("global-number-passed-down", "segment.delete_document(segdocnum, delete=delete)", "segment.delete_document(docnum, delete=delete)"),
                         Canary("undelete-ignored", "segment.delete_document(segdocnum, delete=delete)", "segment.delete_document(segdocnum)"),
                         Canary("last-document-refused", "if docnum >= sum(", "if docnum + 1 >= sum(")],
               note="delete_document(n): exactly one request, to the segment owning n, with n rebased to it and the delete / "
                    "undelete flag passed on; IndexingError exactly for a number beyond the committed documents")

    # ------------------------------------------------------------------ delete_by_term = delete_by_query(Term(field, text))
    def dbt_setup(I):
        calls = []
        I.ghost["dbt_calls"] = calls

        def dbq(I_, args, kw, node):
            calls.append((tuple(args), dict(kw)))
            return z3.Int("dbq_deleted")
        o = Obj(I.repo.klass(W, "IndexWriter"), {"delete_by_query": Builtin("delete_by_query", dbq)})
        from pyvc.values import Opaque
        return {"self": o, "fieldname": z3.Int("dbt_field"), "text": z3.Int("dbt_text"), "searcher": Opaque("searcher")}

    def dbt_post(I, env):
        calls = I.ghost["dbt_calls"]
        if len(calls) != 1:
            return z3.BoolVal(False)
        args, kw = calls[0]
        q = args[0] if args else kw.get("q")
        srch = kw.get("searcher", args[1] if len(args) > 1 else None)
        if not isinstance(q, Obj) or q.cls.qualname.split(".")[-1] != "Term" or srch is not env["searcher"]:
            return z3.BoolVal(False)
        return z3.And(to_z3(q.fields["fieldname"]) == env["fieldname"], to_z3(q.fields["text"]) == env["text"],
                      to_z3(q.fields.get("boost", 1.0)) == 1, to_z3(env["result"]) == z3.Int("dbq_deleted"))

    R.contract(W + ":IndexWriter.delete_by_term", props=["C07"], setup=dbt_setup, ensures=[dbt_post], returns="int",
               canaries=[Canary("searcher-dropped", "return self.delete_by_query(q, searcher=searcher)", "return self.delete_by_query(q)"),
                         Canary("count-lost", "return self.delete_by_query(q, searcher=searcher)", "self.delete_by_query(q, searcher=searcher)\n    return 0")],
               note="delete_by_term(f, t) is delete_by_query(Term(f, t)) on the given searcher (whose contract: exactly the "
                    "documents docs_for_query yields, once each), and returns its count")

    # ------------------------------------------------------------------ MultiReader.doc_count_all = the end of the offset table
    from contracts.layout import mk_multi, wf_multi

    def checked_sum_readers(I, args, kw, node):
        g = args[0]
        if not isinstance(g, SymGen):
            raise OutsideSubset("sum() of something else than the reader sizes", node)
        r = B.b_sum(I, args, kw, node)
        PS, lo, hi, k, el = I.ghost["last_prefix_sum"]
        s = I.root_frame.env["self"]
        same = z3.eq(z3.simplify(el), z3.simplify(CNT(k))) and z3.eq(z3.simplify(to_z3(lo)), z3.IntVal(0)) \
            and z3.eq(z3.simplify(to_z3(hi)), z3.simplify(s.fields["readers"].n))
        I.oblige("assert", "sums-doc_count_all-over-every-reader", z3.BoolVal(bool(same)))
        base = to_z3(s.fields["base"])
        I.assume(z3.If(hi > lo, PS(hi) == base, base == 0))      # lemma layout/offsets-are-prefix-sums
        I.notes.add("lemma:layout/offsets-are-prefix-sums used for sum(dr.doc_count_all() ...) == base")
        return r

    R.contract("whoosh.reading:MultiReader.doc_count_all", props=["C06", "C07"], setup=lambda I: {"self": mk_multi(I)},
               requires=[wf_multi], ensures=[lambda I, env: to_z3(env["result"]) == to_z3(env["self"].fields["base"])], returns="int",
               opts={"builtin_override": {"sum": Builtin("sum", checked_sum_readers)}},
               canaries=[Canary("live-documents-only", "dr.doc_count_all()", "dr.doc_count()")],
               note="the number of document numbers of a multi-segment reader is the end of its offset table: global numbers "
                    "are exactly [0, doc_count_all()), each owned by one segment (the lemma links the sum to the table)")
