"""C19 — whoosh.support.levenshtein.damerau_levenshtein (= `distance`, what terms_within's brute force and FuzzyTerm's
verification use) computes the optimal-string-alignment distance defined by the textbook recurrence

    OSA(i, 0) = i          OSA(0, j) = j
    OSA(i, j) = min( OSA(i-1, j) + 1,  OSA(i, j-1) + 1,  OSA(i-1, j-1) + [a[i-1] != b[j-1]],
                     OSA(i-2, j-2) + 1   if i, j >= 2 and a[i-1] == b[j-2] and a[i-2] == b[j-1] )

for two sequences of ARBITRARY length over an arbitrary alphabet (characters are integers).  The code keeps three rolling
rows and stores column 0 at the END of each row, reached through Python's negative indices; the loop invariants say
which OSA values each row holds.  OSA is an uninterpreted function; its defining equation is instantiated at the cells
the code is about to compute (a recursive definition over the naturals is consistent).
"""
import z3
from pyvc.contract import Canary, LoopSpec
from pyvc.values import SymList, SpecFn
from pyvc.ops import to_z3

LV = "whoosh.support.levenshtein"
IntS = z3.IntSort()
OSA = z3.Function("osa", IntS, IntS, IntS)


def register(R, tier="quick"):
    register_terms_within(R)
    register_expand_prefix(R)
    def mkseq(I, name):
        s = SymList(z3.Array(I.fresh_name(name), IntS, IntS), z3.Int(I.fresh_name("len_" + name)), "list")
        I.assume(s.n >= 0)
        return s

    def setup(I, with_limit=False, **kw):
        a, b = mkseq(I, "a"), mkseq(I, "b")
        i = z3.Int("bi")
        I.assume(z3.ForAll([i], z3.Implies(i >= 0, z3.And(OSA(i, 0) == i, OSA(0, i) == i))))
        lim = None
        if with_limit:
            lim = z3.Int("limit")
            I.assume(lim >= 0)
        return {"seq1": a, "seq2": b, "limit": lim}

    def define_at(I, env, i, j):
        """assume the defining equation of OSA at cell (i, j), i, j >= 1"""
        a, b = env["seq1"].arr, env["seq2"].arr
        i, j = to_z3(i), to_z3(j)
        cost = z3.If(z3.Select(a, i - 1) != z3.Select(b, j - 1), 1, 0)
        m = OSA(i - 1, j) + 1
        for c in (OSA(i, j - 1) + 1, OSA(i - 1, j - 1) + cost):
            m = z3.If(c < m, c, m)
        tr = z3.And(i >= 2, j >= 2, z3.Select(a, i - 1) == z3.Select(b, j - 2), z3.Select(a, i - 2) == z3.Select(b, j - 1))
        m = z3.If(z3.And(tr, OSA(i - 2, j - 2) + 1 < m), OSA(i - 2, j - 2) + 1, m)
        I.assume(z3.Implies(z3.And(i >= 1, j >= 1), OSA(i, j) == m))

    def row_is(I, env, row, x):
        """list `row` holds OSA(x, 1..n2) at 0..n2-1 and OSA(x, 0) = x at index n2"""
        n2 = env["seq2"].n
        k = z3.Int(I.fresh_name("rk"))
        return z3.And(row.n == n2 + 1, z3.Select(row.arr, n2) == x,
                      z3.ForAll([k], z3.Implies(z3.And(0 <= k, k < n2), z3.Select(row.arr, k) == OSA(x, k + 1))))

    def outer_inv(I, env):
        x = env["_x"]
        out = [x <= env["seq1"].n, row_is(I, env, env["thisrow"], x)]
        one = env.get("oneago")
        if isinstance(one, SymList):
            out.append(z3.Implies(x >= 1, row_is(I, env, one, x - 1)))
        else:
            out.append(x == 0)
        return z3.And(*out)

    def inner_inv(I, env):
        x, y = env["x"], env["_y"]
        n2 = env["seq2"].n
        this, one = env["thisrow"], env["oneago"]
        k = z3.Int(I.fresh_name("ik"))
        define_at(I, env, x + 1, y + 1)          # the cell this iteration computes
        define_at(I, env, x, y)                  # its diagonal predecessor (bounds the transposition term)
        out = [y <= n2, this.n == n2 + 1, z3.Select(this.arr, n2) == x + 1,
               z3.ForAll([k], z3.Implies(z3.And(0 <= k, k < y), z3.Select(this.arr, k) == OSA(x + 1, k + 1))),
               row_is(I, env, one, x)]
        two = env.get("twoago")
        if isinstance(two, SymList):
            out.append(z3.Implies(x >= 1, row_is(I, env, two, x - 1)))
        else:
            out.append(x == 0)
        return z3.And(*out)

    def fresh_row(I):
        return SymList(z3.Array(I.fresh_name("row"), IntS, IntS), z3.Int(I.fresh_name("row_n")), "list")

    def hint(I, env):
        i, j = z3.Int("hi"), z3.Int("hj")
        return [env["seq1"].n == 0, env["seq2"].n == 0, z3.ForAll([i, j], OSA(i, j) == i + j)]

    def osa_cell(a, b, i, j):
        """right-hand side of the defining equation at (i, j)"""
        cost = z3.If(z3.Select(a, i - 1) != z3.Select(b, j - 1), 1, 0)
        m = OSA(i - 1, j) + 1
        for c in (OSA(i, j - 1) + 1, OSA(i - 1, j - 1) + cost):
            m = z3.If(c < m, c, m)
        tr = z3.And(i >= 2, j >= 2, z3.Select(a, i - 1) == z3.Select(b, j - 2), z3.Select(a, i - 2) == z3.Select(b, j - 1))
        return z3.If(z3.And(tr, OSA(i - 2, j - 2) + 1 < m), OSA(i - 2, j - 2) + 1, m)

    def rowmin_lemma():
        """Row-minimum lemma (pure fact about OSA, by induction on the row and, inside a row, on the column):
        if every cell of row i (columns 0..n) exceeds L then so does every cell of row i+1.
        base:  OSA(i+1, 0) > L          step:  OSA(i+1, j-1) > L  =>  OSA(i+1, j) > L    (1 <= j <= n)"""
        a, b = z3.Array("la", IntS, IntS), z3.Array("lb", IntS, IntS)
        i, j, n, L, q = z3.Ints("li lj ln lL lq")
        base_ax = z3.ForAll([q], z3.Implies(q >= 0, z3.And(OSA(q, 0) == q, OSA(0, q) == q)))
        P = z3.ForAll([q], z3.Implies(z3.And(0 <= q, q <= n), OSA(i, q) > L))
        defs = z3.And(OSA(i + 1, j) == osa_cell(a, b, i + 1, j),
                      z3.Implies(z3.And(i >= 1, j >= 2), OSA(i, j - 1) == osa_cell(a, b, i, j - 1)))
        return [("base", z3.Implies(z3.And(base_ax, i >= 0, n >= 0, P), OSA(i + 1, 0) > L)),
                ("step", z3.Implies(z3.And(base_ax, i >= 0, 1 <= j, j <= n, defs, P, OSA(i + 1, j - 1) > L), OSA(i + 1, j) > L))]

    R.lemma("editdistance/row-minimum", ["C19"], rowmin_lemma,
            note="every cell of row i above L => every cell of row i+1 above L (base and step of the column induction); "
                 "by induction on rows: once a whole row exceeds the limit, the final distance does")

    WIT = z3.Function("osa_rowmin_witness", IntS, IntS, IntS, IntS)

    def post_limit(I, env):
        n1, n2 = I.old_env["seq1"].n, I.old_env["seq2"].n
        res, L = to_z3(env["result"]), env["limit"]
        loc = I.root_frame.env
        if "x" in loc:
            # instance of the row-minimum lemma (lemma editdistance/row-minimum + induction over the remaining rows) at
            # the row the code was working on: a final distance <= L needs a cell <= L in that row
            x = to_z3(loc["x"])
            w = WIT(x + 1, L, n1)
            I.assume(z3.Implies(z3.And(n1 >= x + 1, OSA(n1, n2) <= L), z3.And(0 <= w, w <= n2, OSA(x + 1, w) <= L)))
        return z3.And(z3.Implies(OSA(n1, n2) <= L, res == OSA(n1, n2)), z3.Implies(OSA(n1, n2) > L, res > L))

    R.contract(LV + ":damerau_levenshtein", label=LV + ":damerau_levenshtein#limit", props=["C19"],
               setup=lambda I: setup(I, with_limit=True), cover_hint=hint,
               ensures=[post_limit],
               loops={0: LoopSpec(index="_x", inv=[outer_inv], havoc_as={"oneago": fresh_row}),
                      1: LoopSpec(index="_y", inv=[inner_inv])},
               canaries=[Canary("early-exit-ignores-first-column", "[0] * len(seq2) + [x + 1]", "[0] * len(seq2) + [limit + 1]"),
                         Canary("early-exit-too-eager", "min(thisrow) > limit", "min(thisrow) >= limit")],
               assumptions=["induction over the remaining rows using lemma editdistance/row-minimum (base and step are "
                            "discharged; the induction principle itself is the trusted step)"],
               note="with a limit: a distance <= limit is returned exactly, a distance > limit is reported as some value > "
                    "limit - so `distance(w, text, limit=maxdist) <= maxdist` (terms_within, FuzzyTerm) is exact")

    R.contract(LV + ":damerau_levenshtein", props=["C19"], setup=setup, cover_hint=hint,
               ensures=[lambda I, env: to_z3(env["result"]) == OSA(I.old_env["seq1"].n, I.old_env["seq2"].n)],
               loops={0: LoopSpec(index="_x", inv=[outer_inv], havoc_as={"oneago": fresh_row}),
                      1: LoopSpec(index="_y", inv=[inner_inv])},
               canaries=[Canary("transposition-guard-weakened", "seq1[x - 1] == seq2[y]", "True"),
                         Canary("transposition-from-previous-row", "twoago[y - 2] + 1", "oneago[y - 2] + 1"),
                         Canary("substitution-free", "oneago[y - 1] + (seq1[x] != seq2[y])", "oneago[y - 1]"),
                         Canary("first-column-off-by-one", "[0] * len(seq2) + [x + 1]", "[0] * len(seq2) + [x]")],
               assumptions=["limit=None (no early exit); the early exit `min(thisrow) > limit` is covered by the bounded "
                            "stand-in only (its soundness needs the row-minimum monotonicity lemma, an induction the solver "
                            "does not do)",
                            "characters are compared as integers (code points); sequences are Python lists/strings with "
                            "negative-index wraparound as modelled in pyvc"],
               note="for all sequences of any length: the value returned is the OSA (restricted Damerau-Levenshtein) distance "
                    "of the textbook recurrence")


def register_terms_within(R):
    """C19 — IndexReader.terms_within (the path every multi-segment reader takes): of the terms the field offers under
    the required prefix, exactly those whose documented distance to `text` is at most maxdist are yielded, each once, in
    the order of the lexicon.  `distance(word, text, limit=maxdist)` is used through the proved contract of
    damerau_levenshtein#limit (exact when <= limit, some value > limit otherwise), stated here over D(i) = the distance of
    the i-th candidate term."""
    from pyvc.values import Abstract, SpecFn, Obj, Opaque, Builtin
    RD = "whoosh.reading"
    TERM = z3.Function("tw_term", IntS, IntS)        # i-th term under the prefix (as bytes)
    WORD = z3.Function("tw_word", IntS, IntS)        # its decoded form
    D = z3.Function("tw_dist", IntS, IntS)           # distance(word_i, text)
    KEPT = z3.Function("tw_kept", IntS, IntS)
    WIDX = z3.Function("tw_index_of_word", IntS, IntS)

    class Terms(Abstract):
        def __init__(self, I):
            self.n = z3.Int(I.fresh_name("nterms"))
            I.assume(self.n >= 0)

        def havoc(self, I):
            pass

        def __deepcopy__(self, memo):
            return self

        def iter_protocol(self, I):
            return 0, self.n, 1, (lambda i: TERM(to_z3(i)))

    class FieldObj(Abstract):
        def havoc(self, I):
            pass

        def m_from_bytes(self, I, b):
            # decoding the i-th term gives the i-th word (TERM is injective on indices by the assumption below)
            return WORD(WIDX(to_z3(b)))

        def m_spelling_fieldname(self, I, fieldname):
            # the field searched is the one holding the unmodified words (the field itself unless it keeps a separate
            # spelling field); which terms that field offers is expand_prefix's business
            I.ghost["tw_spellfield"] = Opaque("spelling field of " + str(fieldname))
            return I.ghost["tw_spellfield"]

    class Schema(Abstract):
        def havoc(self, I):
            pass

        def getitem(self, I, idx, node=None):
            return FieldObj()

    class Text(Abstract):
        def havoc(self, I):
            pass

        def getslice(self, I, lo, hi, step, node=None):
            return Opaque("prefix of text")

    def setup(I):
        terms = Terms(I)
        i = z3.Int("tw_i")
        I.assume(z3.ForAll([i], WIDX(TERM(i)) == i))
        I.assume(KEPT(0) == 0)
        I.ghost["tw_terms"] = terms
        # expand_prefix is a collaborator here (its own behaviour: lexicon order, prefix filter - bounded fuzzy harness)
        def expand(I_, args):
            # the candidates must come from the field's SPELLING field (same as the per-segment reader): asking any other
            # field is a defect (one segment and many segments would disagree)
            I_.oblige("assert", "candidates-from-the-spelling-field", z3.BoolVal(args[0] is I_.ghost.get("tw_spellfield")),
                      note="expand_prefix is asked for the field returned by fieldobj.spelling_fieldname(fieldname)")
            return terms
        rd = Obj(I.repo.klass(RD, "IndexReader"), {"schema": Schema(),
                                                   "expand_prefix": Builtin("expand_prefix", lambda I_, args, kw, node: expand(I_, args))})
        return {"self": rd, "fieldname": Opaque("fieldname"), "text": Text(), "maxdist": z3.Int("maxdist"), "prefix": z3.Int("prefix")}

    def dist_stub(I, args, kw, node):
        # damerau_levenshtein#limit's postcondition at this call: word = WORD(i)
        w = to_z3(args[0])
        lim = to_z3(kw.get("limit", args[2] if len(args) > 2 else None))
        kk = z3.Int(I.fresh_name("dist"))
        i = z3.Int(I.fresh_name("wi"))
        I.assume(z3.ForAll([i], z3.Implies(WORD(i) == w, z3.And(z3.Implies(D(i) <= lim, kk == D(i)), z3.Implies(D(i) > lim, kk > lim)))))
        return kk

    def kept(I, i):
        i = to_z3(i)
        I.assume(KEPT(i + 1) == KEPT(i) + z3.If(D(i) <= to_z3(I.root_frame.env["maxdist"]), 1, 0))
        return KEPT(i)

    def good_yield(I, y, i):
        i = to_z3(i)
        return z3.And(to_z3(y) == WORD(i), D(i) <= to_z3(I.root_frame.env["maxdist"]))

    class ExpandStub(object):
        pass

    def tw_hint(I, env):
        i = z3.Int("twh_i")
        return [z3.ForAll([i], TERM(i) == i), z3.ForAll([i], WIDX(i) == i), z3.ForAll([i], WORD(i) == i), z3.ForAll([i], D(i) == 1),
                z3.ForAll([i], KEPT(i) == i), I.ghost["tw_terms"].n == 1, env["maxdist"] == 1]

    R.contract(RD + ":IndexReader.terms_within", props=["C19"], setup=setup, cover_hint=tw_hint,
               requires=["maxdist >= 0"],
               spec_funcs={"good_yield": SpecFn("good_yield", good_yield), "kept": SpecFn("kept", kept)},
               ghost="ok = True\nny = 0\n",
               on_yield="ok = ok and good_yield(_y, _k)\nny = ny + 1\n",
               ensures=["ok", lambda I, env: to_z3(I.ghost["ny"]) == kept(I, I.ghost["tw_terms"].n)],
               loops={0: LoopSpec(index="_k", inv=["ok", "ny == kept(_k)", lambda I, env: to_z3(env["_k"]) <= I.ghost["tw_terms"].n],
                                  havoc=["ok", "ny"])},
               # `distance` (= damerau_levenshtein) is used through its proved postcondition, restated over D(i)
               opts={"abstract_globals": {(RD, "distance"): lambda I, v: Builtin("distance", dist_stub)}},
               canaries=[Canary("one-edit-too-many", "if k <= maxdist:", "if k <= maxdist + 1:"),
                         Canary("strict-bound", "if k <= maxdist:", "if k < maxdist:"),
                         Canary("unlimited-distance-call", "k = distance(word, text, limit=maxdist)", "k = distance(word, text, limit=maxdist - 1)")],
               assumptions=["expand_prefix(fieldname, text[:prefix]) yields the field's terms that start with the required prefix "
                            "(bounded: fuzzy harness); from_bytes is the field's decoding"],
               note="the brute-force path (every multi-segment reader): a term is yielded iff its distance to the text, as "
                    "computed by the proved damerau_levenshtein with limit=maxdist, is at most maxdist")


def register_expand_prefix(R):
    """C19 / C01 — IndexReader.expand_prefix (what Prefix queries and the brute-force terms_within iterate over): from the
    reader's sorted term sequence starting at (fieldname, prefix) it yields the texts of the INITIAL RUN of terms that belong
    to the field and start with the prefix, each once, in order, and stops at the first term that does not.
    (That this run is ALL such terms is the lexicographic-order fact "strings sharing a prefix are contiguous in a sorted
    list that starts at the prefix" - a string fact, class A.)"""
    from pyvc.values import Abstract, SpecFn, Obj, Opaque, Builtin
    RD = "whoosh.reading"
    FN = z3.Function("ep_field", IntS, IntS)
    HP = z3.Function("ep_has_prefix", IntS, z3.BoolSort())
    FIELD = z3.Int("ep_fieldname")

    class Text(Abstract):
        def __init__(self, i):
            self.i = to_z3(i)

        def havoc(self, I):
            pass

        def m_startswith(self, I, prefix):
            return HP(self.i)

    class Terms(Abstract):
        def __init__(self, I):
            self.n = z3.Int(I.fresh_name("nterms"))
            I.assume(self.n >= 0)

        def havoc(self, I):
            pass

        def __deepcopy__(self, memo):
            return self

        def iter_protocol(self, I):
            return 0, self.n, 1, (lambda i: (FN(to_z3(i)), Text(i)))

    def setup(I):
        terms = Terms(I)
        I.ghost["ep_terms"] = terms
        rd = Obj(I.repo.klass(RD, "IndexReader"), {"terms_from": Builtin("terms_from", lambda I_, a, k, n: terms),
                                                   "_text_to_bytes": Builtin("_text_to_bytes", lambda I_, a, k, n: a[1])})
        return {"self": rd, "fieldname": FIELD, "prefix": Opaque("prefix")}

    def good(i):
        return z3.And(FN(i) == FIELD, HP(i))

    def good_yield(I, y, k):
        k = to_z3(k)
        return z3.And(z3.BoolVal(isinstance(y, Text)), (y.i == k) if isinstance(y, Text) else z3.BoolVal(False), good(k))

    def post(I, env):
        ny = to_z3(I.ghost["ny"])
        n = I.ghost["ep_terms"].n
        j = z3.Int("ep_j")
        ok = I.ghost["ok"]
        ok = z3.BoolVal(ok) if isinstance(ok, bool) else ok
        return z3.And(ok, 0 <= ny, ny <= n, z3.ForAll([j], z3.Implies(z3.And(0 <= j, j < ny), good(j))),
                      z3.Or(ny == n, z3.Not(good(ny))))

    R.contract(RD + ":IndexReader.expand_prefix", props=["C19", "C01"], setup=setup,
               spec_funcs={"good_yield": SpecFn("good_yield", good_yield)},
               ghost="ok = True\nny = 0\n", on_yield="ok = ok and good_yield(_y, _k)\nny = ny + 1\n",
               ensures=[post],
               loops={0: LoopSpec(index="_k", inv=["ok", "ny == _k",
                                                   lambda I, env: z3.And(to_z3(env["_k"]) <= I.ghost["ep_terms"].n,
                                                                         z3.ForAll([z3.Int("ep_i")], z3.Implies(z3.And(0 <= z3.Int("ep_i"), z3.Int("ep_i") < to_z3(env["_k"])),
                                                                                                              good(z3.Int("ep_i")))))],
                                  havoc=["ok", "ny"])},
               canaries=[Canary("other-fields-included", "if fn != fieldname or not text.startswith(prefix):", "if not text.startswith(prefix):"),
                         Canary("continues-past-the-run", "return", "continue")],
               assumptions=["terms_from(fieldname, prefix) is the reader's sorted term sequence from (fieldname, prefix) on (bounded: "
                            "queries / fuzzy harnesses); contiguity of a prefix in sorted order is a string fact (class A)"],
               note="yields exactly the initial run of terms of the field that carry the prefix, in lexicon order, and stops there")

    def good_lex(i):
        return FN(i) == FIELD

    def lex_yield(I, y, k):
        k = to_z3(k)
        return z3.And(z3.BoolVal(isinstance(y, Text)), (y.i == k) if isinstance(y, Text) else z3.BoolVal(False), good_lex(k))

    def lex_post(I, env):
        ny = to_z3(I.ghost["ny"])
        n = I.ghost["ep_terms"].n
        j = z3.Int("lx_j")
        ok = I.ghost["ok"]
        ok = z3.BoolVal(ok) if isinstance(ok, bool) else ok
        return z3.And(ok, 0 <= ny, ny <= n, z3.ForAll([j], z3.Implies(z3.And(0 <= j, j < ny), good_lex(j))),
                      z3.Or(ny == n, z3.Not(good_lex(ny))))

    R.contract(RD + ":IndexReader.lexicon", props=["C10", "C06"], setup=lambda I: dict((k, v) for k, v in setup(I).items() if k != "prefix"),
               spec_funcs={"good_yield": SpecFn("good_yield", lex_yield)},
               ghost="ok = True\nny = 0\n", on_yield="ok = ok and good_yield(_y, _k)\nny = ny + 1\n",
               ensures=[lex_post],
               loops={0: LoopSpec(index="_k", inv=["ok", "ny == _k",
                                                   lambda I, env: z3.And(to_z3(env["_k"]) <= I.ghost["ep_terms"].n,
                                                                         z3.ForAll([z3.Int("lx_i")], z3.Implies(z3.And(0 <= z3.Int("lx_i"), z3.Int("lx_i") < to_z3(env["_k"])),
                                                                                                              good_lex(z3.Int("lx_i")))))],
                                  havoc=["ok", "ny"])},
               canaries=[Canary("runs-into-the-next-field", "return", "continue")],
               note="lexicon(field) yields the texts of the initial run of the reader's term sequence that belong to the field "
                    "(all of the field's terms, the sequence being sorted by field first), each once, in order")
