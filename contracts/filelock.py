"""C04 — the file lock primitive's own discipline (whoosh.util.filelock.FcntlLock), as ordering contracts over a ghost
trace of the operating-system calls it makes (os.open / fcntl.flock / os.close are class A: flock is exclusive per open
file description, a descriptor number is free for reuse once closed).

acquire():  opens the lock file, asks for an EXCLUSIVE lock on that descriptor (non-blocking unless asked to block);
            granted  -> True, locked, the descriptor is kept;
            refused (EAGAIN / EACCES) -> False, the descriptor is closed AND FORGOTTEN (a refused lock object owns no
            descriptor: releasing or finalising it later must not touch a number that may have been reused);
            any other error propagates.
release():  explicitly unlocks the descriptor BEFORE closing it (the lock belongs to the open file description, which a
            forked child may share: closing alone would leave the index locked), then forgets it; releasing a lock that
            is not held raises."""
import z3
from pyvc.contract import Canary
from pyvc.values import Obj, Opaque, ExcValue, RaiseSig
from pyvc.theories.trace import trace_of

M = "whoosh.util.filelock"
FD = z3.Int("lock_fd")


def register(R, tier="quick"):
    def ext(outcome):
        def x_open(I, args, kw, node):
            trace_of(I).append(("os", "open", tuple(args)))
            I.assume(FD >= 0)
            return FD

        def x_close(I, args, kw, node):
            trace_of(I).append(("os", "close", tuple(args)))
            return None

        def x_flock(I, args, kw, node):
            trace_of(I).append(("fcntl", "flock", tuple(args)))
            if outcome == "granted" or args[1] == 8:
                return None
            e = ExcValue("IOError", ())
            e.attrs = {"errno": 11 if outcome == "refused" else 5}
            raise RaiseSig(e, node)
        return {"os.open": x_open, "os.close": x_close, "fcntl.flock": x_flock}

    def mk(I, fd=None):
        return Obj(I.repo.klass(M, "FcntlLock"), {"fd": fd, "filename": Opaque("lock file name"), "locked": False})

    def names(I):
        return tuple("%s.%s" % (o, m) for (o, m, a) in trace_of(I))

    def arg(I, i, k):
        return trace_of(I)[i][2][k]

    def same(a, b):
        return z3.BoolVal(a is b) if not (hasattr(a, "sort") and hasattr(b, "sort")) else a == b

    K = M + ":FcntlLock."

    def acq_granted(I, env):
        f = env["self"].fields
        ok = names(I) == ("os.open", "fcntl.flock")
        if not ok:
            return z3.BoolVal(False)
        mode = arg(I, 1, 1)
        blocking = env["blocking"]
        want = z3.If(blocking, 2, 6) if hasattr(blocking, "sort") else (2 if blocking else 6)
        return z3.And(same(arg(I, 1, 0), FD), z3.IntVal(mode) == want if isinstance(mode, int) else mode == want,
                      z3.BoolVal(env["result"] is True), z3.BoolVal(f["locked"] is True), same(f["fd"], FD))

    def acq_refused(I, env):
        f = env["self"].fields
        ok = names(I) == ("os.open", "fcntl.flock", "os.close")
        if not ok:
            return z3.BoolVal(False)
        return z3.And(same(arg(I, 2, 0), FD), z3.BoolVal(env["result"] is False), z3.BoolVal(f["fd"] is None),
                      z3.BoolVal(f["locked"] is False))

    for outcome, post, raises in (("granted", acq_granted, {}), ("refused", acq_refused, {}), ("error", None, {"IOError": "True"})):
        R.contract(K + "acquire", label=K + "acquire#" + outcome, props=["C04"],
                   setup=lambda I: {"self": mk(I), "blocking": z3.Bool("blocking")},
                   externals=ext(outcome), ensures=[post] if post else [], raises=raises,
                   returns="bool",
                   canaries={"granted": [Canary("shared-lock", "mode = fcntl.LOCK_EX", "mode = fcntl.LOCK_NB"),
                                         Canary("always-non-blocking", "if not blocking:", "if True:")],
                             "refused": [Canary("descriptor-kept", "self.fd = None\n        return False", "return False"),
                                         Canary("descriptor-leaked", "os.close(self.fd)", "pass")],
                             "error": []}[outcome],
                   note={"granted": "lock granted: exclusive flock on the freshly opened descriptor, which the object keeps",
                         "refused": "lock refused: the descriptor is closed and forgotten, False is returned",
                         "error": "any other I/O error propagates"}[outcome])

    def rel_post(I, env):
        f = env["self"].fields
        ok = names(I) == ("fcntl.flock", "os.close")
        if not ok:
            return z3.BoolVal(False)
        mode = arg(I, 0, 1)
        return z3.And(same(arg(I, 0, 0), FD), z3.BoolVal(mode == 8), same(arg(I, 1, 0), FD), z3.BoolVal(f["fd"] is None))

    R.contract(K + "release", label=K + "release#held", props=["C04"], setup=lambda I: {"self": mk(I, FD)},
               externals=ext("granted"), ensures=[rel_post],
               canaries=[Canary("no-explicit-unlock", "fcntl.flock(self.fd, fcntl.LOCK_UN)", "pass"),
                         Canary("descriptor-remembered", "self.fd = None", "pass")],
               note="release: LOCK_UN on the descriptor, THEN close it, then forget it")
    R.contract(K + "release", label=K + "release#not-held", props=["C04"], setup=lambda I: {"self": mk(I, None)},
               externals=ext("granted"), raises={"Exception": "True"},
               ensures=[lambda I, env: z3.BoolVal(False)],
               note="releasing a lock that is not held raises (no OS call is made)")
