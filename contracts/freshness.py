"""C03 / C07 — the small functions that decide freshness and batch deletion.

  Searcher.up_to_date()   true exactly when the index's latest generation is the generation of the searcher's reader
  Searcher.refresh()      returns the searcher itself when it is up to date; otherwise a new searcher built on
                          index.reader(reuse=<the old reader>) - i.e. on whatever TOC is the latest at that moment
  FileIndex.latest_generation()  is TOC._latest_generation over the index's own storage and name (proved in tocfiles.py
                          to be the numerically largest generation present)
  IndexWriter.delete_by_query()  calls delete_document for exactly the documents docs_for_query(q, for_deletion=True)
                          yields on the committed index, once each, returns their number and closes the searcher it opened
"""
import z3
from pyvc.contract import Canary, LoopSpec
from pyvc.values import Obj, Abstract, Opaque, Builtin
from pyvc.ops import to_z3
from pyvc.theories.trace import Recorder, trace_of

SR = "whoosh.searching"
IX = "whoosh.index"
WR = "whoosh.writing"
IntS = z3.IntSort()


def register(R, tier="quick"):
    register_docs_for_query(R)
    # ------------------------------------------------------------------ Searcher.up_to_date / refresh
    def mk_searcher(I):
        latest, mine = z3.Int("latest_generation"), z3.Int("reader_generation")
        newreader = Recorder("newreader")
        ix = Recorder("ix", returns={"latest_generation": latest, "reader": newreader}, quiet=["latest_generation"])
        rd = Recorder("ixreader", returns={"generation": mine}, quiet=["generation"])
        s = Obj(I.repo.klass(SR, "Searcher"), {"_ix": ix, "ixreader": rd, "is_closed": False, "weighting": Opaque("weighting"),
                                               "reader": Builtin("reader", lambda I_, a, k, n: rd)})
        I.ghost["fr"] = (latest, mine, ix, rd, newreader)
        return {"self": s}

    R.contract(SR + ":Searcher.up_to_date", props=["C03"], setup=mk_searcher,
               ensures=[lambda I, env: to_z3(env["result"]) == (I.ghost["fr"][0] == I.ghost["fr"][1])],
               returns="bool",
               canaries=[Canary("never-stale", "return self._ix.latest_generation() == self.ixreader.generation()",
                                "return self._ix.latest_generation() >= self.ixreader.generation() - 1")],
               note="up_to_date() compares the latest generation on disk with the generation the reader was opened on")

    def init_effect(I, env):
        trace_of(I).append(("Searcher", "__init__", (env.get("reader"), env.get("fromindex"), env.get("weighting"))))
    R.contract(SR + ":Searcher.__init__", label="freshness/Searcher.__init__@callsite", props=["C03"], verify=False, effect=init_effect,
               note="call-site stand-in: building a searcher over a reader is one event (its body opens no files)")

    def refresh_post(I, env):
        latest, mine, ix, rd, newreader = I.ghost["fr"]
        res = env["result"]
        tr = trace_of(I)
        opened = [(o, m, a) for (o, m, a) in tr if o == "ix" and m == "reader"]
        built = [(o, m, a) for (o, m, a) in tr if o == "Searcher" and m == "__init__"]
        if res is env["self"]:
            # kept: only allowed when no newer generation exists, and then nothing is reopened
            return z3.And(latest == mine, z3.BoolVal(not opened and not built))
        ok = (len(opened) == 1 and any(isinstance(x, tuple) and x[0] == "reuse" and x[1] is rd for x in opened[0][2])
              and len(built) == 1 and built[0][2][0] is newreader and built[0][2][1] is ix)
        return z3.And(latest != mine, z3.BoolVal(bool(ok)))

    R.contract(SR + ":Searcher.refresh", props=["C03"], setup=mk_searcher,
               ensures=[refresh_post],
               returns=lambda I, env: None,
               canaries=[Canary("never-refreshes", "if self._ix.latest_generation() == self.reader().generation():",
                                "if self._ix.latest_generation() >= 0:"),
                         Canary("wraps-the-old-reader", "return self.__class__(newreader,", "return self.__class__(self.ixreader,")],
               note="refresh() keeps the searcher only when no newer generation exists; otherwise it asks the index for a "
                    "reader of the latest generation (handing over the old reader for reuse) and wraps THAT reader in a new "
                    "searcher tied to the same index")

    # ------------------------------------------------------------------ FileIndex.latest_generation
    from contracts.tocfiles import Listing, ISTOC, GEN

    def mk_index(I):
        return {"self": Obj(I.repo.klass(IX, "FileIndex"), {"storage": Listing(I), "indexname": "MAIN"})}

    def lg_post(I, env):
        n = env["self"].fields["storage"].n
        r = to_z3(env["result"])
        k = z3.Int("fk")
        return z3.And(z3.ForAll([k], z3.Implies(z3.And(0 <= k, k < n, ISTOC(k)), GEN(k) <= r)),
                      z3.Or(r == -1, z3.Exists([k], z3.And(0 <= k, k < n, ISTOC(k), GEN(k) == r))))

    R.contract(IX + ":FileIndex.latest_generation", props=["C03"], setup=mk_index,
               requires=[lambda I, env: z3.ForAll([z3.Int("nk")], GEN(z3.Int("nk")) >= 0)],
               ensures=[lg_post], returns="int",
               canaries=[Canary("constant", "return TOC._latest_generation(self.storage, self.indexname)", "return 0")],
               note="the index's notion of 'latest' is TOC._latest_generation (proved: the numerically largest generation) over "
                    "its OWN storage and index name")

    # ------------------------------------------------------------------ IndexWriter.delete_by_query
    DOC = z3.Function("dbq_doc", IntS, IntS)

    class Docs(Abstract):
        def __init__(self, I):
            self.n = z3.Int(I.fresh_name("ndocs"))
            I.assume(self.n >= 0)

        def havoc(self, I):
            pass

        def __deepcopy__(self, memo):
            return self

        def iter_protocol(self, I):
            return 0, self.n, 1, (lambda i: DOC(to_z3(i)))

    class Deleter(Abstract):
        """the writer's own delete_document: checks that it is handed the document the loop is on"""
        def __init__(self):
            self.count = z3.IntVal(0)

        def havoc(self, I):
            self.count = z3.Int(I.fresh_name("ndeleted"))

        def call(self, I, args, kwargs, node=None):
            I.oblige("assert", "deletes-the-matching-document", to_z3(args[0]) == DOC(self.count),
                     note="the k-th call deletes the k-th document the query matched")
            self.count = self.count + 1

    def mk_dbq(I, own):
        docs = Docs(I)
        I.ghost["dbq_docs"] = docs
        srch = Recorder("searcher", returns={"docs_for_query": docs})
        dele = Deleter()
        I.ghost["dbq_del"] = dele
        w = Obj(I.repo.klass(WR, "IndexWriter"), {"delete_document": dele,
                                                  "searcher": Builtin("searcher", lambda I_, a, k, n: srch)})
        I.ghost["dbq_searcher"] = srch
        return {"self": w, "q": Opaque("query"), "searcher": None if own else srch, "own": own}

    def dbq_post(I, env):
        docs, dele = I.ghost["dbq_docs"], I.ghost["dbq_del"]
        tr = [(o, m, a) for (o, m, a) in trace_of(I) if o == "searcher"]
        dq = [e for e in tr if e[1] == "docs_for_query"]
        closes = [e for e in tr if e[1] == "close"]
        for_deletion = len(dq) == 1 and any(isinstance(x, tuple) and x[0] == "for_deletion" and x[1] is True for x in dq[0][2])
        return z3.And(dele.count == docs.n, to_z3(env["result"]) == docs.n, z3.BoolVal(for_deletion),
                      z3.BoolVal(len(closes) == (1 if env["own"] else 0)))

    R.contract(WR + ":IndexWriter.delete_by_query", props=["C07"], setup=mk_dbq, variants=[dict(own=True), dict(own=False)],
               ensures=[dbq_post], returns="int",
               loops={0: LoopSpec(index="_k", inv=[lambda I, env: z3.And(I.ghost["dbq_del"].count == to_z3(env["_k"]),
                                                                         to_z3(env["count"]) == to_z3(env["_k"]),
                                                                         to_z3(env["_k"]) <= I.ghost["dbq_docs"].n)],
                                  modifies=["self.delete_document", "count"])},
               canaries=[Canary("counts-without-deleting", "self.delete_document(docnum)", "pass"),
                         Canary("matches-deleted-documents-too", "s.docs_for_query(q, for_deletion=True)", "s.docs_for_query(q)")],
               note="delete_by_query marks exactly the documents the query matches on the committed index (asking for the "
                    "for_deletion view), each once, and reports how many")


def register_docs_for_query(R):
    """C01 / C06 / C07 — Searcher.docs_for_query: over a multi-segment searcher every segment's matches (q.docs(s), or
    q.deletion_docs(s) when the numbers are wanted for deletion) are yielded in segment order with that segment's document
    offset added, each once: K(j) = number of matches in the first j segments (defining equation instantiated where used)."""
    from pyvc.values import SpecFn
    DOC = z3.Function("dfq_doc", IntS, IntS, IntS)       # (segment, k) -> local number of the k-th match (q.docs)
    DDOC = z3.Function("dfq_deletion_doc", IntS, IntS, IntS)   # the same for q.deletion_docs (a different list in general)
    NDOC = z3.Function("dfq_ndocs", IntS, IntS)          # segment -> number of matches
    OFF = z3.Function("dfq_offset", IntS, IntS)
    K = z3.Function("dfq_before", IntS, IntS)

    class SegDocs(Abstract):
        def __init__(self, j, fn):
            self.j = to_z3(j)
            self.fn = fn

        def havoc(self, I):
            pass

        def iter_protocol(self, I):
            return 0, NDOC(self.j), 1, (lambda i: self.fn(self.j, to_z3(i)))

    class Sub(Abstract):
        def __init__(self, j):
            self.j = to_z3(j)

        def havoc(self, I):
            pass

    class Subs(Abstract):
        def __init__(self, I, empty):
            self.n = z3.IntVal(0) if empty else z3.Int(I.fresh_name("nsub"))
            if not empty:
                I.assume(self.n >= 1)

        def havoc(self, I):
            pass

        def __deepcopy__(self, memo):
            return self

        def truth(self, I):
            return self.n > 0

        def iter_protocol(self, I):
            return 0, self.n, 1, (lambda j: (Sub(j), OFF(to_z3(j))))

    class Q(Abstract):
        def __init__(self):
            self.used = []

        def havoc(self, I):
            pass

        def m_docs(self, I, s):
            self.used.append("docs")
            return SegDocs(s.j if isinstance(s, Sub) else -1, DOC)

        def m_deletion_docs(self, I, s):
            self.used.append("deletion_docs")
            return SegDocs(s.j if isinstance(s, Sub) else -1, DDOC)

    def setup(I, multi, for_deletion):
        subs = Subs(I, empty=not multi)
        q = Q()
        j = z3.Int("dfq_j")
        I.assume(z3.ForAll([j], NDOC(j) >= 0))
        I.assume(K(0) == 0)
        I.ghost["dfq"] = (subs, q)
        s = Obj(I.repo.klass(SR, "Searcher"), {"subsearchers": subs})
        return {"self": s, "q": q, "for_deletion": for_deletion, "multi": multi}

    def before(I, j):
        j = to_z3(j)
        I.assume(K(j + 1) == K(j) + NDOC(j))
        return K(j)

    def good_yield_multi(I, y, j, i):
        j, i = to_z3(j), to_z3(i)
        fn = DDOC if I.root_frame.env["for_deletion"] else DOC
        return to_z3(y) == fn(j, i) + OFF(j)

    def good_yield_single(I, y, i):
        return to_z3(y) == DOC(-1, to_z3(i))

    def post(I, env):
        subs = I.ghost["dfq"][0]
        q = env["q"]
        ok = I.ghost["ok"]
        ok = z3.BoolVal(ok) if isinstance(ok, bool) else ok
        want = "deletion_docs" if env["for_deletion"] else "docs"
        used_ok = all(u == want for u in q.used) and (len(q.used) >= 1 or env["multi"])
        total = before(I, subs.n) if env["multi"] else NDOC(-1)
        return z3.And(ok, to_z3(I.ghost["ny"]) == total, z3.BoolVal(used_ok))

    R.contract(SR + ":Searcher.docs_for_query", props=["C01", "C06", "C07"], setup=setup,
               variants=[dict(multi=True, for_deletion=False), dict(multi=True, for_deletion=True)],
               spec_funcs={"good_yield": SpecFn("good_yield", good_yield_multi), "before": SpecFn("before", before)},
               ghost="ok = True\nny = 0\n", on_yield="ok = ok and good_yield(_y, _j, _i)\nny = ny + 1\n",
               ensures=[post],
               loops={0: LoopSpec(index="_j", inv=["ok", "ny == before(_j)", lambda I, env: to_z3(env["_j"]) <= I.ghost["dfq"][0].n],
                                  havoc=["ok", "ny"]),
                      1: LoopSpec(index="_i", inv=["ok", "ny == before(_j) + _i", lambda I, env: to_z3(env["_i"]) <= NDOC(to_z3(env["_j"]))],
                                  havoc=["ok", "ny"])},
               canaries=[Canary("offset-forgotten", "docnum + offset", "docnum"),
                         Canary("deletion-view-ignored", "method = q.deletion_docs", "method = q.docs")],
               note="global document numbers of a query's matches = each segment's local numbers plus that segment's offset, every "
                    "segment in order, every match once; for_deletion selects the query's deletion view")
    R.contract(SR + ":Searcher.docs_for_query", label=SR + ":Searcher.docs_for_query#single-segment", props=["C01", "C06", "C07"],
               setup=lambda I: setup(I, False, False),
               spec_funcs={"good_yield": SpecFn("good_yield", good_yield_single)},
               ghost="ok = True\nny = 0\n", on_yield="ok = ok and good_yield(_y, _i)\nny = ny + 1\n",
               ensures=[post],
               loops={2: LoopSpec(index="_i", inv=["ok", "ny == _i", lambda I, env: to_z3(env["_i"]) <= NDOC(-1)], havoc=["ok", "ny"])},
               note="a searcher without sub-searchers yields its own matches unchanged")
