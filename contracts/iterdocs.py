"""C07 / C08 — per-document iteration (IndexReader.iter_docs, PerDocumentReader.iter_docs / all_stored_fields): over a
reader with N document numbers, a deletion predicate DEL and stored fields STORED (uninterpreted: any reader), the
generators hand out exactly the documents that are not deleted, each once, in ascending order, every one with ITS OWN
number and ITS OWN stored fields.  `all_doc_ids()` (a filtered generator expression over xrange(doc_count_all())) is
inlined; pyvc runs the consuming loop over the underlying range and skips the body for filtered items."""
import z3
from pyvc.contract import Canary, LoopSpec
from pyvc.values import Obj, SpecFn, Builtin
from pyvc.ops import to_z3

IntS = z3.IntSort()
DEL = z3.Function("it_deleted", IntS, z3.BoolSort())
STORED = z3.Function("it_stored", IntS, IntS)
LIVE = z3.Function("it_live_before", IntS, IntS)
N = z3.Int("it_doc_count_all")


def register(R, tier="quick"):
    def mk(modname, clsname):
        def setup(I):
            I.assume(N >= 0)
            I.assume(LIVE(0) == 0)
            o = Obj(I.repo.klass(modname, clsname),
                    {"doc_count_all": Builtin("doc_count_all", lambda I_, a, k, n: N),
                     "is_deleted": Builtin("is_deleted", lambda I_, a, k, n: DEL(to_z3(a[0]))),
                     "stored_fields": Builtin("stored_fields", lambda I_, a, k, n: STORED(to_z3(a[0])))})
            return {"self": o}
        return setup

    def live(I, k):
        k = to_z3(k)
        I.assume(LIVE(k + 1) == LIVE(k) + z3.If(DEL(k), 0, 1))
        return LIVE(k)

    def good_pair(I, y, k):
        k = to_z3(k)
        if not (isinstance(y, tuple) and len(y) == 2):
            return z3.BoolVal(False)
        return z3.And(to_z3(y[0]) == k, to_z3(y[1]) == STORED(k), z3.Not(DEL(k)), 0 <= k, k < N)

    def good_stored(I, y, k):
        k = to_z3(k)
        return z3.And(to_z3(y) == STORED(k), z3.Not(DEL(k)), 0 <= k, k < N)

    def post(I, env):
        ok = I.ghost["ok"]
        ok = z3.BoolVal(ok) if isinstance(ok, bool) else ok
        return z3.And(ok, to_z3(I.ghost["ny"]) == live(I, N))

    sf = {"it_live": SpecFn("it_live", live), "it_good_pair": SpecFn("it_good_pair", good_pair), "it_good_stored": SpecFn("it_good_stored", good_stored)}
    loops = {0: LoopSpec(index="_k", inv=["ok", "ny == it_live(_k)", lambda I, env: z3.And(to_z3(env["_k"]) <= N, to_z3(env["_k"]) >= 0)],
                         havoc=["ok", "ny"])}
    for key, mod, cls in (("whoosh.reading:IndexReader.iter_docs", "whoosh.reading", "IndexReader"),
                          ("whoosh.codec.base:PerDocumentReader.iter_docs", "whoosh.codec.base", "PerDocumentReader")):
        R.contract(key, props=["C07", "C08"], setup=mk(mod, cls), spec_funcs=sf,
                   inline_callees=[key.rsplit(".", 1)[0] + ".all_doc_ids"],
                   ghost="ok = True\nny = 0\n", on_yield="ok = ok and it_good_pair(_y, _k)\nny = ny + 1\n",
                   ensures=[post], loops=loops,
                   canaries=[Canary("neighbour-fields", "yield (docnum, self.stored_fields(docnum))", "yield (docnum, self.stored_fields(docnum + 1))")],
                   note="iter_docs() yields (n, stored_fields(n)) for exactly the documents that are not deleted, ascending, each once")
    R.contract("whoosh.codec.base:PerDocumentReader.all_stored_fields", props=["C07", "C08"], setup=mk("whoosh.codec.base", "PerDocumentReader"),
               spec_funcs=sf, inline_callees=["whoosh.codec.base:PerDocumentReader.all_doc_ids"],
               ghost="ok = True\nny = 0\n", on_yield="ok = ok and it_good_stored(_y, _k)\nny = ny + 1\n",
               ensures=[post], loops=loops,
               canaries=[Canary("neighbour-fields", "yield self.stored_fields(docnum)", "yield self.stored_fields(docnum + 1)")],
               note="all_stored_fields() yields the stored fields of exactly the documents that are not deleted, in order")
