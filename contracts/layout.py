"""C06 — segment layout is invisible: the document-number arithmetic of a multi-segment reader
(whoosh.reading.MultiReader) against the partition of the global number line by the segments' sizes.

Sub-reader k holds CNT(k) >= 0 documents (doc_count_all).  The global numbering is the concatenation:
    doc_offsets[0] = 0,  doc_offsets[k+1] = doc_offsets[k] + CNT(k),  base = doc_offsets[n-1] + CNT(n-1)
and global document d belongs to the unique segment s with  doc_offsets[s] <= d < doc_offsets[s] + CNT(s)
(empty segments own nothing), as local document d - doc_offsets[s].
"""
import z3
from pyvc.contract import Canary, LoopSpec
from pyvc.values import Obj, Abstract, SymList, Opaque
from pyvc.ops import to_z3

RD = "whoosh.reading"
IntS = z3.IntSort()
CNT = z3.Function("seg_doc_count_all", IntS, IntS)
DEL = z3.Function("seg_is_deleted", IntS, IntS, z3.BoolSort())
STORED = z3.Function("seg_stored_fields", IntS, IntS, IntS)
FLEN = z3.Function("seg_doc_field_length", IntS, IntS, IntS)


class SubReader(Abstract):
    def __init__(self, idx):
        self.idx = to_z3(idx)

    def havoc(self, I):
        pass

    def m_doc_count_all(self, I):
        return CNT(self.idx)

    def m_is_deleted(self, I, d):
        return DEL(self.idx, to_z3(d))

    def m_stored_fields(self, I, d):
        return STORED(self.idx, to_z3(d))

    def m_doc_field_length(self, I, d, fieldname, default=0):
        return FLEN(self.idx, to_z3(d))

    def a_schema(self, I):
        return Opaque("schema")

    def m_delete_document(self, I, d, delete=True):
        # a segment asked to (un)mark one of its documents: recorded in the ghost trace (what it does with the request is
        # W3Segment.delete_document's own contract)
        from pyvc.theories.trace import trace_of
        trace_of(I).append(("segment", "delete_document", (self.idx, to_z3(d), delete)))
        return None


class Readers(Abstract):
    """the list of sub-readers (symbolic length n >= 0)"""
    def __init__(self, I):
        self.n = z3.Int(I.fresh_name("nreaders"))
        I.assume(self.n >= 0)
        k = z3.Int("ck")
        I.assume(z3.ForAll([k], CNT(k) >= 0))

    def havoc(self, I):
        pass

    def __deepcopy__(self, memo):
        return self

    def truth(self, I):
        return self.n > 0

    def length(self, I):
        return self.n

    def a_n(self, I):
        return self.n

    def getitem(self, I, idx, node=None):
        idx = to_z3(idx)
        if not I.in_spec and not I.decide(z3.And(idx >= -self.n, idx < self.n), "index-in-bounds"):
            I.raise_builtin("IndexError", node)
        return SubReader(z3.If(idx < 0, idx + self.n, idx))

    def iter_protocol(self, I):
        return 0, self.n, 1, (lambda i: SubReader(i))

    def m_append(self, I, r):
        raise NotImplementedError


def offsets_ok(I, offs, n, base):
    """the partition invariant over a symbolic list of offsets of length n"""
    a = offs.arr
    j, k = z3.Int("oj"), z3.Int("ok")
    return z3.And(offs.n == n,
                  z3.Implies(n > 0, z3.Select(a, 0) == 0),
                  z3.ForAll([k], z3.Implies(z3.And(0 <= k, k < n - 1), z3.Select(a, k + 1) == z3.Select(a, k) + CNT(k))),
                  z3.If(n > 0, base == z3.Select(a, n - 1) + CNT(n - 1), base == 0),
                  z3.ForAll([j, k], z3.Implies(z3.And(0 <= j, j <= k, k < n), z3.Select(a, j) <= z3.Select(a, k))),
                  z3.ForAll([k], z3.Implies(z3.And(0 <= k, k < n), z3.Select(a, k) <= base)))


def mk_multi(I):
    rs = Readers(I)
    offs = SymList(z3.Array(I.fresh_name("offs"), IntS, IntS), z3.Int(I.fresh_name("noffs")), "list")
    base = z3.Int("base")
    o = Obj(I.repo.klass(RD, "MultiReader"), {"readers": rs, "doc_offsets": offs, "base": base})
    return o


def wf_multi(I, env):
    s = env["self"]
    return offsets_ok(I, s.fields["doc_offsets"], s.fields["readers"].n, s.fields["base"])


def owner(I, env, seg, docnum):
    """seg is the segment that owns global document docnum"""
    s = env["self"]
    a = s.fields["doc_offsets"].arr
    seg = to_z3(seg)
    return z3.And(0 <= seg, seg < s.fields["readers"].n, z3.Select(a, seg) <= docnum, docnum < z3.Select(a, seg) + CNT(seg))


def register(R, tier="quick"):
    # ------------------------------------------------------------------ __init__: the offsets are the running sums
    def init_inv(I, env):
        s = env["self"]
        if "doc_offsets" not in s.fields or "base" not in s.fields:
            return z3.BoolVal(False)
        return z3.And(offsets_ok(I, s.fields["doc_offsets"], env["_i"], to_z3(s.fields["base"])), env["_i"] <= env["readers"].n)

    R.contract(RD + ":MultiReader.__init__", props=["C06"],
               setup=lambda I: {"self": Obj(I.repo.klass(RD, "MultiReader")), "readers": Readers(I), "generation": z3.Int("generation")},
               ensures=[lambda I, env: offsets_ok(I, env["self"].fields["doc_offsets"], env["readers"].n, to_z3(env["self"].fields["base"])),
                        "self.readers is readers"],
               loops={0: LoopSpec(index="_i", inv=[init_inv, "self.readers is readers"], modifies=["self.doc_offsets", "self.base"])},
               opts={"sym_empty_lists": True},
               canaries=[Canary("offset-is-end-of-segment", "self.doc_offsets.append(self.base)",
                                "self.doc_offsets.append(self.base + r.doc_count_all())"),
                         Canary("counts-live-docs", "self.base += r.doc_count_all()", "self.base += r.doc_count()")],
               note="doc_offsets are the running sums of the segments' doc_count_all (deleted documents keep their numbers), "
                    "base their total")

    R.contract(RD + ":MultiReader.add_reader", props=["C06"],
               setup=lambda I: {"self": mk_multi(I), "reader": SubReader(z3.Int("newidx"))},
               requires=[wf_multi, lambda I, env: env["reader"].idx == env["self"].fields["readers"].n],
               ensures=[lambda I, env: offsets_ok(I, env["self"].fields["doc_offsets"], I.old_env["self"].fields["readers"].n + 1,
                                                  to_z3(env["self"].fields["base"]))],
               externals={}, effect=None,
               verify=False,
               note="(call-site contract only: the readers list is abstract)")

    # ------------------------------------------------------------------ global -> (segment, local)
    def seg_post(I, env):
        return owner(I, env, env["result"], env["docnum"])

    R.contract(RD + ":MultiReader._document_segment", props=["C06"],
               setup=lambda I: {"self": mk_multi(I), "docnum": z3.Int("docnum")},
               requires=[wf_multi, "0 <= docnum < self.base"],
               ensures=[seg_post], returns="int",
               canaries=[Canary("bisect-left", "bisect_right(self.doc_offsets, docnum)", "bisect_left(self.doc_offsets, docnum)"),
                         Canary("no-minus-one", "bisect_right(self.doc_offsets, docnum) - 1", "bisect_right(self.doc_offsets, docnum)")],
               note="the segment returned is the one whose number range contains docnum (empty segments are skipped)")

    def segdoc_post(I, env):
        seg, local = env["result"]
        a = env["self"].fields["doc_offsets"].arr
        return z3.And(owner(I, env, seg, env["docnum"]), to_z3(local) == env["docnum"] - z3.Select(a, to_z3(seg)),
                      0 <= to_z3(local), to_z3(local) < CNT(to_z3(seg)))

    R.contract(RD + ":MultiReader._segment_and_docnum", props=["C06"],
               setup=lambda I: {"self": mk_multi(I), "docnum": z3.Int("docnum")},
               requires=[wf_multi, "0 <= docnum < self.base"],
               ensures=[segdoc_post], returns=lambda I, env: (I.fresh_int("seg"), I.fresh_int("local")),
               canaries=[Canary("local-not-rebased", "return (segmentnum, docnum - offset)", "return (segmentnum, docnum)")],
               note="local number = global number - the owning segment's offset, within that segment's range")

    # ------------------------------------------------------------------ per-document delegation
    def deleg(fn):
        def post(I, env):
            s = env["self"]
            a = s.fields["doc_offsets"].arr
            g = z3.Int("dseg")
            return z3.ForAll([g], z3.Implies(owner(I, env, g, env["docnum"]),
                                             to_z3(env["result"]) == fn(g, env["docnum"] - z3.Select(a, g))))
        return post

    HASVEC = z3.Function("seg_has_vector", IntS, IntS, z3.BoolSort())
    VEC = z3.Function("seg_vector", IntS, IntS, IntS)
    VECAS = z3.Function("seg_vector_as", IntS, IntS, IntS)
    SubReader.m_has_vector = lambda self, I, d, fieldname: HASVEC(self.idx, to_z3(d))
    SubReader.m_vector = lambda self, I, d, fieldname, format_=None: VEC(self.idx, to_z3(d))
    SubReader.m_vector_as = lambda self, I, astype, d, fieldname: VECAS(self.idx, to_z3(d))
    for meth, fn, ret, extra in (("is_deleted", DEL, "bool", {}), ("stored_fields", STORED, "int", {}),
                                 ("doc_field_length", FLEN, "int", {"fieldname": "f"}),
                                 ("has_vector", HASVEC, "bool", {"fieldname": "f"}),
                                 ("vector", VEC, "int", {"fieldname": "f"}),
                                 ("vector_as", VECAS, "int", {"fieldname": "f", "astype": "weight"})):
        R.contract(RD + ":MultiReader." + meth, props=["C06"],
                   setup=lambda I, extra=extra: dict({"self": mk_multi(I), "docnum": z3.Int("docnum")}, **extra),
                   requires=[wf_multi, "0 <= docnum < self.base"],
                   ensures=[deleg(fn)], returns=ret,
                   canaries=[Canary("global-number-passed-down", "segmentdoc)", "docnum)")] if meth == "is_deleted" else [],
                   note="the answer for global document d is the owning segment's answer for its local number")

    # ------------------------------------------------------------------ MultiColumnReader: one column over the segments
    COLS = "whoosh.columns"
    CELL = z3.Function("seg_column_cell", IntS, IntS, IntS)

    class SubColumn(SubReader):
        def length(self, I):
            return CNT(self.idx)

        def getitem(self, I, idx, node=None):
            return CELL(self.idx, to_z3(idx))

    class ColReaders(Readers):
        def getitem(self, I, idx, node=None):
            idx = to_z3(idx)
            if not I.in_spec and not I.decide(z3.And(idx >= -self.n, idx < self.n), "index-in-bounds"):
                I.raise_builtin("IndexError", node)
            return SubColumn(z3.If(idx < 0, idx + self.n, idx))

        def iter_protocol(self, I):
            return 0, self.n, 1, (lambda i: SubColumn(i))

    def mk_mcr(I):
        rs = ColReaders(I)
        offs = SymList(z3.Array(I.fresh_name("coffs"), IntS, IntS), z3.Int(I.fresh_name("ncoffs")), "list")
        return Obj(I.repo.klass(COLS, "MultiColumnReader"), {"_readers": rs, "_doc_offsets": offs, "_doccount": z3.Int("doccount")})

    def wf_mcr(I, env):
        s = env["self"]
        return offsets_ok(I, s.fields["_doc_offsets"], s.fields["_readers"].n, s.fields["_doccount"])

    def mcr_owner(I, env, seg, docnum):
        s = env["self"]
        a = s.fields["_doc_offsets"].arr
        return z3.And(0 <= seg, seg < s.fields["_readers"].n, z3.Select(a, seg) <= docnum, docnum < z3.Select(a, seg) + CNT(seg))

    def mcr_init_inv(I, env):
        s = env["self"]
        if "_doc_offsets" not in s.fields or "_doccount" not in s.fields:
            return z3.BoolVal(False)
        return z3.And(offsets_ok(I, s.fields["_doc_offsets"], env["_i"], to_z3(s.fields["_doccount"])), env["_i"] <= env["readers"].n)

    R.contract(COLS + ":MultiColumnReader.__init__", props=["C06", "C08"],
               setup=lambda I: {"self": Obj(I.repo.klass(COLS, "MultiColumnReader")), "readers": ColReaders(I), "offsets": None},
               ensures=[lambda I, env: offsets_ok(I, env["self"].fields["_doc_offsets"], env["readers"].n,
                                                  to_z3(env["self"].fields["_doccount"])),
                        "self._readers is readers"],
               loops={0: LoopSpec(index="_i", inv=[mcr_init_inv, "self._readers is readers"],
                                  modifies=["self._doc_offsets", "self._doccount"])},
               opts={"sym_empty_lists": True},
               canaries=[Canary("offset-is-end-of-segment", "self._doc_offsets.append(self._doccount)",
                                "self._doc_offsets.append(self._doccount + len(r))")],
               note="without explicit offsets the column readers are concatenated by their lengths")

    def mk_init_explicit(I):
        rs = ColReaders(I)
        offs = SymList(z3.Array(I.fresh_name("xoffs"), IntS, IntS), z3.Int(I.fresh_name("nxoffs")), "list")
        return {"self": Obj(I.repo.klass(COLS, "MultiColumnReader")), "readers": rs, "offsets": offs}

    R.contract(COLS + ":MultiColumnReader.__init__", label=COLS + ":MultiColumnReader.__init__#explicit-offsets", props=["C06", "C08"],
               setup=mk_init_explicit,
               # what MultiReader.column_reader passes: the readers' document offsets (running sums of their sizes)
               requires=[lambda I, env: z3.Exists([z3.Int("xtotal")], offsets_ok(I, env["offsets"], env["readers"].n, z3.Int("xtotal")))],
               ensures=[lambda I, env: offsets_ok(I, env["self"].fields["_doc_offsets"], env["readers"].n,
                                                  to_z3(env["self"].fields["_doccount"])),
                        "self._readers is readers", "self._doc_offsets is offsets"],
               opts={"sym_empty_lists": True},
               canaries=[Canary("length-not-set", "self._doccount = offsets[-1] + len(readers[-1])", "pass")],
               note="with the offsets MultiReader passes, the combined column has as many rows as the last reader's offset plus "
                    "its length (len() of the combined column; ColumnQuery walks it)")

    def mcr_get_post(I, env):
        s = env["self"]
        a = s.fields["_doc_offsets"].arr
        g = z3.Int("cseg")
        return z3.ForAll([g], z3.Implies(mcr_owner(I, env, g, env["docnum"]),
                                         to_z3(env["result"]) == CELL(g, env["docnum"] - z3.Select(a, g))))

    R.contract(COLS + ":MultiColumnReader._document_reader", props=["C06", "C08"],
               setup=lambda I: {"self": mk_mcr(I), "docnum": z3.Int("docnum")},
               requires=[wf_mcr, "0 <= docnum < self._doccount"],
               ensures=[lambda I, env: mcr_owner(I, env, to_z3(env["result"]), env["docnum"])], returns="int",
               canaries=[Canary("bisect-left", "bisect_right(self._doc_offsets, docnum)", "bisect_left(self._doc_offsets, docnum)")])
    R.contract(COLS + ":MultiColumnReader._reader_and_docnum", props=["C06", "C08"],
               setup=lambda I: {"self": mk_mcr(I), "docnum": z3.Int("docnum")},
               requires=[wf_mcr, "0 <= docnum < self._doccount"],
               ensures=[lambda I, env: z3.And(mcr_owner(I, env, to_z3(env["result"][0]), env["docnum"]),
                                              to_z3(env["result"][1]) == env["docnum"]
                                              - z3.Select(env["self"].fields["_doc_offsets"].arr, to_z3(env["result"][0])))],
               returns=lambda I, env: (I.fresh_int("rnum"), I.fresh_int("local")),
               canaries=[Canary("local-not-rebased", "return (rnum, docnum - offset)", "return (rnum, docnum)")])
    R.contract(COLS + ":MultiColumnReader.__getitem__", props=["C06", "C08"],
               setup=lambda I: {"self": mk_mcr(I), "docnum": z3.Int("docnum")},
               requires=[wf_mcr, "0 <= docnum < self._doccount"],
               ensures=[mcr_get_post], returns="int",
               canaries=[Canary("row-and-reader-swapped", "self._readers[x][y]", "self._readers[x][x]")],
               note="row d of the combined column is row d - offset of the owning segment's column")

    # ------------------------------------------------------------------ merge renumbering of postings (SegmentWriter._process_posts)
    W = "whoosh.writing"
    PF, PT, PD, PW, PV = (z3.Function("post_" + n, IntS, IntS) for n in ("field", "text", "docnum", "weight", "value"))
    INSCHEMA = z3.Function("field_in_schema", IntS, z3.BoolSort())
    DM = z3.Function("docmap", IntS, IntS)
    KEPT = z3.Function("kept_before", IntS, IntS)

    class SchemaStub(Abstract):
        def havoc(self, I):
            pass

        def contains(self, I, name):
            return INSCHEMA(to_z3(name))

    class DocMap(Abstract):
        def havoc(self, I):
            pass

        def is_none(self, I):
            return False

        def getitem(self, I, idx, node=None):
            return DM(to_z3(idx))

    class PostItems(Abstract):
        def __init__(self, I):
            self.n = z3.Int(I.fresh_name("nposts"))
            I.assume(self.n >= 0)
            I.assume(KEPT(0) == 0)

        def havoc(self, I):
            pass

        def a_n(self, I):
            return self.n

        def iter_protocol(self, I):
            return 0, self.n, 1, (lambda i: (PF(i), PT(i), PD(i), PW(i), PV(i)))

    def pp_setup(I, mapped):
        return {"self": Obj(I.repo.klass(W, "SegmentWriter"), {"schema": SchemaStub()}), "items": PostItems(I),
                "startdoc": z3.Int("startdoc"), "docmap": DocMap() if mapped else None, "mapped": mapped}

    def good_yield(I, y, i, env):
        f, t, d, w, v = y
        newdoc = DM(PD(i)) if env["mapped"] else env["startdoc"] + PD(i)
        return z3.And(INSCHEMA(PF(i)), to_z3(f) == PF(i), to_z3(t) == PT(i), to_z3(d) == newdoc, to_z3(w) == PW(i), to_z3(v) == PV(i))

    from pyvc.values import SpecFn

    def kept_before(I, i):
        """KEPT(i) = number of postings among the first i whose field is in the schema; defined by KEPT(0) = 0 and
        KEPT(k+1) = KEPT(k) + [field k in schema]; the defining equation is instantiated at every i mentioned."""
        i = to_z3(i)
        I.assume(KEPT(i + 1) == KEPT(i) + z3.If(INSCHEMA(PF(i)), 1, 0))
        return KEPT(i)

    R.contract(W + ":SegmentWriter._process_posts", props=["C06", "C10"],
               setup=pp_setup, variants=[dict(mapped=True), dict(mapped=False)],
               spec_funcs={"good_yield": SpecFn("good_yield", lambda I, y, i: good_yield(I, y, i, I.root_frame.env)),
                           "kept_before": SpecFn("kept_before", kept_before)},
               ghost="ok = True\nny = 0\n",
               on_yield="ok = ok and good_yield(_y, _i)\nny = ny + 1\n",
               ensures=["ok", "ny == kept_before(items.n)"],
               loops={0: LoopSpec(index="_i", inv=["ok", "ny == kept_before(_i)", "_i <= items.n"], havoc=["ok", "ny"])},
               canaries=[Canary("startdoc-not-added", "newdoc = startdoc + docnum", "newdoc = docnum"),
                         Canary("docmap-ignored", "newdoc = docmap[docnum]", "newdoc = startdoc + docnum"),
                         Canary("weight-and-value-swapped", "yield (fieldname, text, newdoc, weight, vbytes)",
                                "yield (fieldname, text, newdoc, vbytes, weight)")],
               note="merging: every posting of a field still in the schema is re-emitted exactly once, in order, with only "
                    "its document number replaced (docmap[d] when the source has deletions, startdoc + d otherwise)")

    # ------------------------------------------------------------------ SegmentWriter: the same numbering on the writer side (deletes)
    class Segments(Readers):
        """self.segments of a writer: Segment objects with doc_count_all / is_deleted / delete_document"""
        def getitem(self, I, idx, node=None):
            idx = to_z3(idx)
            if not I.in_spec and not I.decide(z3.And(idx >= -self.n, idx < self.n), "index-in-bounds"):
                I.raise_builtin("IndexError", node)
            return SubReader(z3.If(idx < 0, idx + self.n, idx))

    def mk_writer(I):
        segs = Segments(I)
        offs = SymList(z3.Array(I.fresh_name("woffs"), IntS, IntS), z3.Int(I.fresh_name("nwoffs")), "list")
        return Obj(I.repo.klass(W, "SegmentWriter"), {"segments": segs, "_doc_offsets": offs, "is_closed": False})

    def wf_writer(I, env):
        s = env["self"]
        total = z3.Int("total_docs")
        return z3.And(offsets_ok(I, s.fields["_doc_offsets"], s.fields["segments"].n, total), s.fields["segments"].n >= 1,
                      env["docnum"] < total)

    def w_owner(I, env, seg, docnum):
        s = env["self"]
        a = s.fields["_doc_offsets"].arr
        seg = to_z3(seg)
        return z3.And(0 <= seg, seg < s.fields["segments"].n, z3.Select(a, seg) <= docnum, docnum < z3.Select(a, seg) + CNT(seg))

    def sdo_inv(I, env):
        s = env["self"]
        if "_doc_offsets" not in s.fields:
            return z3.BoolVal(False)
        return z3.And(offsets_ok(I, s.fields["_doc_offsets"], env["_i"], to_z3(env["base"])), env["_i"] <= s.fields["segments"].n)

    R.contract(W + ":SegmentWriter._setup_doc_offsets", props=["C07", "C06"],
               setup=lambda I: {"self": Obj(I.repo.klass(W, "SegmentWriter"), {"segments": Segments(I)})},
               ensures=[lambda I, env: z3.Exists([z3.Int("tb")], offsets_ok(I, env["self"].fields["_doc_offsets"],
                                                                           env["self"].fields["segments"].n, z3.Int("tb")))],
               loops={0: LoopSpec(index="_i", inv=[sdo_inv], modifies=["self._doc_offsets"])},
               opts={"sym_empty_lists": True},
               canaries=[Canary("offset-is-end-of-segment", "self._doc_offsets.append(base)", "self._doc_offsets.append(base + s.doc_count_all())")],
               note="the writer numbers the committed documents like the reader: running sums of doc_count_all")
    R.contract(W + ":SegmentWriter._document_segment", props=["C07", "C06"],
               setup=lambda I: {"self": mk_writer(I), "docnum": z3.Int("docnum")},
               requires=[wf_writer, "0 <= docnum"],
               ensures=[lambda I, env: w_owner(I, env, env["result"], env["docnum"])], returns="int",
               canaries=[Canary("bisect-left", "bisect_right(offsets, docnum)", "bisect_left(offsets, docnum)")],
               note="a delete by document number reaches the segment that owns the number")
    R.contract(W + ":SegmentWriter._segment_and_docnum", props=["C07", "C06"],
               setup=lambda I: {"self": mk_writer(I), "docnum": z3.Int("docnum")},
               requires=[wf_writer, "0 <= docnum"],
               ensures=[lambda I, env: z3.And(w_owner(I, env, env["result"][0].idx, env["docnum"]),
                                              to_z3(env["result"][1]) == env["docnum"]
                                              - z3.Select(env["self"].fields["_doc_offsets"].arr, env["result"][0].idx))],
               returns=lambda I, env: (SubReader(I.fresh_int("seg")), I.fresh_int("local")),
               canaries=[Canary("local-not-rebased", "return (segment, docnum - offset)", "return (segment, docnum)")])
    R.contract(W + ":SegmentWriter.is_deleted", props=["C07", "C06"],
               setup=lambda I: {"self": mk_writer(I), "docnum": z3.Int("docnum")},
               requires=[wf_writer, "0 <= docnum"],
               ensures=[lambda I, env: z3.ForAll([z3.Int("wseg")], z3.Implies(
                   w_owner(I, env, z3.Int("wseg"), env["docnum"]),
                   to_z3(env["result"]) == DEL(z3.Int("wseg"), env["docnum"] - z3.Select(env["self"].fields["_doc_offsets"].arr, z3.Int("wseg")))))],
               returns="bool")

    # ------------------------------------------------------------------ W3Segment: the per-segment deletion set (C07)
    W3 = "whoosh.codec.whoosh3"

    class DelSet(Abstract):
        """a python set of document numbers: membership function"""
        def __init__(self, I):
            self.mem = z3.Array(I.fresh_name("deleted"), IntS, z3.BoolSort())

        def havoc(self, I):
            self.mem = z3.Array(I.fresh_name("deleted"), IntS, z3.BoolSort())

        def __deepcopy__(self, memo):
            c = DelSet.__new__(DelSet)
            c.mem = self.mem
            return c

        def is_none(self, I):
            return False

        def has(self, d):
            return z3.Select(self.mem, to_z3(d))

        def contains(self, I, d):
            return self.has(d)

        def m_add(self, I, d):
            self.mem = z3.Store(self.mem, to_z3(d), z3.BoolVal(True))

        def m_remove(self, I, d):
            I.oblige("no-raise", "remove-present", self.has(d), note="set.remove of an absent element raises KeyError")
            self.mem = z3.Store(self.mem, to_z3(d), z3.BoolVal(False))

        def m_discard(self, I, d):
            self.mem = z3.Store(self.mem, to_z3(d), z3.BoolVal(False))

        def m_clear(self, I, *args):
            if args:
                I.raise_builtin("TypeError", None)
            self.mem = z3.K(IntS, z3.BoolVal(False))

    def seg_setup(I, delete, has_set):
        seg = Obj(I.repo.klass(W3, "W3Segment"), {"_deleted": DelSet(I) if has_set else None, "_doccount": z3.Int("doccount")})
        return {"self": seg, "docnum": z3.Int("docnum"), "delete": delete}

    def seg_post(I, env):
        s, s0 = env["self"].fields["_deleted"], I.old_env["self"].fields["_deleted"]
        d = env["docnum"]
        k = z3.Int("dk")
        was = (lambda x: s0.has(x)) if isinstance(s0, DelSet) else (lambda x: z3.BoolVal(False))
        now = (lambda x: s.has(x)) if isinstance(s, DelSet) else (lambda x: z3.BoolVal(False))
        return z3.ForAll([k], now(k) == z3.If(k == d, z3.BoolVal(bool(env["delete"])), was(k)))

    def empty_delset(I, args, kw, node):
        ds = DelSet(I)
        ds.mem = z3.K(IntS, z3.BoolVal(False))
        return ds
    from pyvc.values import Builtin
    R.contract(W3 + ":W3Segment.delete_document", props=["C07"], setup=seg_setup,
               opts={"builtin_override": {"set": Builtin("set", empty_delset)}},
               variants=[dict(delete=True, has_set=False), dict(delete=True, has_set=True),
                         dict(delete=False, has_set=True), dict(delete=False, has_set=False)],
               ensures=[seg_post],
               canaries=[Canary("delete-is-noop-on-existing-set", "self._deleted.add(docnum)", "pass")],
               note="delete_document(d) marks exactly d deleted; delete_document(d, delete=False) unmarks exactly d; every other "
                    "document keeps its state")
    R.contract(W3 + ":W3Segment.is_deleted", props=["C07"],
               setup=lambda I, has_set: seg_setup(I, True, has_set), variants=[dict(has_set=True), dict(has_set=False)],
               ensures=[lambda I, env: to_z3(env["result"]) == (env["self"].fields["_deleted"].has(env["docnum"])
                                                                if isinstance(env["self"].fields["_deleted"], DelSet) else z3.BoolVal(False))],
               returns="bool")

    # ------------------------------------------------------------------ merge policies: no segment is lost (C06 / C07)
    from pyvc.theories.trace import Recorder, trace_of
    from pyvc.values import PyList, Builtin

    class SegStub(Abstract):
        def __init__(self, k):
            self.k = k
            self.cnt = z3.Int("segcount_%d" % k)

        def havoc(self, I):
            pass

        def m_doc_count_all(self, I):
            return self.cnt

    def mp_setup(I, nseg):
        segs = [SegStub(k) for k in range(nseg)]
        for a, b in zip(segs, segs[1:]):
            I.assume(a.cnt <= b.cnt)          # already in the order sorted() would produce (sorted is then the identity)
        for sg in segs:
            I.assume(sg.cnt >= 0)
        w = Recorder("writer", attrs={"storage": Recorder("storage"), "schema": Recorder("schema")})
        return {"writer": w, "segments": PyList(segs), "nseg": nseg}

    def sr_init(I, env):
        env["self"].fields["_seg"] = env["segment"]

    R.contract(RD + ":SegmentReader.__init__", label="layout/SegmentReader.__init__@merge", props=["C06", "C07"], verify=False,
               effect=sr_init, note="(call-site stub for the merge policies: a reader of that segment)")
    R.contract(RD + ":SegmentReader.close", label="layout/SegmentReader.close@merge", props=["C06", "C07"], verify=False)

    def mp_post(I, env):
        segs = I.old_env["segments"].items
        res = env["result"]
        merged = [a[0].fields.get("_seg") for (o, m, a) in trace_of(I) if o == "writer" and m == "add_reader"]
        if not isinstance(res, PyList):
            return z3.BoolVal(False)
        kept = res.items
        ok = all(isinstance(x, SegStub) for x in kept) and all(isinstance(x, SegStub) for x in merged)
        if not ok:
            return z3.BoolVal(False)
        ks, ms = sorted(x.k for x in kept), sorted(x.k for x in merged)
        # every segment is either kept in the list that becomes the new TOC or handed to add_reader - exactly once
        return z3.BoolVal(sorted(ks + ms) == list(range(len(segs))) and (not ms or len(ms) > 1))

    def mp_post_all(I, env):
        segs = I.old_env["segments"].items
        merged = [a[0].fields.get("_seg") for (o, m, a) in trace_of(I) if o == "writer" and m == "add_reader"]
        res = env["result"]
        return z3.BoolVal(isinstance(res, PyList) and res.items == [] and [getattr(x, "k", None) for x in merged] == list(range(len(segs))))

    W_ = "whoosh.writing"
    R.contract(W_ + ":MERGE_SMALL", props=["C06", "C07", "C02", "C03"], setup=mp_setup,
               variants=[dict(nseg=n) for n in (6, 8, 5, 4, 1, 0)],
               ensures=[mp_post],
               opts={"builtin_override": {"sorted": Builtin("sorted", lambda I, args, kw, node: args[0])}},
               canaries=[Canary("remaining-segments-dropped", "unchanged_segments.append(seg)", "pass"),
                         Canary("merge-list-misses-last", "segments_to_merge.append((seg, i))", "segments_to_merge.append((seg, i)) if i != 2 else None")],
               assumptions=["the segments are given in ascending doc_count_all order (sorted() is the identity on them); "
                            "segment lists of 0, 1, 4, 5, 6, 8 entries with arbitrary sizes"],
               note="the default merge policy partitions the segments: each is either kept for the new TOC or merged into the "
                    "new segment through add_reader, never both, never neither")
    R.contract(W_ + ":OPTIMIZE", props=["C06", "C07", "C02", "C03"], setup=mp_setup, variants=[dict(nseg=n) for n in (0, 1, 3)],
               ensures=[mp_post_all], 
               note="optimize merges every segment (C02/C03: a merge policy only partitions the segment list and feeds readers to "
                    "the writer - anything else it does to a committed segment, e.g. deleting its files before the new TOC "
                    "exists, is outside the stub's interface and refuted as an escaping exception)")
