"""C11 / C01 / C06 / C05 / C12 — W3LeafMatcher (whoosh.codec.whoosh3): the block-structured posting reader is a faithful
cursor over the concatenation of its blocks.

Ghost structure of one posting list (what W3PostingsWriter produced; decoding a block header/body is class A):
    NB >= 1 blocks; block b has LEN(b) >= 1 postings with ids IDS(b, 0) < ... < IDS(b, LEN(b)-1) = MAXID(b) < IDS(b+1, 0);
    block b starts at file offset OFF(b); BQ(b) is the scorer's quality bound computed from block b's statistics.
State of the matcher: ghost `blk` (current block), `_i` (position inside it), `_atend`.
    mem(self, d)  =  exists b, i .  d == IDS(b, i)
    pos(self)     =  IDS(blk, _i) while active, INF at the end
`_goto` (seek + read block header) and `_read_ids` (unpickle + delta-decode) are contracts, not verified: they establish
that the cached header fields and the id tuple are those of block `blk`.
"""
import z3
from pyvc.contract import Canary, LoopSpec
from pyvc.values import Obj, Abstract, Opt, OutsideSubset
from pyvc.ops import to_z3
from pyvc.theories.cursor import VIEWS, INF
from contracts.matchers import NEXT_POST, SKIP_POST, ACTIVE

W3 = "whoosh.codec.whoosh3"
IntS, RealS = z3.IntSort(), z3.RealSort()
NB = z3.Int("leaf_nblocks")
LEN = z3.Function("leaf_block_len", IntS, IntS)
IDS = z3.Function("leaf_block_id", IntS, IntS, IntS)
MAXID = z3.Function("leaf_block_maxid", IntS, IntS)
OFF = z3.Function("leaf_block_offset", IntS, IntS)
BQ = z3.Function("leaf_block_quality", IntS, RealS)
PROPS = ["C11", "C01", "C06"]


class IdsView(Abstract):
    """self._ids once loaded: the id tuple of the matcher's CURRENT block (`_goto`, which is where the real code drops the
    cached tuple, is an assumed contract - so the view follows the ghost block index)"""
    def __init__(self, owner):
        self.owner = owner

    def havoc(self, I):
        pass

    def is_none(self, I):
        return False

    def getitem(self, I, idx, node=None):
        idx = to_z3(idx)
        blk = self.owner.fields["blk"]
        if not I.in_spec:
            I.oblige("no-raise", "ids-index-in-block", z3.And(idx >= 0, idx < LEN(blk)),
                     note="index into the current block's id tuple")
        return IDS(blk, idx)


class ScorerStub(Abstract):
    def havoc(self, I):
        pass

    def truth(self, I):
        return True

    def m_block_quality(self, I, m):
        return BQ(m.fields["blk"])

    def m_supports_block_quality(self, I):
        return True


def structure(I):
    b, i, j = z3.Int("sb"), z3.Int("si"), z3.Int("sj")
    return z3.And(NB >= 1, INF > 0,
                  z3.ForAll([b], z3.Implies(z3.And(0 <= b, b < NB), z3.And(LEN(b) >= 1, MAXID(b) == IDS(b, LEN(b) - 1)))),
                  z3.ForAll([b, i], z3.Implies(z3.And(0 <= b, b < NB, 0 <= i, i < LEN(b)), z3.And(IDS(b, i) >= 0, IDS(b, i) < INF))),
                  z3.ForAll([b, i, j], z3.Implies(z3.And(0 <= b, b < NB, 0 <= i, i < j, j < LEN(b)), IDS(b, i) < IDS(b, j))),
                  z3.ForAll([b], z3.Implies(z3.And(0 <= b, b < NB - 1), MAXID(b) < IDS(b + 1, 0))),
                  # consequences of the lines above, stated so that the solver need not chain them by induction
                  z3.ForAll([b, j], z3.Implies(z3.And(0 <= b, b < j, j < NB), MAXID(b) < IDS(j, 0))),
                  z3.ForAll([b, i], z3.Implies(z3.And(0 <= b, b < NB, 0 <= i, i < LEN(b)), IDS(b, i) <= MAXID(b))),
                  z3.ForAll([b, i, j, z3.Int("sk")],
                            z3.Implies(z3.And(0 <= b, b < j, j < NB, 0 <= i, i < LEN(b), 0 <= z3.Int("sk"), z3.Int("sk") < LEN(j)),
                                       IDS(b, i) < IDS(j, z3.Int("sk")))))


def flds(o):
    return o.fields


def active(o):
    f = flds(o)
    return z3.And(z3.Not(to_z3(f["_atend"])), to_z3(f["_i"]) < to_z3(f["_blocklength"]))


def wf(I, o):
    f = flds(o)
    blk, i = f["blk"], to_z3(f["_i"])
    return z3.And(0 <= blk, blk < NB, to_z3(f["_blocklength"]) == LEN(blk), to_z3(f["_maxid"]) == MAXID(blk),
                  to_z3(f["_lastblock"]) == (blk == NB - 1), to_z3(f["_nextoffset"]) == OFF(blk + 1),
                  to_z3(f["_baseoffset"]) == OFF(0), 0 <= i, i <= LEN(blk),
                  z3.Implies(z3.Not(to_z3(f["_atend"])), i < LEN(blk)), z3.Implies(to_z3(f["_atend"]), blk == NB - 1))


def wf_weak(I, o):
    """between `_i += 1` and `_next_block()`: the pointer may stand one past the block"""
    f = flds(o)
    blk, i = f["blk"], to_z3(f["_i"])
    return z3.And(0 <= blk, blk < NB, to_z3(f["_blocklength"]) == LEN(blk), to_z3(f["_maxid"]) == MAXID(blk),
                  to_z3(f["_lastblock"]) == (blk == NB - 1), to_z3(f["_nextoffset"]) == OFF(blk + 1),
                  to_z3(f["_baseoffset"]) == OFF(0), 0 <= i, i <= LEN(blk), z3.Implies(to_z3(f["_atend"]), blk == NB - 1))


def v_leaf():
    def mem(I, o, d):
        b, i = z3.Int(I.fresh_name("mb")), z3.Int(I.fresh_name("mi"))
        return z3.Exists([b, i], z3.And(0 <= b, b < NB, 0 <= i, i < LEN(b), IDS(b, i) == d))

    def pos(I, o):
        f = flds(o)
        return z3.If(active(o), IDS(f["blk"], to_z3(f["_i"])), INF)
    return dict(mem=mem, pos=pos, inv=wf, sc=lambda I, o, s: z3.RealVal(0))


VIEWS[W3 + ":W3LeafMatcher"] = v_leaf()


def register(R, tier="quick"):
    def mk(I, ids_loaded=False, **kw):
        blk = z3.Int("blk")
        f = {"blk": blk, "_i": z3.Int("i"), "_atend": z3.Bool("atend"), "_lastblock": z3.Bool("lastblock"),
             "_blocklength": z3.Int("blocklength"), "_maxid": z3.Int("maxid"), "_nextoffset": z3.Int("nextoffset"),
             "_baseoffset": z3.Int("baseoffset"), "_ids": None, "_weights": None, "_values": None,
             "_data": None, "scorer": ScorerStub(), "_maxweight": z3.Real("maxweight"), "_minlength": z3.Int("minlength"),
             "_maxlength": z3.Int("maxlength"), "_compression": 0, "_byteids": False}
        o = Obj(I.repo.klass(W3, "W3LeafMatcher"), f)
        if ids_loaded:
            f["_ids"] = IdsView(o)
        I.assume(structure(I))
        return {"self": o}

    MOD = ["self.blk", "self._i", "self._atend", "self._lastblock", "self._blocklength", "self._maxid", "self._nextoffset",
           "self._maxweight", "self._minlength", "self._maxlength"]

    def drop_ids(I, env):
        flds(env["self"])["_ids"] = None

    def hint(I, env):
        """concrete pre-state for the vacuity check: two blocks {3,5} and {9}, standing on 3"""
        f = flds(env["self"])
        b, i = z3.Int("hb"), z3.Int("hi")
        return [NB == 2, INF == 1000, z3.ForAll([b], LEN(b) == z3.If(b == 0, 2, 1)),
                z3.ForAll([b, i], IDS(b, i) == z3.If(b == 0, z3.If(i == 0, 3, z3.If(i == 1, 5, 6 + i)), z3.If(b == 1, 9 + i, 100 * b + i))),
                z3.ForAll([b], MAXID(b) == z3.If(b == 0, 5, z3.If(b == 1, 9, 100 * b))),
                z3.ForAll([b], OFF(b) == 10 * b), z3.ForAll([b], BQ(b) == 1),
                f["blk"] == 0, f["_i"] == 0, z3.Not(f["_atend"])] + ([env["targetid"] == 9] if "targetid" in env else [])

    K = W3 + ":W3LeafMatcher."

    # ---- decoding steps as contracts (class A)
    def goto_effect(I, env):
        o = env["self"]
        f = flds(o)
        nb = z3.Int(I.fresh_name("blk"))
        I.assume(z3.And(0 <= nb, nb < NB, OFF(nb) == to_z3(env["position"])))
        # offsets identify blocks
        I.assume(z3.Implies(to_z3(env["position"]) == OFF(f["blk"] + 1), nb == f["blk"] + 1))
        I.assume(z3.Implies(to_z3(env["position"]) == OFF(0), nb == 0))
        f["blk"] = nb
        f["_i"] = z3.IntVal(0)
        f["_ids"] = None
        f["_weights"] = None
        f["_values"] = None
        f["_data"] = None
        f["_blocklength"] = LEN(nb)
        f["_maxid"] = MAXID(nb)
        f["_lastblock"] = (nb == NB - 1)
        f["_nextoffset"] = OFF(nb + 1)

    R.contract(K + "_goto", props=PROPS, verify=False,
               requires=[lambda I, env: z3.Or(to_z3(env["position"]) == OFF(0),
                                              z3.And(to_z3(env["position"]) == OFF(flds(env["self"])["blk"] + 1),
                                                     flds(env["self"])["blk"] + 1 < NB))],
               effect=goto_effect,
               note="assumed (class A: file seek, read_int, read_pickle): positioning at a block's offset loads that block's "
                    "header - length, last id, max weight, last-block flag, offset of the next block - and resets the in-block "
                    "pointer; the requires clause (a call-pre obligation at every call site) says the position must BE a block "
                    "offset: the list start or the block after the current one")

    def readids_effect(I, env):
        f = flds(env["self"])
        f["_ids"] = IdsView(env["self"])

    R.contract(K + "_read_ids", props=PROPS, verify=False, effect=readids_effect,
               note="assumed (class A: unpickle + delta_decode): the id tuple loaded is that of the current block")

    # ---- the cursor interface, verified
    R.contract(K + "is_active", props=PROPS, setup=mk, cover_hint=hint, requires=["minv(self)"],
               ensures=["result == (pos(self) < INF)"], returns="bool", inline=True)
    for loaded in (False, True):
        R.contract(K + "id", label=K + "id" + ("#ids-loaded" if loaded else ""), props=PROPS,
                   setup=lambda I, loaded=loaded: mk(I, ids_loaded=loaded), cover_hint=hint,
                   requires=["minv(self)", ACTIVE], ensures=["result == pos(self)", "minv(self)"], returns="int",
                   modifies=["self._ids"] if not loaded else [],
                   effect=(lambda I, env: readids_effect(I, env)),
                   canaries=[Canary("always-first-of-block", "return self._ids[self._i]", "return self._ids[0]")] if loaded else [])
    R.contract(K + "_next_block", props=PROPS, setup=mk, cover_hint=hint, modifies=MOD, effect=drop_ids,
               requires=[lambda I, env: wf_weak(I, env["self"]), lambda I, env: z3.Not(to_z3(flds(env["self"])["_atend"]))],
               ensures=[lambda I, env: wf_weak(I, env["self"]),
                        lambda I, env: z3.Implies(z3.Not(to_z3(flds(env["self"])["_atend"])), to_z3(flds(env["self"])["_i"]) == 0),
                        lambda I, env: z3.If(to_z3(flds(I.old_env["self"])["_lastblock"]),
                                             z3.And(to_z3(flds(env["self"])["_atend"]), flds(env["self"])["blk"] == flds(I.old_env["self"])["blk"]),
                                             z3.And(z3.Not(to_z3(flds(env["self"])["_atend"])),
                                                    flds(env["self"])["blk"] == flds(I.old_env["self"])["blk"] + 1,
                                                    to_z3(flds(env["self"])["_i"]) == 0))],
               raises={"Exception": "False"},
               canaries=[Canary("last-block-not-final", "elif self._lastblock:", "elif False:")],
               note="moves to the first posting of the next block, or to the end after the last block")
    R.contract(K + "next", props=PROPS, setup=mk, cover_hint=hint, requires=["minv(self)", ACTIVE], modifies=MOD, effect=drop_ids,
               ensures=NEXT_POST, returns="bool",
               canaries=[Canary("block-end-off-by-one", "if self._i == self._blocklength:", "if self._i == self._blocklength - 1:")],
               note="steps inside the block and crosses to the next block exactly after the last posting of a block")

    def skip_inv(I, env):
        # context of the caller: which blocks may be skipped
        ctx = I.ghost.get("skip_ctx")
        o = env["self"]
        f = flds(o)
        b = z3.Int(I.fresh_name("kb"))
        blk0 = I.ghost["skip_blk0"]
        return z3.And(wf_weak(I, o), z3.Implies(z3.Not(to_z3(f["_atend"])), to_z3(f["_i"]) < LEN(f["blk"])), blk0 <= f["blk"],
                      z3.Implies(z3.Not(to_z3(f["_atend"])), to_z3(f["_i"]) == z3.If(f["blk"] == blk0, I.ghost["skip_i0"], 0)),
                      z3.ForAll([b], z3.Implies(z3.And(blk0 <= b, b < f["blk"]), ctx(b))),
                      z3.Implies(to_z3(f["_atend"]), ctx(f["blk"])), to_z3(env["skipped"]) >= 0)

    R.contract(K + "_skip_to_block", props=PROPS, inline=True, verify=False,
               loops={0: LoopSpec(inv=[skip_inv], modifies=MOD + ["self._ids"])},
               note="inlined at its call sites (its argument is a closure of the caller); the loop invariant says every block "
                    "left behind satisfied the caller's skip condition")

    def skip_setup(I, **kw):
        env = mk(I)
        env["targetid"] = z3.Int("targetid")
        t = env["targetid"]
        f = flds(env["self"])
        I.ghost["skip_ctx"] = lambda b: t > MAXID(b)
        I.ghost["skip_blk0"] = f["blk"]
        I.ghost["skip_i0"] = f["_i"]
        return env

    def nothing_skipped(I, env):
        """block-level form of `no posting >= targetid lies behind the position`: every block before the current one ends
        below the target, and so does every posting of the current block before the pointer"""
        f = flds(env["self"])
        t = env["targetid"]
        b, k = z3.Int(I.fresh_name("nb")), z3.Int(I.fresh_name("nk"))
        upto = z3.If(to_z3(f["_atend"]), f["blk"] + 1, f["blk"])
        return z3.And(z3.ForAll([b], z3.Implies(z3.And(0 <= b, b < upto), MAXID(b) < t)),
                      z3.Implies(z3.Not(to_z3(f["_atend"])),
                                 z3.ForAll([k], z3.Implies(z3.And(0 <= k, k < to_z3(f["_i"])), IDS(f["blk"], k) < t))))

    SKIP_POST_T = [s.replace("id <=", "targetid <=").replace("id >", "targetid >").replace(">= id", ">= targetid") for s in SKIP_POST]
    def skip_post_entries(I, env):
        """mem-level statement with the membership unfolded: every posting (b, i) at or above the target is at or after
        the position"""
        o = env["self"]
        t = env["targetid"]
        b, i = z3.Int(I.fresh_name("pb")), z3.Int(I.fresh_name("pi"))
        p_old = VIEWS[W3 + ":W3LeafMatcher"]["pos"](I, I.old_env["self"])
        p_new = VIEWS[W3 + ":W3LeafMatcher"]["pos"](I, o)
        body = z3.Implies(z3.And(0 <= b, b < NB, 0 <= i, i < LEN(b), IDS(b, i) >= t), IDS(b, i) >= p_new)
        return z3.Implies(t > p_old, z3.And(z3.Or(p_new >= t, p_new == INF),
                                            z3.ForAll([b, i], body, patterns=[IDS(b, i)])))

    R.contract(K + "skip_to", props=PROPS, setup=skip_setup, cover_hint=hint, requires=["minv(self)", ACTIVE],
               ensures=SKIP_POST_T[:3] + [skip_post_entries], raises={"ReadTooFar": "False"},
               loops={0: LoopSpec(inv=["minv(self)", "pos(self) >= old(pos(self))", nothing_skipped],
                                  modifies=MOD + ["self._ids"])},
               canaries=[Canary("skip-condition-inclusive", "lambda: targetid > block_max_id()", "lambda: targetid >= block_max_id()"),
                         Canary("scan-stops-early", "self.id() < targetid", "self.id() < targetid - 1")],
               note="skips whole blocks whose last id is below the target, then scans: lands on the least posting >= target")

    R.contract(K + "reset", props=PROPS, setup=mk, cover_hint=hint,
               requires=[lambda I, env: to_z3(flds(env["self"])["_baseoffset"]) == OFF(0)],
               ensures=["minv(self)", "behind_free(self)", "pos(self) < INF"], modifies=MOD, effect=drop_ids,
               canaries=[Canary("end-flag-not-cleared", "self._atend = False", "pass")],
               note="reset() returns to the first posting of the first block")

    # ---- block-quality skipping (C05 / C12): only blocks whose quality bound is <= minquality are left behind
    def skq_setup(I, **kw):
        env = mk(I)
        env["minquality"] = z3.Real("minquality")
        q = env["minquality"]
        f = flds(env["self"])
        I.ghost["skip_ctx"] = lambda b: BQ(b) <= q
        I.ghost["skip_blk0"] = f["blk"]
        I.ghost["skip_i0"] = f["_i"]
        return env

    def skq_post(I, env):
        o, o0 = env["self"], I.old_env["self"]
        f, f0 = flds(o), flds(o0)
        q = env["minquality"]
        b = z3.Int(I.fresh_name("qb"))
        upto = z3.If(to_z3(f["_atend"]), f["blk"] + 1, f["blk"])
        return z3.And(wf_weak(I, o), f["blk"] >= f0["blk"],
                      # every block left behind had a quality bound <= minquality ...
                      z3.ForAll([b], z3.Implies(z3.And(f0["blk"] <= b, b < upto, z3.Or(b != f0["blk"], f["blk"] != f0["blk"],
                                                                                         to_z3(f["_atend"]))), BQ(b) <= q)),
                      # ... and the matcher did not move inside a block it stays in
                      z3.Implies(z3.And(f["blk"] == f0["blk"], z3.Not(to_z3(f["_atend"]))), to_z3(f["_i"]) == to_z3(f0["_i"])),
                      z3.Implies(z3.And(f["blk"] > f0["blk"], z3.Not(to_z3(f["_atend"]))), to_z3(f["_i"]) == 0),
                      z3.Implies(z3.Not(to_z3(f["_atend"])), BQ(f["blk"]) > q))

    R.contract("whoosh.matching.mcore:LeafMatcher.block_quality", label=K + "block_quality", props=["C12", "C05"], verify=False,
               returns=lambda I, env: BQ(flds(env["self"])["blk"]),
               note="assumed: the scorer's bound computed from the current block's statistics (the scorer formulas are proved "
                    "in contracts/scoring.py)")
    R.contract(K + "skip_to_quality", props=["C12", "C05", "C01"], setup=skq_setup, cover_hint=hint,
               requires=["minv(self)", ACTIVE],
               ensures=[skq_post], returns="int", modifies=MOD + ["self._ids"],
               canaries=[Canary("skips-block-that-can-win", "lambda: block_quality() <= minquality", "lambda: block_quality() <= minquality + 1"),
                         Canary("skip-condition-inverted", "lambda: block_quality() <= minquality", "lambda: block_quality() > minquality")],
               note="skip_to_quality(q) only leaves behind whole blocks whose quality bound is <= q and stops at the start of "
                    "the first block that can still beat q (or at the end)")
