"""C11 / C01 — ListMatcher (whoosh.matching.mcore): the in-memory posting list used for pre-computed term sets
(MultiTerm's TOO_MANY_CLAUSES path, query facets, tests).  `_ids` is a strictly ascending list of any length, `_i` the cursor.

    mem(self, d) = exists k < len(_ids). _ids[k] == d          pos(self) = _ids[_i]  (INF once _i == len)
"""
import z3
from pyvc.contract import Canary, LoopSpec
from pyvc.values import Obj, SymList
from pyvc.ops import to_z3
from pyvc.theories.cursor import VIEWS, INF
from contracts.matchers import NEXT_POST, SKIP_POST, ACTIVE

MC = "whoosh.matching.mcore"
IntS = z3.IntSort()


def _ids(o):
    return o.fields["_ids"]


def v_list():
    def mem(I, o, d):
        ids = _ids(o)
        k = z3.Int(I.fresh_name("lk"))
        return z3.Exists([k], z3.And(0 <= k, k < ids.n, z3.Select(ids.arr, k) == d))

    def pos(I, o):
        ids, i = _ids(o), o.fields["_i"]
        return z3.If(i < ids.n, z3.Select(ids.arr, i), INF)

    def inv(I, o):
        ids, i = _ids(o), o.fields["_i"]
        a, b = z3.Int("la"), z3.Int("lb")
        return z3.And(0 <= i, i <= ids.n, ids.n >= 0,
                      z3.ForAll([a], z3.Implies(z3.And(0 <= a, a < ids.n), z3.And(0 <= z3.Select(ids.arr, a), z3.Select(ids.arr, a) < INF))),
                      z3.ForAll([a, b], z3.Implies(z3.And(0 <= a, a < b, b < ids.n), z3.Select(ids.arr, a) < z3.Select(ids.arr, b))))
    return dict(mem=mem, pos=pos, inv=inv, sc=lambda I, o, s: z3.RealVal(0))


VIEWS[MC + ":ListMatcher"] = v_list()


def register(R, tier="quick"):
    register_base(R)

    def mk(I, **kw):
        ids = SymList(z3.Array(I.fresh_name("ids"), IntS, IntS), z3.Int(I.fresh_name("nids")), "list")
        return {"self": Obj(I.repo.klass(MC, "ListMatcher"), {"_ids": ids, "_i": z3.Int("_i"), "_weights": None, "_all_weights": None,
                                                               "_values": None, "_scorer": None, "_term": None, "_terminfo": None,
                                                               "_format": None})}

    def mk_id(I, **kw):
        env = mk(I)
        env["id"] = z3.Int("id")
        return env

    def hint(I, env):
        ids = _ids(env["self"])
        cs = [ids.n == 2, z3.Select(ids.arr, 0) == 3, z3.Select(ids.arr, 1) == 7, env["self"].fields["_i"] == 0, INF == 1000]
        if "id" in env:
            cs.append(env["id"] == 5)
        return cs

    K = MC + ":ListMatcher."
    R.contract(K + "is_active", props=["C11", "C01"], setup=mk, cover_hint=hint, requires=["minv(self)"],
               ensures=["result == (pos(self) < INF)"], returns="bool", inline=True)
    R.contract(K + "id", props=["C11", "C01"], setup=mk, cover_hint=hint, requires=["minv(self)", ACTIVE], ensures=["result == pos(self)"],
               returns="int", canaries=[Canary("previous-entry", "return self._ids[self._i]", "return self._ids[self._i - 1]")])
    R.contract(K + "next", props=["C11", "C01"], setup=mk, cover_hint=hint, requires=["minv(self)", ACTIVE], ensures=NEXT_POST,
               modifies=["self._i"], returns="opaque",
               canaries=[Canary("skips-an-entry", "self._i += 1", "self._i += 2")],
               note="next() advances by exactly one entry of the list")
    R.contract(K + "skip_to", props=["C11", "C01"], setup=mk_id, cover_hint=hint, requires=["minv(self)", ACTIVE], ensures=SKIP_POST,
               modifies=["self._i"], returns="opaque", raises={"ReadTooFar": "False"},
               loops={0: LoopSpec(inv=["minv(self)", "pos(self) >= old(pos(self))",
                                       "forall(lambda s: implies(mem(self, s) and s >= id, s >= pos(self)))"],
                                  modifies=["self._i"])},
               canaries=[Canary("stops-one-early", "self._ids[self._i] < id", "self._ids[self._i] < id - 1"),
                         Canary("passes-the-target", "self._ids[self._i] < id", "self._ids[self._i] <= id")],
               note="skip_to(t) lands on the first entry >= t and does not move when t is not beyond the current id")
    R.contract(K + "reset", props=["C11"], setup=mk, cover_hint=hint,
               requires=[lambda I, env: VIEWS[MC + ":ListMatcher"]["inv"](I, env["self"])],
               ensures=["minv(self)", "behind_free(self)"], modifies=["self._i"],
               canaries=[Canary("does-not-rewind", "self._i = 0", "pass")],
               note="reset() returns to the first entry")


def register_base(R):
    """The default Matcher.skip_to (step until the target) over ANY matcher satisfying the cursor interface: used by the
    matchers that do not override it (NestedChildMatcher inside a group, span matchers' children, custom matchers)."""
    from pyvc.theories.cursor import Cursor

    def mk(I):
        return {"self": Cursor(I, "m"), "id": z3.Int("id")}

    R.contract(MC + ":Matcher.skip_to", props=["C11"], setup=mk,
               requires=["minv(self)"],
               ensures=["minv(self)", "wfpos(self)",
                        "implies(id <= old(pos(self)), pos(self) == old(pos(self)))",
                        "implies(id > old(pos(self)), (pos(self) >= id or pos(self) == INF) and "
                        "forall(lambda s: implies(mem(self, s) and s >= id, s >= pos(self))))"],
               modifies=["self"],
               loops={0: LoopSpec(inv=["minv(self)", "wfpos(self)", "pos(self) >= old(pos(self))",
                                       "implies(id <= old(pos(self)), pos(self) == old(pos(self)))",
                                       "forall(lambda s: implies(mem(self, s) and s >= id and s >= old(pos(self)), s >= pos(self)))"],
                                  modifies=["self"])},
               canaries=[Canary("passes-the-target", "self.id() < id", "self.id() <= id")],
               note="the inherited skip_to(t): steps with next() until the id reaches t - lands on the first entry >= t, does "
                    "not move when t is not beyond the current id")
