"""C11 / C01 / C09 / C12 / C05 — binary matchers (whoosh.matching.binary) against
the cursor theory.  Each class gets an abstraction relation (VIEWS) and every
method is proved to implement the Matcher interface contract over it."""
import z3
from pyvc.contract import Canary, LoopSpec
from pyvc.values import Obj, Opt, Opaque
from pyvc.theories.cursor import Cursor, VIEWS, INF, mem, score_at, pos, minv

BIN = "whoosh.matching.binary"
PROPS_CUR = ["C11", "C01"]          # cursor protocol + which documents
PROPS_SC = ["C09", "C11"]           # score composition
PROPS_Q = ["C12", "C05", "C09"]     # quality bounds / top-N skipping (scores of what survives: C09)


def _ab(o):
    return o.fields["a"], o.fields["b"]


def both(I, o):
    a, b = _ab(o)
    return z3.And(pos(I, a) < INF, pos(I, b) < INF)


# ------------------------------------------------------------------ views
def v_inter():
    def m(I, o, s):
        a, b = _ab(o)
        return z3.And(mem(I, a, s), mem(I, b, s))

    def sc(I, o, s):
        a, b = _ab(o)
        return score_at(I, a, s) + score_at(I, b, s)

    def p(I, o):
        a, b = _ab(o)
        return z3.If(both(I, o), pos(I, a), INF)

    def inv(I, o):
        a, b = _ab(o)
        return z3.And(minv(I, a), minv(I, b), z3.Or(z3.Not(both(I, o)), pos(I, a) == pos(I, b)))
    return dict(mem=m, sc=sc, pos=p, inv=inv)


def frontier(I, o):
    """Neither child has passed an id the union has not reported yet."""
    a, b = _ab(o)
    s = z3.Int(I.fresh_name("s"))
    cur = v_union()["pos"](I, o)
    return z3.And(z3.ForAll([s], z3.Implies(z3.And(mem(I, a, s), s >= cur), s >= pos(I, a))),
                  z3.ForAll([s], z3.Implies(z3.And(mem(I, b, s), s >= cur), s >= pos(I, b))))


def low_passed(I, o, q):
    """Entries a child has already passed but the union has not reported yet
    score at most q in that child (what skip_to_quality leaves behind)."""
    a, b = _ab(o)
    s = z3.Int(I.fresh_name("s"))
    cur = v_union()["pos"](I, o)
    from pyvc.theories.cursor import _real
    q = _real(q)
    return z3.And(z3.ForAll([s], z3.Implies(z3.And(mem(I, a, s), s >= cur, s < pos(I, a)), score_at(I, a, s) <= q)),
                  z3.ForAll([s], z3.Implies(z3.And(mem(I, b, s), s >= cur, s < pos(I, b)), score_at(I, b, s) <= q)))


def v_union(dismax=False):
    def m(I, o, s):
        a, b = _ab(o)
        return z3.Or(mem(I, a, s), mem(I, b, s))

    def sc(I, o, s):
        a, b = _ab(o)
        sa, sb = score_at(I, a, s), score_at(I, b, s)
        if dismax:
            return z3.If(z3.And(mem(I, a, s), mem(I, b, s)), z3.If(sa >= sb, sa, sb), z3.If(mem(I, a, s), sa, sb))
        return z3.If(mem(I, a, s), sa, 0) + z3.If(mem(I, b, s), sb, 0)

    def p(I, o):
        a, b = _ab(o)
        pa, pb = pos(I, a), pos(I, b)
        return z3.If(pa <= pb, pa, pb)

    def inv(I, o):
        a, b = _ab(o)
        idv = o.fields.get("_id")
        idok = z3.BoolVal(True)
        if isinstance(idv, Opt):
            idok = z3.Or(idv.isnone, idv.val == p(I, o))
        elif idv is not None:
            idok = (idv == p(I, o))
        return z3.And(minv(I, a), minv(I, b), frontier(I, o), idok)
    return dict(mem=m, sc=sc, pos=p, inv=inv)


def lag_ok(I, o):
    """AndNot / AndMaybe: the second child never jumped over the first one's
    position: it is behind it, or nothing of b lies in [pos(a), pos(b))
    (pos(b) may be INF)."""
    a, b = _ab(o)
    return lagcond(I, a, b)


def lagcond(I, a, b):
    s = z3.Int(I.fresh_name("s"))
    return z3.Or(pos(I, b) < pos(I, a),
                 z3.ForAll([s], z3.Implies(z3.And(mem(I, b, s), s >= pos(I, a)), s >= pos(I, b))))


def v_andnot():
    def m(I, o, s):
        a, b = _ab(o)
        return z3.And(mem(I, a, s), z3.Not(mem(I, b, s)))

    def sc(I, o, s):
        return score_at(I, _ab(o)[0], s)

    def p(I, o):
        return pos(I, _ab(o)[0])

    def inv(I, o):
        a, b = _ab(o)
        return z3.And(minv(I, a), minv(I, b),
                      z3.Or(pos(I, a) == INF, z3.And(z3.Not(mem(I, b, pos(I, a))), lag_ok(I, o))))
    return dict(mem=m, sc=sc, pos=p, inv=inv)


def v_andmaybe():
    def m(I, o, s):
        return mem(I, _ab(o)[0], s)

    def sc(I, o, s):
        a, b = _ab(o)
        return score_at(I, a, s) + z3.If(mem(I, b, s), score_at(I, b, s), 0)

    def p(I, o):
        return pos(I, _ab(o)[0])

    def inv(I, o):
        a, b = _ab(o)
        return z3.And(minv(I, a), minv(I, b),
                      z3.Or(pos(I, a) == INF, z3.And(pos(I, b) >= pos(I, a), lag_ok(I, o))))
    return dict(mem=m, sc=sc, pos=p, inv=inv)


VIEWS[BIN + ":IntersectionMatcher"] = v_inter()
VIEWS[BIN + ":UnionMatcher"] = v_union()
VIEWS[BIN + ":DisjunctionMaxMatcher"] = v_union(dismax=True)
VIEWS[BIN + ":AndNotMatcher"] = v_andnot()
VIEWS[BIN + ":AndMaybeMatcher"] = v_andmaybe()


def mk(cls, strict_skip=False, **extra):
    def setup(I, **kw):
        a = Cursor(I, "a", strict_skip=strict_skip)
        b = Cursor(I, "b", strict_skip=strict_skip)
        f = {"a": a, "b": b}
        for k, v in extra.items():
            f[k] = v(I) if callable(v) else v
        return {"self": Obj(I.repo.klass(BIN, cls), f)}
    return setup


def mk_args(cls, names, strict_skip=False, **extra):
    base = mk(cls, strict_skip=strict_skip, **extra)

    def setup(I, **kw):
        env = base(I)
        for n, kind in names.items():
            env[n] = z3.Int(n) if kind == "int" else z3.Real(n)
        return env
    return setup


# generic interface postconditions over the view of `self`
NEXT_POST = ["minv(self)", "wfpos(self)", "pos(self) > old(pos(self))",
             "forall(lambda s: implies(mem(self, s) and s > old(pos(self)), s >= pos(self)))"]
SKIP_POST = ["minv(self)", "wfpos(self)",
             "implies(id <= old(pos(self)), pos(self) == old(pos(self)))",
             "implies(id > old(pos(self)), (pos(self) >= id or pos(self) == INF) and "
             "forall(lambda s: implies(mem(self, s) and s >= id, s >= pos(self))))"]
ACTIVE = "pos(self) < INF"


def register(R, tier="quick"):
    from pyvc.values import SpecFn
    SF = {"both": SpecFn("both", both), "frontier": SpecFn("frontier", frontier), "lag_ok": SpecFn("lag_ok", lag_ok),
          "lagcond": SpecFn("lagcond", lagcond),
          "low_passed": SpecFn("low_passed", low_passed)}

    def C(key, **kw):
        kw.setdefault("spec_funcs", SF)
        return R.contract(key, **kw)

    # ================================================================ IntersectionMatcher
    K = BIN + ":IntersectionMatcher."
    su = mk("IntersectionMatcher")
    C(K + "_find_next", props=PROPS_CUR, setup=su,
      requires=["minv(self.a)", "minv(self.b)", "both(self)", "pos(self.a) != pos(self.b)"],
      modifies=["self.a", "self.b"],
      ensures=["minv(self)", "wfpos(self)",
               "pos(self.a) >= old(pos(self.a))", "pos(self.b) >= old(pos(self.b))",
               "forall(lambda s: implies(mem(self, s) and s >= old(pos(self.a)) and s >= old(pos(self.b)), s >= pos(self)))",
               "implies(both(self), pos(self.a) == pos(self.b))"],
      returns="opaque",
      loops={0: LoopSpec(inv=["minv(self.a)", "minv(self.b)",
                              "pos(self.a) >= old(pos(self.a))", "pos(self.b) >= old(pos(self.b))",
                              "implies(pos(a) < INF, a_id == pos(a))", "implies(pos(b) < INF, b_id == pos(b))",
                              "forall(lambda s: implies(mem(self, s) and s >= old(pos(self.a)) and s >= old(pos(self.b)), "
                              "s >= pos(a) and s >= pos(b)))"])},
      canaries=[Canary("skip-past-target", "ra = a.skip_to(b_id)", "ra = a.skip_to(b_id + 1)"),
                Canary("stops-when-unequal", "and (a_id != b_id)", "and (a_id > b_id)")],
      note="synchronises the children on the first common id at or after both positions")
    C(K + "__init__", props=PROPS_CUR,
      setup=lambda I: {"self": Obj(I.repo.klass(BIN, "IntersectionMatcher")), "a": Cursor(I, "a"), "b": Cursor(I, "b")},
      requires=["minv(a)", "minv(b)"], modifies=[],
      ensures=["self.a is a", "self.b is b", "minv(self)", "wfpos(self)",
               "pos(a) >= old(pos(a))", "pos(b) >= old(pos(b))",
               "forall(lambda s: implies(mem(self, s) and s >= old(pos(a)) and s >= old(pos(b)), s >= pos(self)))"],
      inline=True,
      canaries=[Canary("no-initial-sync", "self._find_first()", "pass")],
      note="construction establishes the class invariant (children synced on the first common id)")
    C(K + "is_active", props=PROPS_CUR, setup=su, requires=["minv(self)"], ensures=["result == (pos(self) < INF)"],
      returns="bool", inline=True)
    C(K + "id", props=PROPS_CUR, setup=su, requires=["minv(self)", ACTIVE], ensures=["result == pos(self)"],
      returns="int", inline=True,
      canaries=[Canary("reads-b", "return self.a.id()", "return self.b.id() + 1")])
    C(K + "next", props=PROPS_CUR, setup=su, requires=["minv(self)", ACTIVE], modifies=["self.a", "self.b"],
      ensures=NEXT_POST, returns="opaque",
      canaries=[Canary("no-resync", "nr = self._find_next()", "nr = False"),
                Canary("advance-twice", "ar = self.a.next()", "ar = self.a.next()\n    self.a.next()")])
    C(K + "skip_to", props=PROPS_CUR, setup=mk_args("IntersectionMatcher", {"id": "int"}),
      requires=["minv(self)", ACTIVE], modifies=["self.a", "self.b"], ensures=SKIP_POST, returns="opaque",
      canaries=[Canary("skips-one-too-far", "ra = self.a.skip_to(id)", "ra = self.a.skip_to(id + 1)"),
                Canary("resync-guard-dropped", "if self.a.id() != self.b.id():\n            rn = self._find_next()", "if False:\n            rn = self._find_next()")])
    C(K + "reset", props=PROPS_CUR, setup=su, requires=["minv(self.a)", "minv(self.b)"], modifies=["self.a", "self.b"],
      ensures=["minv(self)", "wfpos(self)", "forall(lambda s: implies(mem(self, s), s >= pos(self)))"],
      canaries=[Canary("no-sync-after-reset", "self._find_first()", "pass")])

    # ================================================================ shared (AdditiveBiMatcher)
    A = BIN + ":AdditiveBiMatcher."
    REMAIN_BOUND = "forall(lambda s: implies(mem(self, s) and s >= pos(self), score_at(self, s) <= result))"
    QREQ = ["minv(self)", "supports_quality(self.a)", "supports_quality(self.b)"]
    for cls in ("IntersectionMatcher", "UnionMatcher", "AndMaybeMatcher"):
        idf = {"_id": lambda I: Opt(z3.Bool("idnone"), z3.Int("idval"))} if cls == "UnionMatcher" else {}
        sc = mk(cls, **idf)
        C(A + "max_quality", label=A + "max_quality@" + cls, props=PROPS_Q, setup=sc, requires=QREQ,
          ensures=[REMAIN_BOUND], returns="real",
          canaries=[Canary("b-forgotten", "q += self.b.max_quality()", "q += 0")] if cls != "AndMaybeMatcher" else [],
          note="max_quality() bounds the score of every remaining entry of the composite")
        C(A + "block_quality", label=A + "block_quality@" + cls, props=PROPS_Q, setup=sc, requires=QREQ + [ACTIVE],
          ensures=["score_at(self, pos(self)) <= result"], returns="real",
          canaries=[Canary("a-forgotten", "bq += self.a.block_quality()", "bq += 0")],
          note="block_quality() bounds the score of the current entry")
    C(A + "score", label=A + "score@IntersectionMatcher", props=PROPS_SC, setup=mk("IntersectionMatcher"),
      requires=["minv(self)", ACTIVE], ensures=["result == score_at(self, pos(self))"], returns="real",
      canaries=[Canary("a-only", "return self.a.score() + self.b.score()", "return self.a.score()")])

    # ================================================================ UnionMatcher / DisjunctionMaxMatcher
    for cls in ("UnionMatcher", "DisjunctionMaxMatcher"):
        U = BIN + ":UnionMatcher."
        tb = {"tiebreak": 0.0} if cls == "DisjunctionMaxMatcher" else {}
        su = mk(cls, _id=lambda I: Opt(z3.Bool("idnone"), z3.Int("idval")), **tb)
        sui = mk_args(cls, {"id": "int"}, _id=lambda I: Opt(z3.Bool("idnone"), z3.Int("idval")), **tb)
        at = "@" + cls
        C(U + "is_active", label=U + "is_active" + at, props=PROPS_CUR, setup=su, requires=["minv(self)"],
          ensures=["result == (pos(self) < INF)"], returns="bool", inline=True)
        C(U + "id", label=U + "id" + at, props=PROPS_CUR, setup=su, requires=["minv(self)", ACTIVE],
          modifies=["self._id"], ensures=["result == pos(self)", "minv(self)"], returns="int", inline=True,
          canaries=[Canary("max-instead-of-min", "_id = min(a.id(), b.id())", "_id = max(a.id(), b.id())")])
        C(U + "next", label=U + "next" + at, props=PROPS_CUR, setup=su, requires=["minv(self)", ACTIVE],
          modifies=["self.a", "self.b", "self._id"], ensures=NEXT_POST, returns="opaque",
          canaries=[Canary("only-a-advances-on-tie", "if b_id <= a_id:", "if b_id < a_id:"),
                    Canary("stale-id-cache", "self._id = None\n    a = self.a", "a = self.a")])
        C(U + "skip_to", label=U + "skip_to" + at, props=PROPS_CUR, setup=sui, requires=["minv(self)", ACTIVE],
          modifies=["self.a", "self.b", "self._id"], ensures=SKIP_POST, returns="opaque",
          canaries=[Canary("b-not-skipped", "rb = self.b.skip_to(id)", "rb = False"),
                    Canary("stale-id-cache", "self._id = None", "pass")])
    C(BIN + ":UnionMatcher.score", props=PROPS_SC, setup=mk("UnionMatcher", _id=lambda I: Opt(z3.Bool("idnone"), z3.Int("idval"))),
      requires=["minv(self)", ACTIVE], ensures=["result == score_at(self, pos(self))"], returns="real",
      canaries=[Canary("tie-takes-a-only", "return a.score() + b.score()", "return a.score()")],
      note="sum over the children that contain the current id (uses the frontier invariant)")
    D = BIN + ":DisjunctionMaxMatcher."
    sud = mk("DisjunctionMaxMatcher", _id=lambda I: Opt(z3.Bool("idnone"), z3.Int("idval")), tiebreak=0.0)
    C(D + "score", props=PROPS_SC, setup=sud, requires=["minv(self)", ACTIVE],
      ensures=["result == score_at(self, pos(self))"], returns="real",
      canaries=[Canary("min-instead-of-max", "return max(self.a.score(), self.b.score())", "return min(self.a.score(), self.b.score())")],
      note="maximum over the children that contain the current id")
    C(D + "max_quality", props=PROPS_Q, setup=sud, requires=QREQ, ensures=[REMAIN_BOUND], returns="real",
      canaries=[Canary("a-only", "return max(self.a.max_quality(), self.b.max_quality())", "return self.a.max_quality()")])
    C(D + "block_quality", props=PROPS_Q, setup=sud, requires=QREQ + [ACTIVE],
      ensures=["score_at(self, pos(self)) <= result"], returns="real")

    # ================================================================ AndNotMatcher
    N = BIN + ":AndNotMatcher."
    sn = mk("AndNotMatcher")
    C(N + "_find_next", props=PROPS_CUR, setup=sn,
      requires=["minv(self.a)", "minv(self.b)", "pos(self.a) < INF", "lagcond(self.a, self.b)"],
      modifies=["self.a", "self.b"],
      ensures=["minv(self)", "wfpos(self)", "pos(self.a) >= old(pos(self.a))",
               "forall(lambda s: implies(mem(self, s) and s >= old(pos(self.a)), s >= pos(self)))"],
      returns="opaque",
      loops={0: LoopSpec(inv=["minv(self.a)", "minv(self.b)", "position(self.a) >= old(position(self.a))", "position(self.a) < INF",
                              "pos_id == position(self.a)",
                              "position(neg) >= pos_id",
                              "none_in(neg, pos_id, position(neg))",
                              "forall(lambda s: implies(mem(self, s) and s >= old(position(self.a)), s >= position(self.a)))"])},
      canaries=[Canary("neg-not-caught-up", "if neg.id() < pos_id:\n        neg.skip_to(pos_id)", "pass")],
      note="moves the positive child to its first entry at or after its position that the negative child lacks")
    C(N + "__init__", props=PROPS_CUR, inline=True,
      setup=lambda I: {"self": Obj(I.repo.klass(BIN, "AndNotMatcher")), "a": Cursor(I, "a"), "b": Cursor(I, "b")},
      requires=["minv(a)", "minv(b)", "lagcond(a, b)"],
      ensures=["self.a is a", "self.b is b", "minv(self)", "wfpos(self)",
               "forall(lambda s: implies(mem(self, s) and s >= old(pos(a)), s >= pos(self)))"],
      note="construction establishes: current id of the positive child is not in the negative child")
    C(N + "is_active", props=PROPS_CUR, setup=sn, requires=["minv(self)"], ensures=["result == (pos(self) < INF)"],
      returns="bool", inline=True)
    C(N + "id", props=PROPS_CUR, setup=sn, requires=["minv(self)", ACTIVE], ensures=["result == pos(self)"],
      returns="int", inline=True)
    C(N + "next", props=PROPS_CUR, setup=sn, requires=["minv(self)", ACTIVE], modifies=["self.a", "self.b"],
      ensures=NEXT_POST, returns="opaque",
      canaries=[Canary("no-exclusion-after-next", "nr = self._find_next()", "nr = False")])
    C(N + "skip_to", props=PROPS_CUR, setup=mk_args("AndNotMatcher", {"id": "int"}),
      requires=["minv(self)", ACTIVE], modifies=["self.a", "self.b"], ensures=SKIP_POST, returns="opaque",
      canaries=[Canary("no-exclusion-after-skip", "self.b.skip_to(id)\n        self._find_next()", "self.b.skip_to(id)")])
    C(N + "score", props=PROPS_SC, setup=sn, requires=["minv(self)", ACTIVE],
      ensures=["result == score_at(self, pos(self))"], returns="real",
      canaries=[Canary("subtracts-b", "return self.a.score()", "return self.a.score() - 1")])
    C(N + "max_quality", props=PROPS_Q, setup=sn, requires=["minv(self)", "supports_quality(self.a)"],
      ensures=[REMAIN_BOUND], returns="real")
    C(N + "block_quality", props=PROPS_Q, setup=sn, requires=["minv(self)", "supports_quality(self.a)", ACTIVE],
      ensures=["score_at(self, pos(self)) <= result"], returns="real")
    C(N + "reset", props=PROPS_CUR, setup=sn, requires=["minv(self.a)", "minv(self.b)"], modifies=["self.a", "self.b"],
      ensures=["minv(self)", "wfpos(self)", "forall(lambda s: implies(mem(self, s), s >= pos(self)))"])

    # ================================================================ AndMaybeMatcher
    M = BIN + ":AndMaybeMatcher."
    sm = mk("AndMaybeMatcher")
    C(M + "__init__", props=PROPS_CUR, inline=True,
      setup=lambda I: {"self": Obj(I.repo.klass(BIN, "AndMaybeMatcher")), "a": Cursor(I, "a"), "b": Cursor(I, "b")},
      requires=["minv(a)", "minv(b)", "lagcond(a, b)"],
      ensures=["self.a is a", "self.b is b", "minv(self)", "pos(self) == old(pos(a))"],
      note="construction: optional child is moved up to the required child's id (it must not already be past it "
           "with entries skipped: precondition)")
    C(M + "is_active", props=PROPS_CUR, setup=sm, requires=["minv(self)"], ensures=["result == (pos(self) < INF)"],
      returns="bool", inline=True)
    C(M + "id", props=PROPS_CUR, setup=sm, requires=["minv(self)", ACTIVE], ensures=["result == pos(self)"],
      returns="int", inline=True)
    C(M + "next", props=PROPS_CUR, setup=sm, requires=["minv(self)", ACTIVE], modifies=["self.a", "self.b"],
      ensures=NEXT_POST, returns="opaque",
      canaries=[Canary("b-not-moved", "br = self.b.skip_to(self.a.id())", "br = False")])
    C(M + "skip_to", props=PROPS_CUR, setup=mk_args("AndMaybeMatcher", {"id": "int"}),
      requires=["minv(self)", ACTIVE], modifies=["self.a", "self.b"], ensures=SKIP_POST, returns="opaque",
      canaries=[Canary("b-only-to-target", "rb = self.b.skip_to(self.a.id())", "rb = self.b.skip_to(id)")])
    C(M + "score", props=PROPS_SC, setup=sm, requires=["minv(self)", ACTIVE],
      ensures=["result == score_at(self, pos(self))"], returns="real",
      canaries=[Canary("b-always-added", "if self.b.is_active() and self.a.id() == self.b.id():", "if self.b.is_active():")])
    C(M + "reset", props=PROPS_CUR, setup=sm, requires=["minv(self.a)", "minv(self.b)"], modifies=["self.a", "self.b"],
      ensures=["minv(self)", "forall(lambda s: implies(mem(self, s), s >= pos(self)))"])

    # ================================================================ replace / skip_to_quality / copy
    idopt = lambda I: Opt(z3.Bool("idnone"), z3.Int("idval"))
    REPL_REQ = ["minv(self)", "minquality >= 0",
                "minquality == 0 or (supports_quality(self.a) and supports_quality(self.b))"]
    REPL_POST = ["minv(result)", "wfpos(result)", "replaces(result, old(self), minquality)"]
    SKQ_REQ = ["minv(self)", ACTIVE, "supports_quality(self.a)", "supports_quality(self.b)"]
    SKQ_POST = ["minv(self)", "wfpos(self)", "pos(self) >= old(pos(self))",
                "forall(lambda s: implies(mem(self, s) and s >= old(pos(self)) and s < pos(self), "
                "score_at(self, s) <= minquality))"]
    table = [("IntersectionMatcher", {}), ("UnionMatcher", {"_id": idopt}),
             ("DisjunctionMaxMatcher", {"_id": idopt, "tiebreak": 0.0}), ("AndNotMatcher", {}), ("AndMaybeMatcher", {})]
    for cls, extra in table:
        key = BIN + ":" + cls + "."
        C(key + "replace", props=PROPS_Q + ["C11"], setup=mk_args(cls, {"minquality": "real"}, **extra),
          requires=REPL_REQ, ensures=REPL_POST, returns=lambda I, env: Cursor(I, "repl"),
          note="replace(q) keeps every remaining entry scoring more than q with its score (all entries if q == 0) and "
               "adds none")
        if cls == "DisjunctionMaxMatcher":
            # the union-like composites are only "q-faithful" after skip_to_quality (entries scoring <= q in one
            # child may have been passed by that child): the postcondition is the property clause itself
            post = ["minv(self.a)", "minv(self.b)", "pos(self) >= old(pos(self))", "low_passed(self, minquality)",
                    "forall(lambda s: implies(mem(self, s) and s >= old(pos(self)) and s < pos(self), "
                    "score_at(self, s) <= minquality))"]
            loops = {0: LoopSpec(inv=["minv(self.a)", "minv(self.b)", "is_none(self._id)", "pos(self) >= old(pos(self))",
                                      "low_passed(self, minquality)",
                                      "forall(lambda s: implies(mem(self, s) and s >= old(pos(self)) and s < pos(self), "
                                      "score_at(self, s) <= minquality))"])}
        else:
            post = SKQ_POST
            loops = {0: LoopSpec(inv=["minv(self)", "pos(self) >= old(pos(self))",
                                      "forall(lambda s: implies(mem(self, s) and s >= old(pos(self)) and s < pos(self), "
                                      "score_at(self, s) <= minquality))"])} if cls != "AndNotMatcher" else {}
        # (AndNot: that a quality skip never leaves the matcher on an excluded document is also what C01 / C11 state for
        # limited searches; the other combinators' skip obligations carry recorded findings under C05 / C09 / C12 only)
        C(key + "skip_to_quality", props=PROPS_Q + (["C01", "C11"] if cls == "AndNotMatcher" else []),
          setup=mk_args(cls, {"minquality": "real"}, **extra),
          requires=SKQ_REQ + ["minquality >= 0"], ensures=post, modifies=["self.a", "self.b"], returns="int", loops=loops,
          note="skip_to_quality(q) never passes over an entry scoring more than q")
    C(BIN + ":BiMatcher.copy", props=["C11"], setup=mk("IntersectionMatcher"), requires=["minv(self)"],
      ensures=["result is not self", "result.a is not self.a", "result.b is not self.b", "minv(result)",
               "pos(result) == pos(self)", "forall(lambda s: mem(result, s) == mem(self, s))",
               "forall(lambda s: score_at(result, s) == score_at(self, s))"],
      canaries=[Canary("shares-child", "self.__class__(self.a.copy(), self.b.copy())", "self.__class__(self.a, self.b.copy())")],
      note="copy() is an equal, independent cursor")

    # ================================================================ restricted twins of the block-range finding
    # Hypothesis H ("uniform blocks"): a child's block_quality() bounds ALL of its entries (true when the posting
    # list is a single block, or all blocks share the bound).  Under H the skip clause must hold, so a change
    # that breaks skip_to_quality beyond the recorded finding is still caught.
    def global_bq(I, c):
        s, t = z3.Int(I.fresh_name("s")), z3.Int(I.fresh_name("t"))
        return z3.ForAll([s, t], z3.Implies(c.S(t), c.sc(t) <= c.bq(s)))
    from pyvc.values import SpecFn as _SF
    GB = {"global_bq": _SF("global_bq", global_bq)}
    GB.update(SF)
    SKQ_CLAUSE = ("forall(lambda s: implies(mem(self, s) and s >= old(pos(self)) and s < pos(self), "
                  "score_at(self, s) <= minquality))")
    BOUNDS = ["forall(lambda t: implies(mem(a, t), score_at(a, t) <= aq))",
              "forall(lambda t: implies(mem(b, t), score_at(b, t) <= bq))"]
    def below(I, c, d):
        """every block bound of c is below every block bound of d"""
        s, t = z3.Int(I.fresh_name("s")), z3.Int(I.fresh_name("t"))
        return z3.ForAll([s, t], c.bq(s) < d.bq(t))
    GB["below"] = _SF("below", below)
    for tag, glob, low, bound, can in (
            ("uniform-b", "self.b", ("self.a", "self.b"), BOUNDS[1],
             Canary("threshold-uses-own-quality", "sk = a.skip_to_quality(minquality - bq)", "sk = a.skip_to_quality(minquality - aq)")),
            ("uniform-a", "self.a", ("self.b", "self.a"), BOUNDS[0],
             Canary("threshold-uses-own-quality", "sk = b.skip_to_quality(minquality - aq)", "sk = b.skip_to_quality(minquality - bq)"))):
        C(BIN + ":IntersectionMatcher.skip_to_quality", label=BIN + ":IntersectionMatcher.skip_to_quality#" + tag,
          props=PROPS_Q, spec_funcs=GB, setup=mk_args("IntersectionMatcher", {"minquality": "real"}, strict_skip=True),
          assumptions=["twin hypothesis: children are leaf-like (skip_to_quality returns 0 only if it did not move)"],
          requires=SKQ_REQ + ["minquality >= 0", "global_bq(%s)" % glob, "below(%s, %s)" % low],
          ensures=["minv(self)", "wfpos(self)", "pos(self) >= old(pos(self))", SKQ_CLAUSE],
          modifies=["self.a", "self.b"], returns="int",
          loops={0: LoopSpec(inv=["minv(self)", "pos(self) >= old(pos(self))",
                                  "pos(a) >= old(pos(self.a))", "pos(b) >= old(pos(self.b))", SKQ_CLAUSE, bound,
                                  "exists(lambda p: aq == a.bq(p))", "exists(lambda p: bq == b.bq(p))",
                                  "implies(pos(a) < INF, score_at(a, pos(a)) <= aq)",
                                  "implies(pos(b) < INF, score_at(b, pos(b)) <= bq)"])},
          canaries=[can, Canary("no-resync", "if a.id() != b.id():\n            self._find_next()", "if False:\n            self._find_next()")],
          note="restriction of the known block-range finding to the region where it cannot occur: one child has a "
               "uniform block bound and the other child's bounds all lie below it, so only the sound branch runs")

    # entries one child has passed but the composite has not reported yet have a TRUE composite score <= q
    PASSED_LOW = ("forall(lambda s: implies(mem(self, s) and s >= pos(self) and "
                  "((mem(self.a, s) and s < pos(self.a)) or (mem(self.b, s) and s < pos(self.b))), "
                  "score_at(self, s) <= minquality))")
    for cls, extra in (("UnionMatcher", {"_id": idopt}), ("AndMaybeMatcher", {})):
        for tag, glob, low, bound, can in (
                ("uniform-b", "self.b", ("self.a", "self.b"), BOUNDS[1],
                 Canary("threshold-uses-own-quality", "skipped += a.skip_to_quality(minquality - bq)",
                        "skipped += a.skip_to_quality(minquality - aq)")),
                ("uniform-a", "self.a", ("self.b", "self.a"), BOUNDS[0],
                 Canary("threshold-uses-own-quality", "skipped += b.skip_to_quality(minquality - aq)",
                        "skipped += b.skip_to_quality(minquality - bq)"))):
            key = BIN + ":" + cls + ".skip_to_quality"
            C(key, label=key + "#" + tag, props=PROPS_Q, spec_funcs=GB,
              setup=mk_args(cls, {"minquality": "real"}, strict_skip=True, **extra),
              assumptions=["twin hypothesis: children are leaf-like (skip_to_quality returns 0 only if it did not move)"],
              requires=SKQ_REQ + ["minquality >= 0", "global_bq(%s)" % glob, "below(%s, %s)" % low],
              ensures=["minv(self.a)", "minv(self.b)", "pos(self) >= old(pos(self))", SKQ_CLAUSE, PASSED_LOW],
              modifies=["self.a", "self.b"], returns="int",
              loops={0: LoopSpec(inv=["minv(self.a)", "minv(self.b)", "pos(self) >= old(pos(self))", "pos(a) >= old(pos(self.a))",
                                      "pos(b) >= old(pos(self.b))", SKQ_CLAUSE, bound,
                                      "exists(lambda p: aq == a.bq(p))", "exists(lambda p: bq == b.bq(p))",
                                      "implies(pos(a) < INF, score_at(a, pos(a)) <= aq)",
                                      "implies(pos(b) < INF, score_at(b, pos(b)) <= bq)"]
                                 + (["is_none(self._id)", "pos(%s) == old(pos(%s))" % (glob, glob),
                                     "forall(lambda s: implies(mem(%s, s) and s >= old(pos(self)), s >= pos(%s)))" % (glob, glob)]
                                    if cls == "UnionMatcher" else
                                    [])
                                 + [PASSED_LOW])},
              canaries=[can],
              note="restriction of the known block-range finding (one child uniform, the other below it): the skip "
                   "clause itself must hold (after the skip the composite is only q-faithful, so minv(self) is not claimed)")
