"""C04 / C07 — cancel() of the multi-process writer (whoosh.multiproc) as ordering contracts over a ghost trace.

The parent's MpWriter and its sub-writers share the temporary storage <index>.tmp. SegmentWriter.cancel() -> _finish()
destroys that directory and only THEN releases the write lock (contracts/commit.py, SegmentWriter._finish), so a
sub-process that is still alive at that point can put a file into the directory between 'emptied' and 'removed':
os.rmdir raises, cancel() raises, and the lock is never released (fixed: /repo 792c8db; before, SubWriterTask.cancel()
only set a flag on the parent's copy of the Process object). The contracts therefore demand

  SubWriterTask.cancel():  a live sub-process is terminated and then joined (in this order, once each) before cancel()
                           returns; a process that is not alive is left alone; the flag is cleared either way;
  MpWriter.cancel():       every task is cancelled BEFORE SegmentWriter.cancel (the step that destroys the shared temp
                           storage and releases the lock) runs, and SegmentWriter.cancel runs exactly once, last - also
                           when a task's cancel() raises.

multiprocessing.Process.is_alive / terminate / join are class A (assumed: after terminate()+join() the child runs no
more code). The number of tasks is fixed per variant (0-3): the loop body does not depend on the position, but the
ghost trace is a concrete list, so this is a per-length check, not an induction over the list."""
import z3
from pyvc.contract import Canary
from pyvc.values import Obj, ExcValue, RaiseSig
from pyvc.theories.trace import Recorder, RecMethod, trace_of

M = "whoosh.multiproc"
W = "whoosh.writing"
ALIVE = z3.Bool("child_alive")


def register(R, tier="quick"):
    def setup_task(I):
        proc = Recorder("process", returns={"is_alive": ALIVE, "terminate": None, "join": None})
        return {"self": Obj(I.repo.klass(M, "SubWriterTask"),
                            {"running": True, "alive0": ALIVE, "is_alive": RecMethod(proc, "is_alive"),
                             "terminate": RecMethod(proc, "terminate"), "join": RecMethod(proc, "join")})}
    R.contract(M + ":SubWriterTask.cancel", props=["C04", "C07"], setup=setup_task,
               ensures=["self.running == False",
                        "before('process.terminate', 'process.join') if self.alive0 else True",
                        "count_events('process.terminate') == (1 if self.alive0 else 0)",
                        "count_events('process.join') == (1 if self.alive0 else 0)"],
               canaries=[Canary("flag-only", "self.terminate()", "pass"),
                         Canary("no-join", "self.join()", "pass")],
               assumptions=["multiprocessing.Process: after terminate() and join() have returned the child executes no "
                            "further code (class A); is_alive() is read once"],
               note="a live sub-process is terminated, then joined, before cancel() returns (the running flag alone never "
                    "reaches the child)")

    # SegmentWriter.cancel at the call site is the one-event contract 'commit/cancel@callsite' of contracts/commit.py (event
    # self.cancel); its own body (_close_segment, _finish) and _finish (destroy temp storage, release the lock) are verified there
    def setup_mp(I, n, failing=None):
        def boom(I_, rec, args, kwargs):
            raise RaiseSig(ExcValue("OSError", ()), None)
        tasks = [Recorder("task%d" % i, returns={"cancel": boom if i == failing else None}) for i in range(n)]
        from pyvc.values import PyList
        return {"self": Obj(I.repo.klass(M, "MpWriter"), {"tasks": PyList(tasks), "is_closed": False})}

    R.contract(M + ":MpWriter.cancel", props=["C04", "C07"], setup=setup_mp,
               variants=[dict(n=0), dict(n=1), dict(n=2), dict(n=3)],
               ensures=[lambda I, env: _trace_is(I, env, None)],
               canaries=[Canary("finish-before-tasks", "try:\n        for task in self.tasks:\n            task.cancel()\n    finally:\n        SegmentWriter.cancel(self)",
                                "try:\n        SegmentWriter.cancel(self)\n    finally:\n        for task in self.tasks:\n            task.cancel()")],
               canary_variants=4,
               assumptions=["the task list has 0-3 entries (one variant each); the loop body does not depend on the position"],
               note="every sub-writer is cancelled before SegmentWriter.cancel destroys the shared temp storage and "
                    "releases the lock; SegmentWriter.cancel runs exactly once, last")
    R.contract(M + ":MpWriter.cancel", label=M + ":MpWriter.cancel#task-raises", props=["C04"],
               setup=lambda I: setup_mp(I, 2, failing=0),
               raises={"OSError": "True"}, ensures=["False"],
               ensures_on_raise=[lambda I, env: _trace_is(I, env, 0)],
               canaries=[Canary("no-finally", "finally:\n        SegmentWriter.cancel(self)", "finally:\n        pass")],
               note="when a task's cancel() raises, SegmentWriter.cancel (lock release) still runs")


def _trace_is(I, env, failing):
    names = tuple("%s.%s" % (o, m) for (o, m, a) in trace_of(I))
    n = len(env["self"].fields["tasks"].items) if hasattr(env["self"].fields["tasks"], "items") else None
    upto = n if failing is None else failing + 1
    want = tuple("task%d.cancel" % i for i in range(upto)) + ("self.cancel",)
    return z3.BoolVal(names == want)
