"""C06 / C11 / C01 — MultiMatcher (whoosh.matching.wrappers): the per-segment posting lists of one term, serialised by
document-number offsets, are ONE cursor over the union of the shifted lists.

Children: a CursorFamily ms[0..n) (each satisfies the matcher interface contract); offsets off[0..n).
Layout requirement (what MultiReader guarantees, contracts/layout.py): child i only holds local ids in [0, CNT(i)) and
the ranges off[i] + [0, CNT(i)) are disjoint and ascending.

    mem(self, d)  =  exists i < n .  ms[i] contains d - off[i]
    pos(self)     =  ms[current].id() + off[current]      (INF once current == n)
    inv(self)     =  0 <= current <= n, the current child is active, and no child after `current` has been advanced
"""
import z3
from pyvc.contract import Canary, LoopSpec
from pyvc.values import Obj, SymList
from pyvc.theories.cursor import CursorFamily, VIEWS, INF
from contracts.matchers import NEXT_POST, SKIP_POST, ACTIVE

W = "whoosh.matching.wrappers"
IntS = z3.IntSort()
SEGN = z3.Function("mm_seg_size", IntS, IntS)
PROPS = ["C06", "C11", "C01"]


def parts(o):
    fam = o.fields["matchers"]
    return fam, o.fields["offsets"], o.fields["current"]


def off(o, i):
    return z3.Select(o.fields["offsets"].arr, i)


def layout(I, o):
    fam, offs, cur = parts(o)
    i, j, s = z3.Int("li"), z3.Int("lj"), z3.Int("ls")
    return z3.And(offs.n == fam.n,
                  z3.ForAll([i, s], z3.Implies(fam.SS(i, s), z3.And(0 <= s, s < SEGN(i)))),
                  z3.ForAll([i], z3.Implies(z3.And(0 <= i, i < fam.n), z3.And(off(o, i) >= 0, off(o, i) + SEGN(i) <= INF))),
                  z3.ForAll([i, j], z3.Implies(z3.And(0 <= i, i < j, j < fam.n), off(o, i) + SEGN(i) <= off(o, j))))


def v_multi():
    def mem(I, o, d):
        fam, offs, cur = parts(o)
        i = z3.Int(I.fresh_name("mi"))
        return z3.Exists([i], z3.And(0 <= i, i < fam.n, fam.SS(i, d - off(o, i))))

    def pos(I, o):
        fam, offs, cur = parts(o)
        return z3.If(cur < fam.n, fam.cur_of(cur) + off(o, cur), INF)

    def inv(I, o):
        fam, offs, cur = parts(o)
        j, s = z3.Int("vj"), z3.Int("vs")
        return z3.And(0 <= cur, cur <= fam.n, layout(I, o), fam.all_wf(),
                      z3.Implies(cur < fam.n, fam.cur_of(cur) < INF),
                      z3.ForAll([j, s], z3.Implies(z3.And(cur < j, j < fam.n, fam.SS(j, s)), s >= fam.cur_of(j))))
    return dict(mem=mem, pos=pos, inv=inv, sc=lambda I, o, s: z3.RealVal(0))


VIEWS[W + ":MultiMatcher"] = v_multi()


def register(R, tier="quick"):
    def mk(I, **kw):
        fam = CursorFamily(I, "ms")
        offs = SymList(z3.Array(I.fresh_name("moffs"), IntS, IntS), z3.Int(I.fresh_name("nmoffs")), "list")
        return {"self": Obj(I.repo.klass(W, "MultiMatcher"), {"matchers": fam, "offsets": offs, "scorer": None,
                                                               "current": z3.Int("current")})}

    def mk_id(I, **kw):
        env = mk(I)
        env["id"] = z3.Int("id")
        return env

    K = W + ":MultiMatcher."

    def hint(I, env):
        """one concrete pre-state for the vacuity check: two segments of size 10 at offsets 0 and 10, entries {3} and {4},
        both children on their entry, current = 0"""
        o = env["self"]
        fam, offs, cur = parts(o)
        i, s = z3.Int("hi"), z3.Int("hs")
        cs = [fam.n == 2, offs.n == 2, off(o, 0) == 0, off(o, 1) == 10, INF == 1000, cur == 0,
              z3.ForAll([i], SEGN(i) == 10),
              z3.ForAll([i, s], fam.SS(i, s) == z3.Or(z3.And(i == 0, s == 3), z3.And(i == 1, s == 4))),
              z3.ForAll([i, s], fam.SC(i, s) == 1), z3.ForAll([i, s], fam.MQ(i, s) == 1), z3.ForAll([i, s], fam.BQ(i, s) == 1),
              z3.ForAll([i], fam.cur_of(i) == z3.If(i == 0, 3, z3.If(i == 1, 4, 1000)))]
        if "id" in env:
            cs.append(env["id"] == 12)
        return cs

    # weaker state between "current child exhausted" and "_next_matcher() done": everything but `current child active`
    def pre_next_matcher(I, env):
        o = env["self"]
        fam, offs, cur = parts(o)
        j, s = z3.Int("pj"), z3.Int("ps")
        return z3.And(0 <= cur, cur <= fam.n, layout(I, o), fam.all_wf(),
                      z3.ForAll([j, s], z3.Implies(z3.And(cur < j, j < fam.n, fam.SS(j, s)), s >= fam.cur_of(j))))

    def post_next_matcher(I, env):
        o, o0 = env["self"], I.old_env["self"]
        fam, offs, cur = parts(o)
        cur0 = o0.fields["current"]
        j = z3.Int("qj")
        return z3.And(cur0 <= cur, cur <= fam.n, z3.Implies(cur < fam.n, fam.cur_of(cur) < INF),
                      z3.ForAll([j], z3.Implies(z3.And(cur0 <= j, j < cur), fam.cur_of(j) == INF)),
                      fam.curs == o0.fields["matchers"].curs)

    def nm_inv(I, env):
        o, o0 = env["self"], I.old_env["self"]
        fam, offs, cur = parts(o)
        cur0 = o0.fields["current"]
        j = z3.Int("nj")
        return z3.And(cur0 <= cur, cur <= fam.n, fam.curs == o0.fields["matchers"].curs,
                      z3.ForAll([j], z3.Implies(z3.And(cur0 <= j, j < cur), fam.cur_of(j) == INF)))

    R.contract(K + "_next_matcher", props=PROPS, setup=mk, cover_hint=hint, requires=[pre_next_matcher],
               ensures=[post_next_matcher], modifies=["self.current"],
               loops={0: LoopSpec(inv=[nm_inv])},
               canaries=[Canary("stops-on-inactive", "not matchers[self.current].is_active()", "matchers[self.current].is_active()")],
               note="moves `current` to the first active child at or after it; the children passed over are exhausted")

    R.contract(K + "is_active", props=PROPS, setup=mk, cover_hint=hint, requires=["minv(self)"], ensures=["result == (pos(self) < INF)"],
               returns="bool", inline=True)
    R.contract(K + "id", props=PROPS, setup=mk, cover_hint=hint, requires=["minv(self)", ACTIVE], ensures=["result == pos(self)"], returns="int",
               canaries=[Canary("offset-not-added", "return self.matchers[current].id() + self.offsets[current]",
                                "return self.matchers[current].id()")],
               note="global document number = the current segment's local number + that segment's offset")
    R.contract(K + "next", props=PROPS, setup=mk, cover_hint=hint, requires=["minv(self)", ACTIVE], ensures=NEXT_POST,
               modifies=["self.matchers", "self.current"], returns="opaque",
               raises={"ReadTooFar": "False"},
               canaries=[Canary("stays-on-exhausted-child", "self._next_matcher()", "pass")],
               note="steps the current child; when it is exhausted moves on to the next non-empty segment: no entry of "
                    "the union is skipped, none is visited twice")
    R.contract(K + "skip_to", props=PROPS, setup=mk_id, cover_hint=hint, requires=["minv(self)", ACTIVE], ensures=SKIP_POST,
               modifies=["self.matchers", "self.current"], returns="opaque",
               raises={"ReadTooFar": "False"},
               canaries=[Canary("target-not-rebased", "mr.skip_to(id - offsets[self.current])", "mr.skip_to(id)"),
                         Canary("stays-on-exhausted-child", "self._next_matcher()", "pass")],
               loops={0: LoopSpec(inv=["minv(self)", "forall(lambda s: implies(mem(self, s) and s >= id, s >= pos(self)))"],
                                  modifies=["self.matchers", "self.current"])},
               note="skips inside the current segment with the target rebased to local numbers, then moves on")


    # ------------------------------------------------------------------ skip_to_quality (C12)
    def all_quality(I, env):
        fam = env["self"].fields["matchers"]
        i = z3.Int("aq_i")
        return z3.ForAll([i], fam.SBQ(i))

    def passed_low(I, env):
        """every entry a child has been moved past since entry scores at most minquality in that child; positions only
        move forward"""
        o, o0 = env["self"], I.old_env["self"]
        fam, fam0 = o.fields["matchers"], o0.fields["matchers"]
        j, s = z3.Int("pl_j"), z3.Int("pl_s")
        q = z3.ToReal(env["minquality"]) if z3.is_int(env["minquality"]) else env["minquality"]
        return z3.And(o.fields["current"] >= o0.fields["current"],
                      z3.ForAll([j], fam.cur_of(j) >= fam0.cur_of(j)),
                      z3.ForAll([j, s], z3.Implies(z3.And(0 <= j, j < fam.n, fam.SS(j, s), s >= fam0.cur_of(j), s < fam.cur_of(j)),
                                                   fam.SC(j, s) <= q)))

    def mk_q(I, **kw):
        env = mk(I)
        env["minquality"] = z3.Real("minquality")
        return env

    R.contract(K + "block_quality", props=["C12"], setup=mk, cover_hint=hint, requires=["minv(self)", ACTIVE, all_quality],
               ensures=[lambda I, env: env["result"] == env["self"].fields["matchers"].BQ(
                   env["self"].fields["current"], env["self"].fields["matchers"].cur_of(env["self"].fields["current"]))],
               returns="real", note="the block quality of the current segment's matcher")
    R.contract(K + "skip_to_quality", props=["C12", "C05"], setup=mk_q, cover_hint=hint,
               requires=["minv(self)", ACTIVE, all_quality, "minquality >= 0"],
               ensures=["minv(self)", passed_low],
               modifies=["self.matchers", "self.current"], returns="int",
               loops={0: LoopSpec(inv=["minv(self)", passed_low], modifies=["self.matchers", "self.current"])},
               canaries=[Canary("stays-on-exhausted-child", "self._next_matcher()", "pass"),
                         Canary("threshold-doubled", "sk = mr.skip_to_quality(minquality)", "sk = mr.skip_to_quality(minquality * 2 + 1)")],
               note="skip_to_quality(q) over several segments: each segment's matcher only passes entries scoring at most q, "
                    "and an exhausted segment hands over to the next non-empty one")

    def mq_bounds_rest(I, env):
        """the answer bounds the score of every entry not yet passed, in the current segment and in every later one"""
        o = env["self"]
        fam, cur = o.fields["matchers"], o.fields["current"]
        j, s = z3.Int("mq_j"), z3.Int("mq_s")
        r = env["result"]
        r = z3.ToReal(r) if z3.is_int(r) else r
        return z3.ForAll([j, s], z3.Implies(z3.And(cur <= j, j < fam.n, fam.SS(j, s), s >= fam.cur_of(j)), fam.SC(j, s) <= r))

    R.contract(K + "max_quality", props=["C12", "C05"], setup=mk, cover_hint=hint, requires=["minv(self)", ACTIVE, all_quality],
               ensures=[mq_bounds_rest], returns="real",
               canaries=[Canary("current-segment-only", "self.matchers[self.current:]", "self.matchers[self.current:self.current + 1]"),
                         Canary("skips-current-segment", "self.matchers[self.current:]", "self.matchers[self.current + 1:]", expect=None)],
               note="max_quality() over several segments: the largest of the remaining segments' bounds, hence a bound on "
                    "every remaining score of the whole list (a bound taken from the current segment alone is refuted)")

    # ------------------------------------------------------------------ construction and reset
    def fresh_children(I, env):
        """no child has been advanced: every child stands on its first entry (or is empty)"""
        o = env["self"]
        fam, offs, cur = parts(o)
        j, s = z3.Int("fj"), z3.Int("fs")
        return z3.ForAll([j, s], z3.Implies(z3.And(0 <= j, j < fam.n, fam.SS(j, s)), s >= fam.cur_of(j)))

    def mk_init(I, **kw):
        env = mk(I)
        o = env["self"]
        fam, offs = o.fields["matchers"], o.fields["offsets"]
        env["self"] = Obj(I.repo.klass(W, "MultiMatcher"))
        env.update({"matchers": fam, "idoffsets": offs, "scorer": None, "current": 0})
        return env

    def init_pre(I, env):
        o = Obj(env["self"].cls, {"matchers": env["matchers"], "offsets": env["idoffsets"], "current": z3.IntVal(0)})
        return z3.And(layout(I, o), fresh_children(I, {"self": o}))

    def hint_init(I, env):
        o = Obj(env["self"].cls, {"matchers": env["matchers"], "offsets": env["idoffsets"], "current": z3.IntVal(0)})
        return hint(I, {"self": o})

    R.contract(K + "__init__", props=PROPS, setup=mk_init, requires=[init_pre], cover_hint=hint_init,
               canaries=[Canary("starts-on-empty-segment", "self._next_matcher()", "pass")],
               ensures=["minv(self)", "behind_free(self)", "self.matchers is matchers", "self.offsets is idoffsets"],
               note="a MultiMatcher built over fresh per-segment matchers starts on the first entry of the union")

    def reset_inv(I, env):
        o = env["self"]
        fam, offs, cur = parts(o)
        j, s = z3.Int("rj"), z3.Int("rs")
        return z3.And(layout(I, o), fam.all_wf(), env["_i"] <= fam.n,
                      z3.ForAll([j, s], z3.Implies(z3.And(0 <= j, j < env["_i"], fam.SS(j, s)), s >= fam.cur_of(j))))

    R.contract(K + "reset", props=["C11", "C06"], setup=mk, cover_hint=hint,
               requires=[lambda I, env: z3.And(layout(I, env["self"]), env["self"].fields["matchers"].all_wf(),
                                               0 <= env["self"].fields["current"],
                                               env["self"].fields["current"] <= env["self"].fields["matchers"].n)],
               ensures=["minv(self)", "behind_free(self)"],
               modifies=["self.matchers", "self.current"],
               loops={0: LoopSpec(index="_i", inv=[reset_inv], modifies=["self.matchers"])},
               canaries=[Canary("rests-on-empty-segment", "self._next_matcher()", "pass"),
                         Canary("current-not-rewound", "self.current = 0", "pass")],
               note="reset() returns to the first entry of the union, also when leading segments are empty")
