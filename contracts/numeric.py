"""C13 — numeric/date sortable encodings and tiered range splitting.

Real functions under contract: whoosh.util.numeric:{to_sortable, from_sortable,
float_to_sortable_long, sortable_long_to_float, split_ranges, tiered_ranges},
whoosh.fields:NUMERIC.{sortable_to_bytes, prepare_number, to_bytes, _min_max}.
"""
import z3
from pyvc.contract import Canary, LoopSpec
from pyvc.builtins import BUILTINS
from pyvc.values import Obj, Opaque

INTSIZES = (8, 16, 32, 64)
INT = BUILTINS["int"]
FLOAT = BUILTINS["float"]


def dom_req(var="x"):
    return "(-(2**(intsize-1)) <= {v} < 2**(intsize-1)) if signed else (0 <= {v} < 2**intsize)".format(v=var)


def register(R, tier="quick"):
    # ------------------------------------------------------------ to/from sortable (ints)
    def setup_ts(I, intsize, signed):
        return {"numtype": INT, "intsize": intsize, "signed": signed, "x": z3.Int("x")}

    cfgs = [dict(intsize=i, signed=s) for i in INTSIZES for s in (True, False)]
    R.contract("whoosh.util.numeric:to_sortable", props=["C13", "C08"], setup=setup_ts,
               requires=[dom_req()],
               ensures=["0 <= result < 2**intsize",
                        "result == x + (2**(intsize-1) if signed else 0)"],
               returns="int", variants=cfgs,
               canaries=[Canary("bias-off-by-one-bit", "x += 1 << intsize - 1", "x += 1 << intsize"),
                         Canary("unsigned-biased-too", "if signed:", "if True:")],
               note="int branch; with the lemma numeric/sortable-bijection this is the order-preserving bijection")
    R.contract("whoosh.util.numeric:from_sortable", props=["C13", "C08"], setup=setup_ts,
               requires=["0 <= x < 2**intsize"],
               ensures=[dom_req("result"),
                        "result == x - (2**(intsize-1) if signed else 0)"],
               returns="int", variants=cfgs,
               canaries=[Canary("bias-sign", "x -= 1 << intsize - 1", "x += 1 << intsize - 1")])

    # round trip through the real code (relational harness, no spec function involved)
    R.contract("whoosh.util.numeric:to_sortable", label="numeric/roundtrip-int", props=["C13", "C08"],
               setup=lambda I, intsize, signed: {"intsize": intsize, "signed": signed, "x": z3.Int("x"),
                                                 "y": z3.Int("y"), "numtype": INT},
               requires=[dom_req("x"), dom_req("y")],
               harness="a = to_sortable(numtype, intsize, signed, x)\n"
                       "b = to_sortable(numtype, intsize, signed, y)\n"
                       "xx = from_sortable(numtype, intsize, signed, a)\n",
               ensures=["xx == x", "(x < y) == (a < b)", "(x == y) == (a == b)", "0 <= a < 2**intsize"],
               variants=cfgs, inline_callees=["whoosh.util.numeric:to_sortable", "whoosh.util.numeric:from_sortable"],
               note="from_sortable(to_sortable(x)) == x and strict order preservation, on the inlined real bodies")

    def sortable_lemma():
        out = []
        for n in INTSIZES:
            for signed in (True, False):
                x, y, u = z3.Ints("x y u")
                bias = (1 << (n - 1)) if signed else 0
                lo, hi = (-(1 << (n - 1)), (1 << (n - 1)) - 1) if signed else (0, (1 << n) - 1)
                enc = lambda v: v + bias
                dec = lambda v: v - bias
                ind = lambda v: z3.And(lo <= v, v <= hi)
                out.append(("surjective[%d,%s]" % (n, signed),
                            z3.Implies(z3.And(0 <= u, u < (1 << n)), z3.And(ind(dec(u)), enc(dec(u)) == u))))
                out.append(("monotone[%d,%s]" % (n, signed),
                            z3.Implies(z3.And(ind(x), ind(y)), (x < y) == (enc(x) < enc(y)))))
        return out
    R.lemma("numeric/sortable-bijection", ["C13"], sortable_lemma,
            note="x -> x+bias is an order isomorphism [min,max] -> [0,2^n), given the ensures of to/from_sortable")

    # ------------------------------------------------------------ floats (exact IEEE, z3 FP theory)
    def setup_f(I, signed):
        x = z3.FP("x", z3.Float64())
        y = z3.FP("y", z3.Float64())
        return {"x": x, "y": y, "signed": signed}

    fcan = [Canary("no-flip-for-negatives", "if x < 0:\n        x ^= 9223372036854775807", "if False:\n        x ^= 9223372036854775807")]
    R.contract("whoosh.util.numeric:float_to_sortable_long", label="numeric/float-order", props=["C13"],
               setup=setup_f, int_mode=70,
               requires=["not fp_isnan(x)", "not fp_isnan(y)", "implies(not signed, fp_sign_nonneg(x) and fp_sign_nonneg(y))"],
               harness="a = float_to_sortable_long(x, signed)\nb = float_to_sortable_long(y, signed)\n"
                       "xx = sortable_long_to_float(a, signed)\n",
               ensures=["implies(fp_lt(x, y), a < b)",
                        "implies(a < b, fp_lt(x, y) or (fp_iszero(x) and fp_iszero(y)))",
                        "fp_same(xx, x)", "0 <= a", "a < 2**64"],
               variants=[dict(signed=True), dict(signed=False)], canaries=fcan,
               inline_callees=["whoosh.util.numeric:float_to_sortable_long", "whoosh.util.numeric:sortable_long_to_float"],
               assumptions=["struct '>d'/'>q' reinterpretation = IEEE-754 binary64 bit pattern (class A)"],
               note="strict order preservation on non-NaN doubles and decode(encode(x)) is bit-identical; "
                    "unsigned: domain is the non-negative doubles (the assert x >= 0 is an obligation)")
    R.contract("whoosh.util.numeric:float_to_sortable_long", label="numeric/float-equal-values", props=["C13"],
               setup=setup_f, int_mode=70,
               requires=["not fp_isnan(x)", "not fp_isnan(y)", "fp_eq(x, y)"],
               harness="a = float_to_sortable_long(x, signed)\nb = float_to_sortable_long(y, signed)\n",
               ensures=["a == b"],
               variants=[dict(signed=True)],
               inline_callees=["whoosh.util.numeric:float_to_sortable_long"],
               note="numerically equal values get one code (fails for +0.0 / -0.0: known finding)")
    R.contract("whoosh.util.numeric:float_to_sortable_long", label="numeric/float-equal-values#nonzero", props=["C13"],
               setup=setup_f, int_mode=70,
               requires=["not fp_isnan(x)", "not fp_isnan(y)", "fp_eq(x, y)", "not fp_iszero(x)"],
               harness="a = float_to_sortable_long(x, signed)\nb = float_to_sortable_long(y, signed)\n",
               ensures=["a == b"],
               variants=[dict(signed=True)],
               inline_callees=["whoosh.util.numeric:float_to_sortable_long"],
               note="restriction of numeric/float-equal-values to the region outside the known finding (x != 0)")

    # ------------------------------------------------------------ split_ranges
    def setup_sr(I, intsize, step):
        W = intsize + step + 4
        I.int_mode = W
        bv = lambda n: z3.BitVec(n, W)
        return ({"intsize": intsize, "step": step, "start": bv("start"), "end": bv("end")},
                {"v": bv("v"), "c": False, "lvl_ok": True})

    def sr_int_mode(variant):
        return variant["intsize"] + variant["step"] + 4

    def inr(I, y, v):
        s, e, sh = y
        import ast
        a = I.binop(ast.RShift(), s, sh)
        b = I.binop(ast.RShift(), v, sh)
        c = I.binop(ast.RShift(), e, sh)
        return z3.And(I.compare(ast.LtE(), a, b), I.compare(ast.LtE(), b, c))
    from pyvc.values import SpecFn
    sr_cfg_quick = [dict(intsize=i, step=s) for i in INTSIZES for s in range(1, 9)]
    sr_cfg = sr_cfg_quick if tier == "quick" else sr_cfg_quick + [dict(intsize=i, step=s) for i in (32, 64) for s in range(9, 17)]
    R.contract("whoosh.util.numeric:split_ranges", props=["C13"], setup=setup_sr, int_mode=sr_int_mode, cost=50,
               spec_funcs={"inr": SpecFn("inr", inr)},
               requires=["0 <= start < 2**intsize", "0 <= end < 2**intsize", "0 <= v < 2**intsize"],
               on_yield="c = c or inr(_y, v)\n"
                        "lvl_ok = lvl_ok and _y[2] % step == 0 and 0 <= _y[2] < intsize\n",
               ensures=["c == (start <= v and v <= end)", "lvl_ok"],
               loops={0: LoopSpec(
                   inv=["0 <= start < 2**intsize", "0 <= end < 2**intsize",
                        "start & ((1 << shift) - 1) == 0",
                        "end & ((1 << shift) - 1) == 0",
                        "(old(start) <= v and v <= old(end)) == (c or (start <= v and v <= (end | ((1 << shift) - 1))))",
                        "lvl_ok"],
                   concrete={"shift": lambda env: range(0, env["intsize"], env["step"])})},
               variants=sr_cfg,
               canaries=[Canary("lower-edge-dropped", "if haslower:\n            yield", "if False:\n            yield"),
                         Canary("upper-edge-wrong-shift", "yield (end & not_mask, setbits(end), shift)",
                                "yield (end & not_mask, setbits(end), shift + step)")],
               note="for all start,end in the (extended) domain and every v: v is inside [start,end] iff some yielded "
                    "(s,e,sh) has s>>sh <= v>>sh <= e>>sh; every yielded shift is an indexed level; bounded-int mode "
                    "BitVec(intsize+step+4) with no-wrap side obligations")

    # ------------------------------------------------------------ tiered_ranges
    from pyvc.values import Opt, Abstract, PyList

    class RangeSet(Abstract):
        """Abstract result of split_ranges: the set of covered sortable values."""

        def __init__(self, I):
            self.cov = z3.Function(I.fresh_name("cov"), z3.IntSort(), z3.BoolSort())

        def havoc(self, I):
            pass

    def covers(I, rs, v):
        if isinstance(rs, RangeSet):
            return rs.cov(v)
        if isinstance(rs, tuple):
            out = []
            for (s, e, sh) in rs:
                assert sh == 0
                out.append(z3.And(s <= v, v <= e))
            return z3.Or(*out) if out else z3.BoolVal(False)
        raise AssertionError("covers() of %r" % (rs,))

    # call-site contract of split_ranges (Int mode): the universally quantified form of the
    # per-v postcondition proved above (forall-introduction over the arbitrary ghost v)
    R.contract("whoosh.util.numeric:split_ranges", label="numeric/split_ranges@callsite", props=["C13"], verify=False,
               requires=["0 <= start < 2**intsize", "0 <= end < 2**intsize", "step >= 1"],
               returns=lambda I, env: RangeSet(I),
               spec_funcs={"covers": SpecFn("covers", covers)},
               ensures=["forall(lambda v: implies(0 <= v and v < 2**intsize, covers(result, v) == (start <= v and v <= end)))"],
               assumptions=["split_ranges is verified for step 1..8 (quick) / 1..16 (thorough); NUMERIC accepts any "
                            "shift_step, larger steps are covered only by the call-site contract"])
    # make it the call-site contract
    R.by_key["whoosh.util.numeric:split_ranges"] = R.contracts["numeric/split_ranges@callsite"]

    def setup_tr(I, intsize, signed):
        return {"numtype": INT, "intsize": intsize, "signed": signed,
                "start": Opt(z3.Bool("start_none"), z3.Int("start")), "end": Opt(z3.Bool("end_none"), z3.Int("end")),
                "shift_step": z3.Int("shift_step"), "startexcl": z3.Bool("startexcl"), "endexcl": z3.Bool("endexcl")}

    def tr_post(I, env):
        n, signed = env["intsize"], env["signed"]
        bias = (1 << (n - 1)) if signed else 0
        st, en = env["start"], env["end"]
        lo = z3.If(st.isnone, 0, st.val + bias + z3.If(env["startexcl"], 1, 0))
        hi = z3.If(en.isnone, (1 << n) - 1, en.val + bias - z3.If(env["endexcl"], 1, 0))
        v = z3.Int(I.fresh_name("v"))
        return z3.ForAll([v], z3.Implies(z3.And(0 <= v, v < (1 << n)),
                                         covers(I, env["result"], v) == z3.And(lo <= v, v <= hi)))
    R.contract("whoosh.util.numeric:tiered_ranges", props=["C13"], setup=setup_tr,
               spec_funcs={"covers": SpecFn("covers", covers)},
               requires=["implies(not is_none(start), " + dom_req("start.val") + ")",
                         "implies(not is_none(end), " + dom_req("end.val") + ")",
                         "shift_step >= 0"],
               ensures=[tr_post],
               variants=cfgs,
               canaries=[Canary("exclusive-start-ignored", "if startexcl:\n            start += 1", "if startexcl:\n            start += 0"),
                         Canary("empty-guard-removed", "if start > end:\n        return ()", "if False:\n        return ()")],
               note="the triples returned cover exactly the requested interval intersected with the domain: open/closed/"
                    "unbounded ends, incl. exclusive bounds at the extremes (empty); callee split_ranges by contract")

    # ------------------------------------------------------------ NUMERIC field methods
    CODES = {8: "B", 16: "H", 32: "I", 64: "Q"}

    def mk_field(I, bits, signed, shift_step=4):
        from pyvc.builtins import StructModel
        ci = I.repo.klass("whoosh.fields", "NUMERIC")
        lo, hi = (-(1 << (bits - 1)), (1 << (bits - 1)) - 1) if signed else (0, (1 << bits) - 1)
        return Obj(ci, {"numtype": INT, "bits": bits, "signed": signed, "decimal_places": 0,
                        "shift_step": shift_step, "min_value": lo, "max_value": hi,
                        "sortable_typecode": CODES[bits], "_struct": StructModel(">" + CODES[bits])})

    def setup_field(I, intsize, signed):
        return {"self": mk_field(I, intsize, signed), "x": z3.Int("x"), "intsize": intsize, "signed": signed}

    fdom = "((-(2**(self.bits-1)) <= x < 2**(self.bits-1)) if self.signed else (0 <= x < 2**self.bits))"
    R.contract("whoosh.fields:NUMERIC.prepare_number", props=["C13"], setup=setup_field,
               raises={"ValueError": "not " + fdom},
               ensures=["result == x", fdom], returns="int", variants=cfgs,
               canaries=[Canary("upper-check-dropped", "x < self.min_value or x > self.max_value", "x < self.min_value")],
               note="int field without decimal places: returns x unchanged inside [min,max], ValueError exactly outside "
                    "(never wraps); Decimal scaling is class A")

    def setup_stb(I, intsize, signed):
        return {"self": mk_field(I, intsize, signed), "x": z3.Int("x"), "shift": I.choose(intsize), "intsize": intsize}
    R.contract("whoosh.fields:NUMERIC.sortable_to_bytes", props=["C13"], setup=setup_stb,
               requires=["0 <= x < 2**self.bits", "0 <= shift < self.bits"],
               variants=[dict(intsize=i, signed=True, ) for i in INTSIZES],
               ensures=[lambda I, env: _stb_post(I, env)],
               returns=lambda I, env: _stb_result(I, env),
               canaries=[Canary("shift-byte-dropped", "pack_byte(shift) + self._struct.pack(x)", "pack_byte(0) + self._struct.pack(x)")],
               assumptions=["struct big-endian fixed-width packing (class A): byte-lexicographic order of "
                            "pack('>B',sh)+pack('>%s',u) equals the order of the pair (sh,u)"],
               note="result = byte(shift) || big-endian(x >> shift), no struct.error for values in the domain")

    def setup_tb(I, intsize, signed):
        return {"self": mk_field(I, intsize, signed), "x": z3.Int("x"), "shift": I.choose(intsize), "intsize": intsize, "signed": signed}
    R.contract("whoosh.fields:NUMERIC.to_bytes", props=["C13"], setup=setup_tb,
               returns=lambda I, env: _stb_result(I, env),
               raises={"ValueError": "not " + fdom},
               requires=["0 <= shift < self.bits"],
               ensures=[lambda I, env: _tb_post(I, env)],
               variants=cfgs,
               note="number -> term bytes at full precision; out-of-domain rejected (ValueError), never wrapped")
    register2(R, tier)
    attach_replays(R)


def _stb_post(I, env):
    import ast as _ast
    from pyvc.builtins import PackedBytes
    from pyvc.ops import concrete_int
    sh = env["shift"]
    n = env["self"].fields["bits"]
    x = env["x"]
    res = env["result"]
    if not isinstance(res, PackedBytes) or len(res.vals) != 2:
        return z3.BoolVal(False)
    # x >> shift for symbolic shift: characterise by bounds (2^shift * q <= x < 2^shift*(q+1)) per concrete shift
    parts = []
    if concrete_int(sh) is not None:
        return z3.And(res.vals[0] == sh, res.vals[1] == x / (1 << concrete_int(sh)))
    return z3.And(res.vals[0] == sh, *[z3.Implies(sh == k, res.vals[1] == x / (1 << k)) for k in range(n)])


def _tb_post(I, env):
    f = env["self"].fields
    bias = (1 << (f["bits"] - 1)) if f["signed"] else 0
    env2 = dict(env)
    env2["x"] = env["x"] + bias
    return _stb_post(I, env2)


def _stb_result(I, env):
    from pyvc.builtins import PackedBytes
    code = env["self"].fields["sortable_typecode"]
    return PackedBytes(">B" + code, [I.fresh_int("shiftbyte"), I.fresh_int("be")])


TIMES_FALLBACK = """
# bounded stand-in (class B): 4000 datetimes incl. microsecond-resolution ones and the domain extremes
import sys, random
from datetime import datetime, timedelta
from whoosh.util.times import datetime_to_long, long_to_datetime
rnd = random.Random(13)
cands = [datetime.min, datetime.max, datetime(1970, 1, 1), datetime(2024, 2, 29, 13, 37, 21, 123457)]
for _ in range(4000):
    cands.append(datetime.min + timedelta(microseconds=rnd.randrange(0, (datetime.max - datetime.min) // timedelta(microseconds=1))))
prev = None
for dt in sorted(cands):
    x = datetime_to_long(dt)
    exp = (dt - datetime.min) // timedelta(microseconds=1)
    if x != exp or long_to_datetime(x) != dt:
        print("datetime_to_long(%r) = %r, expected %r; decoded %r" % (dt, x, exp, long_to_datetime(x))); sys.exit(1)
sys.exit(0)
"""


def register2(R, tier):
    from pyvc.builtins import Rec, PackedBytes
    from pyvc.values import PyList

    CODES = {8: "B", 16: "H", 32: "I", 64: "Q"}

    def mk_field(I, bits, signed, shift_step):
        from pyvc.builtins import StructModel
        ci = I.repo.klass("whoosh.fields", "NUMERIC")
        lo, hi = (-(1 << (bits - 1)), (1 << (bits - 1)) - 1) if signed else (0, (1 << bits) - 1)
        return Obj(ci, {"numtype": INT, "bits": bits, "signed": signed, "decimal_places": 0,
                        "shift_step": shift_step, "min_value": lo, "max_value": hi,
                        "sortable_typecode": CODES[bits], "_struct": StructModel(">" + CODES[bits])})

    def setup_index(I, intsize, signed, step):
        return {"self": mk_field(I, intsize, signed, step), "num": z3.Int("num"), "intsize": intsize,
                "signed": signed, "step": step}

    def index_post(I, env):
        n, signed, step = env["intsize"], env["signed"], env["step"]
        res = env["result"]
        bias = (1 << (n - 1)) if signed else 0
        u = env["num"] + bias
        levels = list(range(0, n, step)) if step else [0]
        if not isinstance(res, PyList) or len(res.items) != len(levels):
            return z3.BoolVal(False)
        parts = []
        for sh, item in zip(levels, res.items):
            tb, freq, w, val = item
            if not isinstance(tb, PackedBytes) or len(tb.vals) != 2:
                return z3.BoolVal(False)
            parts.append(z3.And(tb.vals[0] == sh, tb.vals[1] == u / (1 << sh)))
            parts.append(z3.BoolVal(freq == 1 and w == 1.0 and val == b""))
        return z3.And(*parts)
    icfg = [dict(intsize=i, signed=s, step=st) for i in INTSIZES for s in (True, False) for st in (0, 1, 4, 8)
            if not (i == 64 and st == 1 and tier == "quick")]
    # shift steps that do not divide the width: the topmost (partial) tier must be indexed too
    icfg += [dict(intsize=i, signed=s, step=st) for (i, st) in ((8, 3), (16, 5), (32, 6), (32, 7), (64, 7)) for s in (True, False)]
    fdom = "((-(2**(self.bits-1)) <= num < 2**(self.bits-1)) if self.signed else (0 <= num < 2**self.bits))"
    R.contract("whoosh.fields:NUMERIC.index", props=["C13"], setup=setup_index,
               raises={"ValueError": "not " + fdom},
               ensures=[index_post], variants=icfg,
               canaries=[Canary("level-range-short", "xrange(0, self.bits, self.shift_step)", "xrange(0, self.bits - self.shift_step, self.shift_step)")],
               note="terms written for a value = {(sh, sortable(x) >> sh) | sh in range(0, bits, shift_step)} "
                    "(exactly the levels split_ranges may yield: lvl_ok), each with frequency 1")

    # ---- composition lemma: document matches compiled range query <=> value inside the interval
    def range_match_lemma():
        I_ = z3.IntSort()
        shr = z3.Function("shr", I_, I_, I_)            # x >> sh
        L = z3.Function("level", I_, z3.BoolSort())     # indexed levels
        u, s, e, sh, sh2, t = z3.Ints("u s e sh sh2 t")
        has = lambda a, b: z3.And(L(a), b == shr(u, a))                     # NUMERIC.index contract
        triple_match = z3.Exists([sh2, t], z3.And(has(sh2, t), sh2 == sh, shr(s, sh) <= t, t <= shr(e, sh)))
        # byte order axiom: term bytes (sh2,t) lie in TermRange[stb(s,sh), stb(e,sh)] iff sh2==sh and s>>sh <= t <= e>>sh
        return [("doc-matches-triple-iff-value-in-triple",
                 z3.Implies(L(sh), triple_match == z3.And(shr(s, sh) <= shr(u, sh), shr(u, sh) <= shr(e, sh))))]
    R.lemma("numeric/range-match", ["C13"], range_match_lemma,
            note="with NUMERIC.index (terms = levels x shifted value), split_ranges (cover + lvl_ok) and the "
                 "big-endian byte-order axiom: a document matches the compiled Or of Term/TermRange iff its value is "
                 "covered, i.e. iff start <= value <= end")

    # ---- datetimes: microseconds since datetime.min
    def setup_td(I):
        d, s, us = z3.Ints("days seconds microseconds")
        return {"td": Rec("timedelta", days=d, seconds=s, microseconds=us)}
    R.contract("whoosh.util.times:timedelta_to_usecs", props=["C13"], setup=setup_td,
               requires=["0 <= td.seconds < 86400", "0 <= td.microseconds < 1000000"],
               ensures=["result == td.days * 86400000000 + td.seconds * 1000000 + td.microseconds"],
               returns="int",
               canaries=[Canary("seconds-factor", "td.seconds * 1000000", "td.seconds * 100000")],
               native_fallback=TIMES_FALLBACK,
               assumptions=["datetime.timedelta keeps 0 <= seconds < 86400 and 0 <= microseconds < 10**6 (class A)"])
    R.contract("whoosh.util.times:long_to_datetime", props=["C13"],
               setup=lambda I: {"x": z3.Int("x")},
               requires=["x >= 0"],
               ensures=["result.since_min.days >= 0", "0 <= result.since_min.seconds < 86400",
                        "0 <= result.since_min.microseconds < 1000000",
                        "result.since_min.days * 86400000000 + result.since_min.seconds * 1000000 "
                        "+ result.since_min.microseconds == x"],
               canaries=[Canary("seconds-divisor", "seconds = x // 1000000", "seconds = x // 100000")],
               note="long_to_datetime(x) = datetime.min + normalised timedelta whose microsecond count is x; with "
                    "timedelta_to_usecs this is the inverse pair, and both are strictly monotone (linear form)")
    R.contract("whoosh.util.times:long_to_datetime", label="times/roundtrip", props=["C13"],
               setup=lambda I: {"x": z3.Int("x"), "y": z3.Int("y")},
               requires=["x >= 0", "y >= 0"],
               harness="dx = long_to_datetime(x)\ndy = long_to_datetime(y)\n"
                       "bx = timedelta_to_usecs(dx - datetime.min)\nby = timedelta_to_usecs(dy - datetime.min)\n",
               ensures=["bx == x", "by == y"],
               inline_callees=["whoosh.util.times:long_to_datetime", "whoosh.util.times:timedelta_to_usecs"],
               note="datetime_to_long(long_to_datetime(x)) == x on the inlined real bodies (dt.replace(tzinfo=None) is class A)")


# ---------------------------------------------------------------- replay concretisers
def _ints(model):
    return {k: v for k, v in model.items() if isinstance(v, int) and not isinstance(v, bool)}


def replay_split_ranges(model, unit, rec):
    import re
    m = re.search(r"intsize=(\d+),step=(\d+)", unit["label"])
    n, step = int(m.group(1)), int(m.group(2))
    W = n + step + 4
    vals = sorted(set(v if v < (1 << (W - 1)) else v - (1 << W) for v in _ints(model).values()))
    vals = [v for v in vals if 0 <= v < (1 << n)]
    return """
import sys, itertools
from whoosh.util.numeric import split_ranges
n, step = %d, %d
cands = %r
def check(s, e):
    tr = list(split_ranges(n, step, s, e))
    pts = set()
    for a in (s, e) + tuple(x for t in tr for x in t[:2]):
        for d in range(-2, 3):
            if 0 <= a + d < 2 ** n: pts.add(a + d)
    pts |= {0, 2 ** n - 1}
    for v in pts:
        cov = any((a >> sh) <= (v >> sh) <= (b >> sh) for a, b, sh in tr)
        if cov != (s <= v <= e):
            print("split_ranges(%%d,%%d,%%d,%%d) -> %%r ; v=%%d covered=%%s expected=%%s" %% (n, step, s, e, tr, v, cov, s <= v <= e))
            return True
    return False
for s, e in itertools.product(cands, cands):
    if check(s, e): sys.exit(1)
sys.exit(0)
""" % (n, step, vals)


def replay_tiered(model, unit, rec):
    import re
    m = re.search(r"intsize=(\d+),signed=(\w+)", unit["label"])
    n, signed = int(m.group(1)), m.group(2) == "True"
    g = lambda k, d=None: model.get(k, d)
    start = None if g("start_none") else g("start", 0)
    end = None if g("end_none") else g("end", 0)
    return """
import sys
from whoosh.util.numeric import tiered_ranges
n, signed, start, end, step, sx, ex = %d, %r, %r, %r, %r, %r, %r
bias = (1 << (n - 1)) if signed else 0
lo = 0 if start is None else start + bias + (1 if sx else 0)
hi = 2 ** n - 1 if end is None else end + bias - (1 if ex else 0)
try:
    tr = list(tiered_ranges(int, n, signed, start, end, step, sx, ex))
except Exception as e:
    print("tiered_ranges raised", repr(e)); sys.exit(1)
pts = {0, 2 ** n - 1}
for a in (lo, hi):
    for d in range(-2, 3):
        if 0 <= a + d < 2 ** n: pts.add(a + d)
for v in pts:
    cov = any((a >> sh) <= (v >> sh) <= (b >> sh) for a, b, sh in tr)
    if cov != (lo <= v <= hi):
        print("tiered_ranges(int,%%d,%%s,%%r,%%r,%%r,%%s,%%s) -> %%r; sortable v=%%d covered=%%s expected=%%s" %% (n, signed, start, end, step, sx, ex, tr, v, cov, lo <= v <= hi))
        sys.exit(1)
sys.exit(0)
""" % (n, signed, start, end, g("shift_step", 4), bool(g("startexcl")), bool(g("endexcl")))


def replay_sortable(fname):
    def f(model, unit, rec):
        import re
        m = re.search(r"intsize=(\d+),signed=(\w+)", unit["label"])
        n, signed = int(m.group(1)), m.group(2) == "True"
        x = model.get("x", 0)
        return """
import sys
from whoosh.util.numeric import to_sortable, from_sortable
n, signed, x = %d, %r, %r
bias = (1 << (n - 1)) if signed else 0
r = %s(int, n, signed, x)
exp = x + bias if %r == "to_sortable" else x - bias
print("%s(int,%%d,%%s,%%d) = %%d, expected %%d" %% (n, signed, x, r, exp))
sys.exit(1 if r != exp else 0)
""" % (n, signed, x, fname, fname, fname)
    return f


def attach_replays(R):
    R.contracts["whoosh.util.numeric:split_ranges"].replay = replay_split_ranges
    R.contracts["whoosh.util.numeric:tiered_ranges"].replay = replay_tiered
    R.contracts["whoosh.util.numeric:to_sortable"].replay = replay_sortable("to_sortable")
    R.contracts["whoosh.util.numeric:from_sortable"].replay = replay_sortable("from_sortable")
