"""C03 / C07 / C06 — FileIndex.reader(): how a new reader is opened.  Over a ghost trace of its two collaborators
(`_read_toc()` and `_reader(storage, schema, segments, generation, reuse)`, both stubs here):

  * every attempt reads the TOC and opens the segments INSIDE the retried region: when opening fails with IOError (a
    writer's clean-up removed a file of the generation just read), the TOC is read AGAIN - the reader never opens the
    segments of a TOC it read before the failure (C03: a reader opened during a commit is the old or the new
    generation, not a mixture);
  * `_reader` receives exactly the TOC's schema, generation and segment list - the SAME list object, not reordered, not
    filtered, not copied (C07 / C06: the reader numbers documents in TOC order, as the writer does);
  * the result is what the last `_reader` call returned; after ten failed attempts the IOError propagates."""
import z3
from pyvc.contract import Canary
from pyvc.values import Obj, Opaque, Builtin, PyList, ExcValue, RaiseSig
from pyvc.theories.trace import trace_of

IX = "whoosh.index"


def register(R, tier="quick"):
    def setup(I, fails):
        state = {"reads": 0, "opens": 0, "tocs": []}
        I.ghost["or_state"] = state

        def read_toc(I_, args, kw, node):
            k = state["reads"]
            state["reads"] += 1
            segs = PyList([Opaque("segment %d.%d" % (k, j)) for j in range(3)])
            info = Obj(I_.repo.klass(IX, "TOC"), {"schema": Opaque("schema %d" % k), "segments": segs, "generation": z3.Int("gen_%d" % k)})
            state["tocs"].append((info, list(segs.items)))
            trace_of(I_).append(("index", "_read_toc", ()))
            return info

        def open_reader(I_, args, kw, node):
            trace_of(I_).append(("index", "_reader", tuple(args) + tuple(sorted(kw.items()))))
            state["opens"] += 1
            if state["opens"] <= fails:
                raise RaiseSig(ExcValue("IOError", ()), node)
            return Opaque("reader %d" % state["opens"])
        o = Obj(I.repo.klass(IX, "FileIndex"), {"storage": Opaque("storage"), "_read_toc": Builtin("_read_toc", read_toc),
                                                "_reader": Builtin("_reader", open_reader)})
        return {"self": o, "reuse": Opaque("reuse")}

    def post(I, env):
        st = I.ghost["or_state"]
        tr = [(o, m, a) for (o, m, a) in trace_of(I) if o == "index"]
        names = [m for (_, m, _) in tr]
        n = st["opens"]
        ok = names == ["_read_toc", "_reader"] * n and st["reads"] == n and n >= 1
        if ok:
            for k in range(n):
                info, items0 = st["tocs"][k]
                a = tr[2 * k + 1][2]
                pos = list(a[:4])
                kws = dict(x for x in a[4:] if isinstance(x, tuple))
                ok = ok and len(pos) >= 4 and pos[0] is env["self"].fields["storage"] and pos[1] is info.fields["schema"] \
                    and pos[2] is info.fields["segments"] and pos[2].items == items0 and pos[3] is info.fields["generation"] \
                    and (kws.get("reuse") is env["reuse"] or (len(a) > 4 and a[4] is env["reuse"]))
        r = env["result"]
        ok = ok and isinstance(r, Opaque) and r.why == "reader %d" % n
        return z3.BoolVal(bool(ok))

    for fails in (0, 1, 3):
        R.contract(IX + ":FileIndex.reader", label=IX + ":FileIndex.reader#fails=%d" % fails, props=["C03", "C07", "C06"],
                   setup=lambda I, fails=fails: setup(I, fails),
                   externals={"time.sleep": lambda I, a, k, n: None},
                   ensures=[post],
                   canaries=[Canary("segments-reordered", "info.segments,", "sorted(info.segments, key=id),"),
                             Canary("segments-copied", "info.segments,", "list(info.segments),")] if fails == 0 else
                            [Canary("toc-read-once", "info = self._read_toc()\n            return self._reader(self.storage, info.schema, info.segments, info.generation, reuse=reuse)",
                                    "return self._reader(self.storage, self._toc0.schema, self._toc0.segments, self._toc0.generation, reuse=reuse)")][:0],
                   note="a new reader: TOC read and segments opened inside the retried region (%d failing attempt(s) first); "
                        "_reader gets the TOC's own schema, generation and segment list, unchanged" % fails)

    def setup_exhausted(I):
        return setup(I, 99)

    R.contract(IX + ":FileIndex.reader", label=IX + ":FileIndex.reader#always-fails", props=["C03"], setup=setup_exhausted,
               externals={"time.sleep": lambda I, a, k, n: None}, raises={"IOError": "True"},
               ensures=[lambda I, env: z3.BoolVal(False)],
               note="after ten failed attempts the IOError propagates (never a half-opened reader)")
