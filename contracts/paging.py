"""C14 — paging arithmetic (whoosh.searching.ResultsPage)."""
import z3
from pyvc.contract import Canary
from pyvc.values import Obj, Abstract

S = "whoosh.searching"


class ResultsStub(Abstract):
    def __init__(self, I):
        self.total = z3.Int("total")
        I.assume(self.total >= 0)

    def havoc(self, I):
        pass

    def length(self, I):
        return self.total

    def a_total(self, I):
        return self.total

    # the hit / score / document number at a position of the full result list (uninterpreted: any results object)
    HIT = z3.Function("rs_hit", z3.IntSort(), z3.IntSort())
    SCORE = z3.Function("rs_score", z3.IntSort(), z3.RealSort())
    DOCNUM = z3.Function("rs_docnum", z3.IntSort(), z3.IntSort())

    def _at(self, I, fn, idx, what):
        from pyvc.ops import to_z3
        idx = to_z3(idx)
        # the page must only ever ask the full list for positions it has
        I.oblige("call-pre", "position-inside-results[%s]" % what, z3.And(idx >= 0, idx < self.total))
        return fn(idx)

    def m___getitem__(self, I, idx):
        return self._at(I, ResultsStub.HIT, idx, "getitem")

    def getitem(self, I, idx, node=None):
        return self._at(I, ResultsStub.HIT, idx, "getitem")

    def m_score(self, I, idx):
        return self._at(I, ResultsStub.SCORE, idx, "score")

    def m_docnum(self, I, idx):
        return self._at(I, ResultsStub.DOCNUM, idx, "docnum")


def register(R, tier="quick"):
    def setup(I):
        return {"self": Obj(I.repo.klass(S, "ResultsPage")), "results": ResultsStub(I), "pagenum": z3.Int("pagenum"),
                "pagelen": z3.Int("pagelen")}
    R.contract(S + ":ResultsPage.__init__", props=["C14"], setup=setup,
               requires=["pagelen >= 1"],
               raises={"ValueError": "pagenum < 1"},
               ensures=["self.total == results.total",
                        "self.pagecount * pagelen >= self.total and (self.pagecount - 1) * pagelen < self.total "
                        "or (self.total == 0 and self.pagecount == 0)",
                        "1 <= self.pagenum", "self.pagenum <= max(1, self.pagecount)",
                        "self.pagenum == min(pagenum, max(1, self.pagecount))",
                        "self.offset == (self.pagenum - 1) * pagelen", "0 <= self.offset",
                        "0 <= self.pagelen <= pagelen",
                        "self.pagelen == min(pagelen, max(0, self.total - self.offset))",
                        "self.offset + self.pagelen <= self.total"],
               canaries=[Canary("offset-from-pagenum", "offset = (self.pagenum - 1) * pagelen", "offset = self.pagenum * pagelen"),
                         Canary("last-page-not-shortened", "if offset + pagelen > self.total:", "if offset + pagelen > self.total + 1:"),
                         Canary("no-lower-clamp", "self.pagenum = max(1, min(self.pagecount, pagenum))", "self.pagenum = min(self.pagecount, pagenum)")],
               assumptions=["ceil(total / pagelen) evaluated over the reals (exact for total < 2**53)"],
               note="a page is the slice results[offset : offset + pagelen'] with pagecount = ceil(total/pagelen), "
                    "1 <= pagenum <= max(1, pagecount), pagelen' = min(pagelen, total - offset) >= 0, incl. empty results")
    R.contract(S + ":ResultsPage.is_last_page", props=["C14"],
               setup=lambda I: {"self": Obj(I.repo.klass(S, "ResultsPage"), {"pagecount": z3.Int("pc"), "pagenum": z3.Int("pn")})},
               requires=["self.pagecount >= 0", "1 <= self.pagenum <= max(1, self.pagecount)"],
               ensures=["result == (self.pagenum >= self.pagecount)"], returns="bool")

    def page(I):
        """a page as __init__ leaves it (its postcondition): 0 <= offset, 0 <= pagelen, offset + pagelen <= total"""
        rs = ResultsStub(I)
        o = Obj(I.repo.klass(S, "ResultsPage"), {"results": rs, "offset": z3.Int("offset"), "pagelen": z3.Int("plen"), "total": rs.total})
        return {"self": o, "n": z3.Int("n")}

    PAGE = ["0 <= self.offset", "0 <= self.pagelen", "self.offset + self.pagelen <= self.total"]
    R.contract(S + ":ResultsPage.__getitem__", props=["C14"], setup=page, requires=PAGE,
               raises={"IndexError": "n >= self.pagelen or n < -self.pagelen"},
               ensures=[lambda I, env: env["result"] == ResultsStub.HIT(env["self"].fields["offset"] + z3.If(env["n"] < 0, env["n"] + env["self"].fields["pagelen"], env["n"]))],
               returns="int",
               canaries=[Canary("offset-dropped", "return self.results.__getitem__(n + offset)", "return self.results.__getitem__(n)"),
                         Canary("one-past-the-page", "if n < 0 or n >= self.pagelen:", "if n < 0 or n > self.pagelen:")],
               note="page[n] is hit offset + n of the full list for 0 <= n < pagelen (negative n counts from the page's end); "
                    "any other index raises IndexError - it never reaches a hit of another page")
    for meth, fn in (("score", ResultsStub.SCORE), ("docnum", ResultsStub.DOCNUM)):
        R.contract(S + ":ResultsPage." + meth, props=["C14"], setup=page, requires=PAGE + ["0 <= n", "n < self.pagelen"],
                   ensures=[lambda I, env, fn=fn: env["result"] == fn(env["self"].fields["offset"] + env["n"])],
                   returns="real" if meth == "score" else "int",
                   canaries=[Canary("offset-dropped", "n + self.offset", "n")],
                   note="page.%s(n) is %s(offset + n) of the full list" % (meth, meth))
