"""C14 — paging arithmetic (whoosh.searching.ResultsPage)."""
import z3
from pyvc.contract import Canary
from pyvc.values import Obj, Abstract

S = "whoosh.searching"


class ResultsStub(Abstract):
    def __init__(self, I):
        self.total = z3.Int("total")
        I.assume(self.total >= 0)

    def havoc(self, I):
        pass

    def length(self, I):
        return self.total

    def a_total(self, I):
        return self.total


def register(R, tier="quick"):
    def setup(I):
        return {"self": Obj(I.repo.klass(S, "ResultsPage")), "results": ResultsStub(I), "pagenum": z3.Int("pagenum"),
                "pagelen": z3.Int("pagelen")}
    R.contract(S + ":ResultsPage.__init__", props=["C14"], setup=setup,
               requires=["pagelen >= 1"],
               raises={"ValueError": "pagenum < 1"},
               ensures=["self.total == results.total",
                        "self.pagecount * pagelen >= self.total and (self.pagecount - 1) * pagelen < self.total "
                        "or (self.total == 0 and self.pagecount == 0)",
                        "1 <= self.pagenum", "self.pagenum <= max(1, self.pagecount)",
                        "self.pagenum == min(pagenum, max(1, self.pagecount))",
                        "self.offset == (self.pagenum - 1) * pagelen", "0 <= self.offset",
                        "0 <= self.pagelen <= pagelen",
                        "self.pagelen == min(pagelen, max(0, self.total - self.offset))",
                        "self.offset + self.pagelen <= self.total"],
               canaries=[Canary("offset-from-pagenum", "offset = (self.pagenum - 1) * pagelen", "offset = self.pagenum * pagelen"),
                         Canary("last-page-not-shortened", "if offset + pagelen > self.total:", "if offset + pagelen > self.total + 1:"),
                         Canary("no-lower-clamp", "self.pagenum = max(1, min(self.pagecount, pagenum))", "self.pagenum = min(self.pagecount, pagenum)")],
               assumptions=["ceil(total / pagelen) evaluated over the reals (exact for total < 2**53)"],
               note="a page is the slice results[offset : offset + pagelen'] with pagecount = ceil(total/pagelen), "
                    "1 <= pagenum <= max(1, pagecount), pagelen' = min(pagelen, total - offset) >= 0, incl. empty results")
    R.contract(S + ":ResultsPage.is_last_page", props=["C14"],
               setup=lambda I: {"self": Obj(I.repo.klass(S, "ResultsPage"), {"pagecount": z3.Int("pc"), "pagenum": z3.Int("pn")})},
               requires=["self.pagecount >= 0", "1 <= self.pagenum <= max(1, self.pagecount)"],
               ensures=["result == (self.pagenum >= self.pagecount)"], returns="bool")
