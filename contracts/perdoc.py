"""C06 / C07 / C08 — SegmentWriter.write_per_doc (whoosh.writing): the per-document half of a merge.

The source reader hands out its LIVE documents in order (`iter_docs()`); the function must give them the consecutive new
numbers base, base+1, ... (so deleted documents disappear and the order - hence the adjacency of grouped documents - is
kept), record old -> new in `docmap` exactly when the source has deletions, and copy every per-document datum from the OLD
number of the SAME document: the field length, the stored value, the column value.

Collaborators are ghost stubs whose methods carry the assertions (a per-document writer that checks what it is given):

    live(i)          old document number of the i-th live document of the source (i < n)
    pdw.count        number of documents finished so far
    start_doc(d)     obliges d == base + count
    add_field(f, _, value, length)
                     obliges value == STOREDV(count, f) and length == FLEN(live(count), f)
    add_column_value(f, _, v)
                     obliges v == COLV(f, live(count))
    finish_doc()     count += 1

The inner loop over the field names is cut at an invariant that says it changes neither the numbering nor the count; which
names it visits (schema fields plus dynamic stored names) is left arbitrary.  Vectors are handed over as opaque matchers
(`add_vector_matcher`), their content is C10's bounded part.
"""
import z3
from pyvc.contract import Canary, LoopSpec
from pyvc.values import Obj, Abstract, Opaque, Builtin
from pyvc.ops import to_z3

W = "whoosh.writing"
IntS, BoolS = z3.IntSort(), z3.BoolSort()
LIVE = z3.Function("wpd_live", IntS, IntS)                 # i-th live doc -> old number
STOREDV = z3.Function("wpd_stored", IntS, IntS, IntS)       # (i-th live doc, field name) -> stored value
FLEN = z3.Function("wpd_flen", IntS, IntS, IntS)            # (old number, field name) -> length
COLV = z3.Function("wpd_colv", IntS, IntS, IntS)            # (field name, old number) -> raw column value
HASCOL = z3.Function("wpd_hascol", IntS, BoolS)
COLTYPE = z3.Function("wpd_coltype", IntS, IntS)            # 0 = no column type
HASVEC = z3.Function("wpd_hasvec", IntS, BoolS)
DMAP = "wpd_docmap"


class Name(object):
    pass


class FieldStub(Abstract):
    def __init__(self, name):
        self.fname = to_z3(name)

    def havoc(self, I):
        pass

    def a_column_type(self, I):
        return ColType(self.fname)

    def a_vector(self, I):
        return HASVEC(self.fname)


class ColType(Abstract):
    """schema[f].column_type: falsy when the field has no column"""
    def __init__(self, fname):
        self.fname = fname

    def havoc(self, I):
        pass

    def truth(self, I):
        return COLTYPE(self.fname) != 0

    def is_none(self, I):
        return COLTYPE(self.fname) == 0


class SchemaStub(Abstract):
    def havoc(self, I):
        pass

    def getitem(self, I, idx, node=None):
        return FieldStub(idx)

    def contains(self, I, name):
        return z3.BoolVal(True)


class NameSet(Abstract):
    """a set of field names of symbolic size; `| other` and `set(...)` give another such set"""
    def __init__(self, I, tag):
        self.n = z3.Int(I.fresh_name("n" + tag))
        self.f = z3.Function(I.fresh_name("name_" + tag), IntS, IntS)
        I.assume(self.n >= 0)

    def havoc(self, I):
        pass

    def __deepcopy__(self, memo):
        return self

    def binop(self, I, op, other, reflected):
        return NameSet(I, "u")

    def iter_protocol(self, I):
        return 0, self.n, 1, (lambda i: self.f(to_z3(i)))


class StoredStub(Abstract):
    """the stored-fields dict of the i-th live document"""
    def __init__(self, i):
        self.i = to_z3(i)

    def havoc(self, I):
        pass

    def iterate(self, I):
        return []            # names of dynamic fields: folded into the arbitrary NameSet the inner loop runs over

    def m_get(self, I, name, default=None):
        return STOREDV(self.i, to_z3(name))


class DocItems(Abstract):
    def __init__(self, I):
        self.n = z3.Int(I.fresh_name("nlive"))
        I.assume(self.n >= 0)

    def havoc(self, I):
        pass

    def __deepcopy__(self, memo):
        return self

    def a_n(self, I):
        return self.n

    def iter_protocol(self, I):
        return 0, self.n, 1, (lambda i: (LIVE(to_z3(i)), StoredStub(i)))


class RawColumn(Abstract):
    def __init__(self, fname):
        self.fname = to_z3(fname)

    def havoc(self, I):
        pass

    def getitem(self, I, idx, node=None):
        return COLV(self.fname, to_z3(idx))

    def m_raw_column(self, I):
        return self


class ReaderStub(Abstract):
    def __init__(self, I, deletions):
        self.deletions = deletions
        self.items = DocItems(I)

    def havoc(self, I):
        pass

    def __deepcopy__(self, memo):
        return self

    def m_has_deletions(self, I):
        return self.deletions

    def m_iter_docs(self, I):
        return self.items

    def m_has_column(self, I, fieldname):
        return HASCOL(to_z3(fieldname))

    def m_column_reader(self, I, fieldname, coltype=None):
        return RawColumn(fieldname)

    def m_doc_field_length(self, I, docnum, fieldname, default=0):
        return FLEN(to_z3(docnum), to_z3(fieldname))

    def m_has_vector(self, I, docnum, fieldname):
        return z3.Bool(I.fresh_name("hasvector"))

    def m_vector(self, I, docnum, fieldname, fmt=None):
        return Opaque("vector matcher")


class Cols(Abstract):
    """`cols`: field name -> raw column reader, for the fields that have a column in schema and source"""
    def havoc(self, I):
        pass

    def __deepcopy__(self, memo):
        return self

    def setitem(self, I, idx, val, node=None):
        pass

    def contains(self, I, name):
        n = to_z3(name)
        return z3.And(COLTYPE(n) != 0, HASCOL(n))

    def getitem(self, I, idx, node=None):
        return RawColumn(idx)


class DocMap(Abstract):
    """`docmap`: a ghost array old -> new plus the number of entries written"""
    def __init__(self, I):
        self.arr = z3.Array(I.fresh_name(DMAP), IntS, IntS)
        self.writes = z3.IntVal(0)
        I.ghost["wpd_docmap_obj"] = self

    def havoc(self, I):
        self.arr = z3.Array(I.fresh_name(DMAP), IntS, IntS)
        self.writes = z3.Int(I.fresh_name("dmwrites"))

    def is_none(self, I):
        return False

    def truth(self, I):
        return self.writes > 0

    def setitem(self, I, idx, val, node=None):
        self.arr = z3.Store(self.arr, to_z3(idx), to_z3(val))
        self.writes = self.writes + 1

    def getitem(self, I, idx, node=None):
        return z3.Select(self.arr, to_z3(idx))


class PerDocWriter(Abstract):
    def __init__(self, I, base):
        self.base = base
        self.count = z3.IntVal(0)
        self.open = z3.BoolVal(False)

    def havoc(self, I):
        self.count = z3.Int(I.fresh_name("pdwcount"))
        self.open = z3.Bool(I.fresh_name("pdwopen"))
        # docmap is mutated in place by the same loop: its ghost state is cut together with the writer's
        dm = I.ghost.get("wpd_docmap_obj")
        if dm is not None:
            dm.havoc(I)

    def m_start_doc(self, I, docnum):
        I.oblige("assert", "start_doc-number", z3.And(to_z3(docnum) == self.base + self.count, z3.Not(self.open)),
                 note="the i-th live document gets the number base + i, and the previous document was finished")
        self.open = z3.BoolVal(True)

    def m_add_field(self, I, fieldname, fieldobj, value, length):
        f = to_z3(fieldname)
        I.oblige("assert", "add_field-same-document",
                 z3.And(self.open, to_z3(value) == STOREDV(self.count, f), to_z3(length) == FLEN(LIVE(self.count), f)),
                 note="stored value and field length are those of the document being copied (read at its OLD number)")

    def m_add_vector_matcher(self, I, fieldname, fieldobj, v):
        I.oblige("assert", "vector-inside-document", self.open)

    def m_add_column_value(self, I, fieldname, columnobj, value):
        I.oblige("assert", "add_column_value-same-document",
                 z3.And(self.open, to_z3(value) == COLV(to_z3(fieldname), LIVE(self.count))),
                 note="the column value is read at the document's OLD number")

    def m_finish_doc(self, I):
        I.oblige("assert", "finish_doc-open", self.open)
        self.count = self.count + 1
        self.open = z3.BoolVal(False)


def register(R, tier="quick"):
    def setup(I, deletions):
        base = z3.Int("base")
        I.assume(base >= 0)
        pdw = PerDocWriter(I, base)
        rd = ReaderStub(I, deletions)
        return {"self": Obj(I.repo.klass(W, "SegmentWriter"), {"schema": SchemaStub(), "perdocwriter": pdw, "docnum": base}),
                "fieldnames": NameSet(I, "fn"), "reader": rd, "deletions": deletions}

    def pdw_of(env):
        return env["self"].fields["perdocwriter"]

    def numbering(I, env, k):
        """after k documents: the writer's next number is base + k, k documents were finished, none is open, and (with
        deletions) docmap sends the j-th live document's old number to base + j for every j < k"""
        pdw = pdw_of(env)
        k = to_z3(k)
        cs = [env["self"].fields["docnum"] == pdw.base + k, pdw.count == k, z3.Not(pdw.open)]
        dm = env.get("docmap")
        if isinstance(dm, DocMap):
            j = z3.Int("nb_j")
            cs.append(z3.ForAll([j], z3.Implies(z3.And(0 <= j, j < k), z3.Select(dm.arr, LIVE(j)) == pdw.base + j)))
            cs.append(dm.writes == k)
        return z3.And(*cs)

    def live_distinct(I, env):
        # the source's live documents have distinct, ascending old numbers
        a, b = z3.Int("ld_a"), z3.Int("ld_b")
        return z3.ForAll([a, b], z3.Implies(z3.And(0 <= a, a < b), LIVE(a) < LIVE(b)))

    def post(I, env):
        n = env["reader"].items.n
        pdw = pdw_of(env)
        res = env["result"]
        cs = [env["self"].fields["docnum"] == pdw.base + n, pdw.count == n, z3.Not(pdw.open)]
        if env["deletions"]:
            if not isinstance(res, DocMap):
                return z3.BoolVal(False)
            j = z3.Int("po_j")
            cs.append(z3.ForAll([j], z3.Implies(z3.And(0 <= j, j < n), z3.Select(res.arr, LIVE(j)) == pdw.base + j)))
        else:
            cs.append(z3.BoolVal(res is None))
        return z3.And(*cs)

    def inner_inv(I, env):
        # the field loop neither renumbers nor finishes a document; the document stays open
        pdw = pdw_of(env)
        k = to_z3(env["_k"])
        cs = [env["self"].fields["docnum"] == pdw.base + k, pdw.count == k, pdw.open]
        dm = env.get("docmap")
        if isinstance(dm, DocMap):
            j = z3.Int("ii_j")
            cs.append(z3.ForAll([j], z3.Implies(z3.And(0 <= j, j <= k), z3.Select(dm.arr, LIVE(j)) == pdw.base + j)))
            cs.append(dm.writes == k + 1)
        return z3.And(*cs)

    R.contract(W + ":SegmentWriter.write_per_doc", props=["C06", "C07", "C08"],
               setup=setup, variants=[dict(deletions=True), dict(deletions=False)],
               requires=[live_distinct],
               cover_hint=lambda I, env: [z3.ForAll([z3.Int("ch_a")], LIVE(z3.Int("ch_a")) == 2 * z3.Int("ch_a")), z3.Int("base") == 3,
                                          env["reader"].items.n == 2, env["fieldnames"].n == 1],
               ensures=[post],
               returns=lambda I, env: None,
               # the function's first `{}` is docmap (only evaluated when the source has deletions), the second is cols
               opts={"empty_dict_factory": lambda I: (DocMap(I) if "docmap" not in I.frame.env else Cols()),
                     "builtin_override": {"set": Builtin("set", lambda I, args, kw, node: NameSet(I, "dyn")),
                                          "isinstance": Builtin("isinstance", lambda I, args, kw, node: True)}},
               loops={0: LoopSpec(inv=[lambda I, env: numbering(I, env, 0)], modifies=["cols"]),
                      1: LoopSpec(index="_k", inv=[lambda I, env: numbering(I, env, env["_k"]),
                                                    lambda I, env: to_z3(env["_k"]) <= env["reader"].items.n],
                                  modifies=["self.docnum", "self.perdocwriter"]),
                      2: LoopSpec(inv=[inner_inv], modifies=["self.perdocwriter"])},
               canaries=[Canary("column-read-at-new-number", "cv = cols[fieldname][docnum]", "cv = cols[fieldname][self.docnum]"),
                         Canary("length-read-at-new-number", "length = reader.doc_field_length(docnum, fieldname)",
                                "length = reader.doc_field_length(self.docnum, fieldname)"),
                         Canary("docmap-after-increment", "docmap[docnum] = self.docnum", "docmap[docnum] = self.docnum + 1"),
                         Canary("number-not-advanced", "self.docnum += 1", "pass")],
               note="merge, per-document half: the i-th live document of the source becomes document base + i (deleted ones "
                    "vanish, order kept), docmap records old -> new exactly when the source has deletions, and length, stored "
                    "value and column value are read at the OLD number of the same document")
