"""C10 — term statistics are exact folds of the postings (whoosh.reading.TermInfo, whoosh.codec.whoosh3.W3TermInfo,
W3PostingsWriter block statistics, combine_terminfos) and the one-byte field-length code is monotone
(whoosh.util.numeric.length_to_byte / byte_to_length).

Each contract is the single step of a fold; the statement "after all postings of a term were added the term info holds
the sum of weights, the number of postings, the min/max length, the max weight and the first/last id" follows by
induction over the postings (the induction itself is not machine-checked; every step is).
"""
import z3
from pyvc.contract import Canary, LoopSpec
from pyvc.values import Obj, Opt, Abstract, PyList, SymList, ClassRef
from pyvc.ops import to_z3

RD = "whoosh.reading"
W3 = "whoosh.codec.whoosh3"
NUM = "whoosh.util.numeric"
IntS, RealS = z3.IntSort(), z3.RealSort()


def opt_int(I, name):
    return Opt(z3.Bool(I.fresh_name(name + "_none")), z3.Int(I.fresh_name(name)))


def o_none(v):
    if isinstance(v, Opt):
        return v.isnone
    return z3.BoolVal(v is None)


def o_val(v):
    if isinstance(v, Opt):
        return v.val
    return z3.IntVal(0) if v is None else to_z3(v)


def mk_terminfo(I, cls=(RD, "TermInfo"), extra=None, tag=""):
    f = {"_weight": z3.Real("weight" + tag), "_df": z3.Int("df" + tag), "_minlength": opt_int(I, "minlength" + tag),
         "_maxlength": z3.Int("maxlength" + tag), "_maxweight": z3.Real("maxweight" + tag), "_minid": opt_int(I, "minid" + tag),
         "_maxid": z3.Int("maxid" + tag)}
    f.update(extra or {})
    return Obj(I.repo.klass(*cls), f)


def register(R, tier="quick"):
    # ------------------------------------------------------------------ one-byte length code
    def table_abs(I, v):
        """_length_byte_cache (the real 256-entry constant, evaluated from the AST) as an abstract array: the facts the proof
        uses are decided on the concrete table here and only assumed when they hold of it."""
        items = [int(x) for x in (v.items if isinstance(v, PyList) else list(v))]
        n = len(items)
        T = z3.Array(I.fresh_name("len_table"), IntS, IntS)
        j, k = z3.Int("tj"), z3.Int("tk")
        if all(items[i] < items[i + 1] for i in range(n - 1)):
            I.assume(z3.ForAll([j, k], z3.Implies(z3.And(0 <= j, j < k, k < n), z3.Select(T, j) < z3.Select(T, k))))
        for i in list(range(0, min(n, 12))) + [n - 1]:
            I.assume(z3.Select(T, i) == items[i])
        I.notes.add("table:_length_byte_cache has %d entries; strictly increasing=%s (decided on the constant itself)"
                    % (n, all(items[i] < items[i + 1] for i in range(n - 1))))
        return SymList(T, z3.IntVal(n), "array")

    R.contract(NUM + ":length_to_byte", label="numeric/length-byte-monotone", props=["C10", "C12"],
               opts={"abstract_globals": {(NUM, "_length_byte_cache"): table_abs}},
               setup=lambda I: {"x": z3.Int("x"), "y": z3.Int("y")},
               requires=["0 <= x", "x <= y"],
               harness="a = length_to_byte(x)\nb = length_to_byte(y)\nla = byte_to_length(a)\nlb = byte_to_length(b)\n",
               ensures=["0 <= a <= b <= 255", "la <= lb", "implies(x <= 10, la == x)", "implies(x < 106374, la >= x)",
                        "implies(x >= 106374, la == 106374)"],
               inline_callees=[NUM + ":length_to_byte"],
               canaries=[Canary("bisect-right", "bisect_left(_length_byte_cache, length)", "bisect_right(_length_byte_cache, length)")],
               note="the stored length byte is monotone in the length, exact up to 10, never below the true length under the "
                    "cap: min/max over decoded bytes = decoded min/max, which the block-quality bounds of C12 rely on")

    # ------------------------------------------------------------------ TermInfo.add_posting (one fold step)
    def ap_setup(I, has_length):
        env = {"self": mk_terminfo(I), "docnum": z3.Int("docnum"), "weight": z3.Real("w"),
               "length": z3.Int("length") if has_length else None}
        return env

    def ap_post(I, env):
        s, s0 = env["self"].fields, I.old_env["self"].fields
        w, d = env["weight"], env["docnum"]
        out = [s["_weight"] == s0["_weight"] + w, s["_df"] == s0["_df"] + 1,
               s["_maxweight"] == z3.If(w > s0["_maxweight"], w, s0["_maxweight"]),
               s["_maxid"] == d, z3.Not(o_none(s["_minid"])),
               o_val(s["_minid"]) == z3.If(o_none(s0["_minid"]), d, o_val(s0["_minid"]))]
        ln = env["length"]
        if ln is None:
            out += [o_none(s["_minlength"]) == o_none(s0["_minlength"]), o_val(s["_minlength"]) == o_val(s0["_minlength"]),
                    s["_maxlength"] == s0["_maxlength"]]
        else:
            out += [z3.Not(o_none(s["_minlength"])),
                    o_val(s["_minlength"]) == z3.If(z3.Or(o_none(s0["_minlength"]), ln < o_val(s0["_minlength"])), ln, o_val(s0["_minlength"])),
                    s["_maxlength"] == z3.If(ln > s0["_maxlength"], ln, s0["_maxlength"])]
        return z3.And(*out)

    R.contract(RD + ":TermInfo.add_posting", props=["C10"], setup=ap_setup,
               variants=[dict(has_length=True), dict(has_length=False)],
               requires=[lambda I, env: z3.Implies(z3.Not(o_none(env["self"].fields["_minid"])),
                                                   z3.And(env["docnum"] >= env["self"].fields["_maxid"],
                                                          o_val(env["self"].fields["_minid"]) <= env["self"].fields["_maxid"]))],
               ensures=[ap_post],
               canaries=[Canary("df-not-counted", "self._df += 1", "self._df += 0"),
                         Canary("maxid-keeps-first", "self._maxid = docnum", "self._maxid = min(self._maxid, docnum)"),
                         Canary("min-is-max", "self._minlength = min(self._minlength, length)", "self._minlength = max(self._minlength, length)")],
               note="weight += w, df += 1, max weight, first/last id, min/max length: exactly the fold step")

    # ------------------------------------------------------------------ W3TermInfo.add_block (fold step over a block)
    class Block(Abstract):
        """the buffered block of a W3PostingsWriter as seen by add_block: n >= 1 postings, their weight sum and stats"""
        def __init__(self, I):
            self.n = z3.Int("bn")
            self.wsum = z3.Real("bwsum")
            self.minlen = opt_int(I, "bminlen")
            self.maxlen = z3.Int("bmaxlen")
            self.maxw = z3.Real("bmaxw")
            self.minid = z3.Int("bminid")
            self.maxid = z3.Int("bmaxid")
            I.assume(self.n >= 1)

        def havoc(self, I):
            pass

        def length(self, I):
            return self.n

        def a__weights(self, I):
            return WeightList(self)

        def m_min_length(self, I):
            return self.minlen

        def m_max_length(self, I):
            return self.maxlen

        def m_max_weight(self, I):
            return self.maxw

        def m_min_id(self, I):
            return self.minid

        def m_max_id(self, I):
            return self.maxid

    class WeightList(Abstract):
        def __init__(self, b):
            self.b = b

        def havoc(self, I):
            pass

        def builtin_sum(self, I):
            return self.b.wsum

    def ab_post(I, env):
        s, s0 = env["self"].fields, I.old_env["self"].fields
        b = env["block"]
        bm = b.minlen
        return z3.And(s["_weight"] == s0["_weight"] + b.wsum, s["_df"] == s0["_df"] + b.n,
                      s["_maxweight"] == z3.If(b.maxw > s0["_maxweight"], b.maxw, s0["_maxweight"]),
                      s["_maxlength"] == z3.If(b.maxlen > s0["_maxlength"], b.maxlen, s0["_maxlength"]),
                      s["_maxid"] == b.maxid, z3.Not(o_none(s["_minid"])),
                      o_val(s["_minid"]) == z3.If(o_none(s0["_minid"]), b.minid, o_val(s0["_minid"])),
                      z3.Implies(o_none(s0["_minlength"]), z3.And(o_none(s["_minlength"]) == bm.isnone, o_val(s["_minlength"]) == bm.val)),
                      z3.Implies(z3.And(z3.Not(o_none(s0["_minlength"])), z3.Not(bm.isnone)),
                                 z3.And(z3.Not(o_none(s["_minlength"])),
                                        o_val(s["_minlength"]) == z3.If(bm.val < o_val(s0["_minlength"]), bm.val, o_val(s0["_minlength"])))))

    R.contract(W3 + ":W3TermInfo.add_block", props=["C10", "C12", "C06", "C05"],
               setup=lambda I: {"self": mk_terminfo(I, (W3, "W3TermInfo"), {"_offset": None, "_length": None, "_inlined": None}),
                                "block": Block(I)},
               requires=[lambda I, env: z3.Implies(z3.Not(o_none(env["self"].fields["_minlength"])),
                                                   z3.Not(env["block"].minlen.isnone)),
                         lambda I, env: z3.And(env["block"].minid <= env["block"].maxid,
                                               z3.Implies(z3.Not(o_none(env["self"].fields["_minid"])),
                                                          z3.And(env["block"].minid > env["self"].fields["_maxid"],
                                                                 o_val(env["self"].fields["_minid"]) <= env["self"].fields["_maxid"])))],
               ensures=[ab_post],
               canaries=[Canary("df-counts-blocks", "self._df += len(block)", "self._df += 1"),
                         Canary("minid-overwritten", "if self._minid is None:", "if True:"),
                         Canary("maxweight-overwritten", "self._maxweight = max(self._maxweight, block.max_weight())",
                                "self._maxweight = block.max_weight()")],
               assumptions=["a field either records lengths for all postings or for none (scorable is a property of the field), "
                            "so block.min_length() is None only while the term info's is"],
               note="term-level statistics are the fold of the block-level statistics")


    # ------------------------------------------------------------------ W3PostingsWriter: block buffer statistics
    def mk_pw(I, **kw):
        ids = SymList(z3.Array(I.fresh_name("ids"), IntS, IntS), z3.Int(I.fresh_name("nids")), "array")
        wts = SymList(z3.Array(I.fresh_name("wts"), IntS, RealS), z3.Int(I.fresh_name("nwts")), "array")
        I.assume(ids.n >= 0)
        I.assume(wts.n == ids.n)
        return Obj(I.repo.klass(W3, "W3PostingsWriter"),
                   {"_ids": ids, "_weights": wts, "_values": ValueList(I), "_minlength": opt_int(I, "bminlength"),
                    "_maxlength": z3.Int("bmaxlength"), "_maxweight": z3.Real("bmaxweight"), "_blocklimit": z3.Int("blocklimit"),
                    "_byteids": False})

    # ------------------------------------------------------------------ W3PostingsWriter._mini_weights (block weight code)
    def mw_post(I, env):
        """None exactly when every buffered weight is 1.0; one number exactly when they are all equal (and not all 1.0):
        that number is the common weight; otherwise the weights themselves, in order"""
        w = env["self"].fields["_weights"]
        r = env["result"]
        k = z3.Int("mwk")
        inr = z3.And(0 <= k, k < w.n)
        allone = z3.ForAll([k], z3.Implies(inr, z3.Select(w.arr, k) == 1))
        alleq = z3.ForAll([k], z3.Implies(inr, z3.Select(w.arr, k) == z3.Select(w.arr, 0)))
        if r is None:
            return allone
        if isinstance(r, SymList):
            return z3.And(z3.Not(allone), z3.Not(alleq), r.n == w.n, z3.ForAll([k], z3.Implies(inr, z3.Select(r.arr, k) == z3.Select(w.arr, k))))
        return z3.And(z3.Not(allone), alleq, to_z3(r) == z3.Select(w.arr, 0))

    R.contract(W3 + ":W3PostingsWriter._mini_weights", props=["C10", "C09"], setup=lambda I: {"self": mk_pw(I)},
               requires=[lambda I, env: env["self"].fields["_weights"].n >= 1],
               ensures=[mw_post],
               canaries=[Canary("all-ones-from-the-first", "if all((w == 1.0 for w in weights)):", "if weights[0] == 1.0:"),
                         Canary("equal-to-last", "elif all((w == weights[0] for w in weights)):", "elif weights[0] == weights[-1]:")],
               note="the compact codes of a block's weights (None = all 1.0, one number = all equal) are chosen exactly when "
                    "they lose nothing: every weight of the block reads back as written")

    class ValueList(Abstract):
        """the list of encoded posting values of the buffered block: only its length matters here"""
        def __init__(self, I):
            self.n = z3.Int(I.fresh_name("nvalues"))
            I.assume(self.n >= 0)

        def havoc(self, I):
            self.n = z3.Int(I.fresh_name("nvalues"))
            I.assume(self.n >= 0)

        def __deepcopy__(self, memo):
            c = ValueList.__new__(ValueList)
            c.n = self.n
            return c

        def m_append(self, I, v):
            self.n = self.n + 1

        def length(self, I):
            return self.n

        def a_n(self, I):
            return self.n

    class VBytes(Abstract):
        pytype = "bytes"

        def __init__(self, I):
            self.nonempty = z3.Bool(I.fresh_name("vbytes_nonempty"))

        def havoc(self, I):
            pass

        def truth(self, I):
            return self.nonempty

        def is_none(self, I):
            return False

    def stats_ok(I, env):
        """block statistics describe the buffered postings: max weight bounds every buffered weight"""
        s = env["self"].fields
        k = z3.Int("sk")
        w = s["_weights"]
        return z3.And(w.n == s["_ids"].n, s["_maxweight"] >= 0,
                      z3.ForAll([k], z3.Implies(z3.And(0 <= k, k < w.n), z3.Select(w.arr, k) <= s["_maxweight"])))

    def addp_post(I, env):
        s, s0 = env["self"].fields, I.old_env["self"].fields
        ids, ids0, w, w0 = s["_ids"], s0["_ids"], s["_weights"], s0["_weights"]
        k = z3.Int("pk")
        ln = env["length"]
        out = [ids.n == ids0.n + 1, w.n == w0.n + 1, z3.Select(ids.arr, ids0.n) == env["id_"], z3.Select(w.arr, w0.n) == env["weight"],
               z3.ForAll([k], z3.Implies(z3.And(0 <= k, k < ids0.n), z3.And(z3.Select(ids.arr, k) == z3.Select(ids0.arr, k),
                                                                              z3.Select(w.arr, k) == z3.Select(w0.arr, k)))),
               s["_maxweight"] == z3.If(env["weight"] > s0["_maxweight"], env["weight"], s0["_maxweight"]),
               stats_ok(I, env)]
        if ln is None:
            out += [o_none(s["_minlength"]) == o_none(s0["_minlength"]), o_val(s["_minlength"]) == o_val(s0["_minlength"]),
                    s["_maxlength"] == s0["_maxlength"]]
        else:
            pos_len = ln > 0
            out += [z3.Implies(pos_len, z3.And(z3.Not(o_none(s["_minlength"])),
                                               o_val(s["_minlength"]) == z3.If(z3.Or(o_none(s0["_minlength"]), ln < o_val(s0["_minlength"])),
                                                                               ln, o_val(s0["_minlength"])),
                                               to_z3(s["_maxlength"]) == z3.If(ln > s0["_maxlength"], ln, s0["_maxlength"]))),
                    z3.Implies(z3.Not(pos_len), z3.And(o_none(s["_minlength"]) == o_none(s0["_minlength"]),
                                                       o_val(s["_minlength"]) == o_val(s0["_minlength"]),
                                                       to_z3(s["_maxlength"]) == s0["_maxlength"]))]
        return z3.And(*out)

    def addp_setup(I, has_length):
        return {"self": mk_pw(I), "id_": z3.Int("id_"), "weight": z3.Real("weight"), "vbytes": VBytes(I),
                "length": z3.Int("length") if has_length else None}

    R.contract(W3 + ":W3PostingsWriter.add_posting", props=["C10", "C12"], setup=addp_setup,
               variants=[dict(has_length=True), dict(has_length=False)],
               requires=[stats_ok, "len(self._ids) < self._blocklimit", "id_ >= 0",
                         lambda I, env: z3.BoolVal(True) if env["length"] is None else env["length"] >= 0],
               ensures=[addp_post],
               modifies=["self._ids", "self._weights", "self._values", "self._minlength", "self._maxlength", "self._maxweight"],
               canaries=[Canary("maxweight-not-tracked", "if weight > self._maxweight:", "if False:"),
                         Canary("minlength-tracks-max", "if minlength is None or length < minlength:", "if minlength is None or length > minlength:")],
               note="buffering a posting appends id and weight in step and keeps the block maximum weight an upper bound of "
                    "every buffered weight (what block_quality is computed from), min/max length over postings with a length")

    # ------------------------------------------------------------------ a full block is written out BEFORE the new posting is buffered
    def nb_effect(I, env):
        """what _new_block() leaves (verified below) - used as the effect of _write_block(), which ends with it"""
        f = env["self"].fields
        f["_ids"] = SymList(z3.K(IntS, z3.IntVal(0)), z3.IntVal(0), "array")
        f["_weights"] = SymList(z3.K(IntS, z3.RealVal(0)), z3.IntVal(0), "array")
        f["_values"] = ValueList(I)
        f["_minlength"] = None
        f["_maxlength"] = z3.IntVal(0)
        f["_maxweight"] = z3.RealVal(0)

    def ln(v):
        return v.n if isinstance(v, SymList) else z3.IntVal(len(v.items))

    def at0(I, v):
        return z3.Select(v.arr, 0) if isinstance(v, SymList) else to_z3(v.items[0])

    def nb_post(I, env):
        f = env["self"].fields
        return z3.And(ln(f["_ids"]) == 0, ln(f["_weights"]) == 0, o_none(f["_minlength"]),
                      to_z3(f["_maxlength"]) == 0, to_z3(f["_maxweight"]) == 0)

    R.contract(W3 + ":W3PostingsWriter._new_block", props=["C12", "C05", "C10"], setup=lambda I: {"self": mk_pw(I)},
               ensures=[nb_post], modifies=["self._ids", "self._weights", "self._values", "self._minlength", "self._maxlength", "self._maxweight"],
               canaries=[Canary("max-weight-kept", "self._maxweight = 0", "pass")],
               note="a new block starts empty: no ids, no weights, statistics reset (max weight 0, no lengths)")
    R.contract(W3 + ":W3PostingsWriter._write_block", label="postings/_write_block@add_posting", props=["C12", "C05", "C10"], verify=False,
               effect=nb_effect,
               note="(call-site stub: serialises the buffered block - bounded formats harness - and ends with _new_block(), whose "
                    "effect is the verified postcondition above)")

    def addp_full_post(I, env):
        s = env["self"].fields
        w, ids = s["_weights"], s["_ids"]
        return z3.And(ln(ids) == 1, ln(w) == 1, at0(I, ids) == env["id_"], at0(I, w) == env["weight"],
                      to_z3(s["_maxweight"]) >= env["weight"], to_z3(s["_maxweight"]) >= 0,
                      to_z3(s["_maxweight"]) == z3.If(env["weight"] > 0, env["weight"], 0))

    R.contract(W3 + ":W3PostingsWriter.add_posting", label=W3 + ":W3PostingsWriter.add_posting#full-block", props=["C12", "C05", "C10"],
               setup=lambda I: addp_setup(I, False),
               requires=[stats_ok, "len(self._ids) >= self._blocklimit", "self._blocklimit >= 1", "id_ >= 0"],
               ensures=[addp_full_post],
               modifies=["self._ids", "self._weights", "self._values", "self._minlength", "self._maxlength", "self._maxweight"],
               canaries=[Canary("statistics-before-the-flush", "if len(self._ids) >= self._blocklimit:\n        self._write_block()", "pass"),
                         ],
               note="when the buffer is full the old block is written out first: the posting that opens the new block is the "
                    "only one buffered afterwards and the block maximum weight is ITS weight (not a leftover of the old block, "
                    "and not lost to it)")

    # ------------------------------------------------------------------ combine_terminfos: statistics over several segments
    def ct_setup(I, k):
        tis = []
        for j in range(k):
            ti = mk_terminfo(I, tag="_%d" % j)
            ti.fields["_minlength"] = z3.Int("minlength_%d" % j)
            ti.fields["_minid"] = z3.Int("minid_%d" % j)
            tis.append((ti, z3.Int("offset_%d" % j)))
        return {"tis": PyList(tis), "k": k}

    def zmin(xs):
        m = xs[0]
        for x in xs[1:]:
            m = z3.If(x < m, x, m)
        return m

    def zmax(xs):
        m = xs[0]
        for x in xs[1:]:
            m = z3.If(x > m, x, m)
        return m

    def ct_post(I, env):
        old = I.old_env["tis"].items
        r = env["result"].fields
        f = lambda n: [to_z3(ti.fields[n]) for ti, _ in old]
        offs = [o for _, o in old]
        return z3.And(to_z3(r["_weight"]) == z3.Sum(f("_weight")), to_z3(r["_df"]) == z3.Sum(f("_df")),
                      to_z3(r["_minlength"]) == zmin(f("_minlength")), to_z3(r["_maxlength"]) == zmax(f("_maxlength")),
                      to_z3(r["_maxweight"]) == zmax(f("_maxweight")),
                      to_z3(r["_minid"]) == zmin([a + o for a, o in zip(f("_minid"), offs)]),
                      to_z3(r["_maxid"]) == zmax([a + o for a, o in zip(f("_maxid"), offs)]))

    R.contract(RD + ":combine_terminfos", props=["C10", "C06"], setup=ct_setup,
               variants=[dict(k=1), dict(k=2), dict(k=3)],
               ensures=[ct_post],
               canaries=[Canary("offsets-ignored-for-min-id", "min((ti.min_id() + offset for ti, offset in tis))",
                                "min((ti.min_id() for ti, offset in tis))"),
                         Canary("df-is-max", "df = sum((ti.doc_frequency() for ti, _ in tis))",
                                "df = max((ti.doc_frequency() for ti, _ in tis))"),
                         Canary("single-segment-offset-dropped", "ti._maxid += offset", "pass")],
               assumptions=["segment lists of length 1, 2 and 3 (the code is a fixed set of sum/min/max folds over the list)"],
               note="the statistics of a term over a multi-segment reader are the sums / extrema of the per-segment statistics, "
                    "with document ids shifted by the segment offsets")

    # ------------------------------------------------------------------ W3TermInfo on disk: to_bytes / from_bytes
    def tb_setup(I, has_min):
        ti = mk_terminfo(I, (W3, "W3TermInfo"), {"_offset": z3.Int("offset"), "_length": z3.Int("plength"), "_inlined": None})
        ti.fields["_minlength"] = z3.Int("minlength") if has_min else None
        ti.fields["_minid"] = z3.Int("minid") if has_min else None
        return {"self": ti, "W3TermInfo": ClassRef(I.repo.klass(W3, "W3TermInfo"))}

    def tb_post(I, env):
        s, t = I.old_env["self"].fields, env["t"].fields
        return z3.And(to_z3(t["_df"]) == s["_df"], to_z3(t["_maxid"]) == s["_maxid"],
                      o_none(t["_minid"]) == o_none(s["_minid"]),
                      z3.Implies(z3.Not(o_none(s["_minid"])), o_val(t["_minid"]) == o_val(s["_minid"])),
                      to_z3(t["_offset"]) == s["_offset"], to_z3(t["_length"]) == s["_length"])

    R.contract(W3 + ":W3TermInfo.to_bytes", label="postings/terminfo-roundtrip", props=["C10"], setup=tb_setup,
               variants=[dict(has_min=True), dict(has_min=False)],
               opts={"abstract_globals": {(NUM, "_length_byte_cache"): table_abs}},
               requires=["0 <= self._df < 2**32", "0 <= self._maxid < 2**32 - 1", "self._maxlength >= 0",
                         lambda I, env: z3.Implies(z3.Not(o_none(env["self"].fields["_minid"])),
                                                   z3.And(o_val(env["self"].fields["_minid"]) >= 0,
                                                          o_val(env["self"].fields["_minid"]) < 2 ** 32 - 1)),
                         lambda I, env: z3.Implies(z3.Not(o_none(env["self"].fields["_minlength"])),
                                                   o_val(env["self"].fields["_minlength"]) >= 0),
                         "0 <= self._offset < 2**63", "0 <= self._length < 2**31"],
               harness="b = self.to_bytes()\nt = W3TermInfo.from_bytes(b)\n",
               ensures=[tb_post],
               inline_callees=[W3 + ":W3TermInfo.to_bytes", W3 + ":W3TermInfo.from_bytes"],
               canaries=[Canary("ids-swapped", "minlength, maxlength, self._maxweight, minid, maxid)",
                                "minlength, maxlength, self._maxweight, maxid, minid)"),
                         Canary("df-in-weight-slot", "st = self._struct.pack(isinlined, self._weight, self._df,",
                                "st = self._struct.pack(isinlined, self._weight, self._df + 1,")],
               note="document frequency, first/last id and the posting extent survive serialisation exactly (ids below the "
                    "out-of-band marker 0xffffffff); weights are stored as float32 and lengths as the one-byte code (see "
                    "numeric/length-byte-monotone)")
