"""C15 — query rewriting preserves meaning.  "Bounded shape x unbounded index": the real normalize() / operators /
with_boost / replace / accept / copy / pickle are RUN (natively) on every tree of the shape family in
bounded/normalize_shapes.py, and for each (input, output) pair the equality of the two denotations is PROVED by
SMT for every index (documents are arbitrary: per field an uninterpreted set of term values over an ordered
domain).  Shapes are bounded (stated), indexes are not."""
import json
import os
import time
import z3

from contracts.bounded_matchers import ROOT


def run_shapes(nrandom, seed):
    import subprocess
    import tempfile
    import shutil
    from pyvc.extract import REPO_SRC
    env = dict(os.environ)
    env["PYTHONPATH"] = REPO_SRC
    tmpd = tempfile.mkdtemp(prefix="pyvc_shapes_")
    env["TMPDIR"] = tmpd
    try:
        p = subprocess.run(["/venv/bin/python", "-W", "ignore", os.path.join(ROOT, "bounded", "normalize_shapes.py"),
                            str(nrandom), str(seed)], capture_output=True, text=True, timeout=1800, env=env, cwd=tmpd)
        if p.returncode != 0:
            raise RuntimeError("normalize_shapes.py failed: %s" % (p.stderr[-800:],))
        return [json.loads(l) for l in p.stdout.splitlines() if l.startswith("{")]
    finally:
        shutil.rmtree(tmpd, ignore_errors=True)


FAMILIES = {
    "A1": "And of overlapping ranges on one field is merged to their intersection, which assumes a single-valued field "
          "(a document with two terms, one in each range, matches the original but not the merged range)",
    "A2": "NullQuery inside And is dropped (treated as neutral) instead of making the conjunction empty",
    "A3": "a fielded Every(f) inside And absorbs its same-field siblings: And([Every(f), Term(f, t)]) -> Every(f)",
    "A5": "Not(NullQuery) normalizes to NullQuery (null propagates through Not instead of becoming 'everything')",
    "A6": "AndNot whose positive side is (or reduces to) NullQuery becomes Not(negative side) instead of nothing "
          "(also q - r through the operator)",
    "A4": "RangeMixin.merge returns the CONTAINING range also when intersecting: And([f:[a TO z], f:[b TO x]]) -> f:[a TO z]",
}


def tfield(t):
    op = t[0]
    if op in ("term", "range", "nrange"):
        return t[1]
    if op == "every":
        return t[1]
    if op == "not":
        return None          # Not.field() is None in whoosh
    if op == "wrap":
        return tfield(t[1])
    if op in ("and", "or"):
        fs = [tfield(x) for x in t[1]]
        return fs[0] if fs and all(f == fs[0] for f in fs) else None
    if op in ("andnot", "andmaybe", "require"):
        a, b = tfield(t[1]), tfield(t[2])
        return a if a == b else None
    return None


def nullish(t, not_null=False):
    """Subtree that whoosh's null-propagation rules reduce to NullQuery."""
    op = t[0]
    if op == "null":
        return True
    if op in ("and", "or"):
        return bool(t[1]) and all(nullish(x, not_null) for x in t[1])
    if op == "require":
        return nullish(t[1], not_null) or nullish(t[2], not_null)
    if op in ("andnot", "andmaybe"):
        return nullish(t[1], not_null)
    if op == "not":
        return not_null and nullish(t[1], not_null)
    if op == "wrap":
        return nullish(t[1], not_null)
    return False


def everyish(t):
    """Field f such that whoosh normalizes the subtree to Every(f) (union with Every(f) of same-field clauses)."""
    op = t[0]
    if op == "every":
        return t[1]
    if op == "or" and t[1]:
        fs = [everyish(x) for x in t[1] if everyish(x) is not None]
        if fs and all(tfield(x) == fs[0] for x in t[1]):
            return fs[0]
    if op == "and" and t[1]:
        fs = [everyish(x) for x in t[1]]
        if fs[0] is not None and all(f == fs[0] for f in fs):
            return fs[0]
        fs2 = [f for f in fs if f is not None]
        if fs2 and all(tfield(x) == fs2[0] for x in t[1]):
            return fs2[0]
    return None


class Den(object):
    """Denotation of a query tree for one arbitrary document of one arbitrary index.  `flags` switch on the
    conventional readings behind the recorded known findings (applied to And nodes of the INPUT only)."""

    def __init__(self, flags=()):
        self.sets = {}
        self.vals = {}
        self.n = 0
        self.flags = set(flags)
        self.side = []

    def infield(self, f):
        if f not in self.sets:
            fn = z3.Function("In_%s" % f, z3.IntSort(), z3.BoolSort())
            self.sets[f] = fn
            if "A1" in self.flags:
                x, y = z3.Ints("sv_x_%s sv_y_%s" % (f, f))
                self.side.append(z3.ForAll([x, y], z3.Implies(z3.And(fn(x), fn(y)), x == y)))
        return self.sets[f]

    def val(self, t):
        if isinstance(t, (int, float)):
            return z3.IntVal(int(t) * 10)
        return z3.IntVal(self.vals[t])

    def prepare(self, trees):
        strs = set()

        def walk(t):
            if t[0] in ("term",):
                strs.add(t[2])
            elif t[0] == "range":
                for x in (t[2], t[3]):
                    if isinstance(x, str):
                        strs.add(x)
            for x in t[1:]:
                if isinstance(x, list) and x and isinstance(x[0], str):
                    walk(x)
                elif isinstance(x, list):
                    for y in x:
                        if isinstance(y, list):
                            walk(y)
        for t in trees:
            walk(t)
        for i, s in enumerate(sorted(strs)):
            self.vals[s] = (i + 1) * 10

    def bounds(self, t):
        _, f, lo, hi, sx, ex = t
        import math
        lo_k = (-math.inf, 0) if lo is None else ((self.val(lo).as_long()), 1 if sx else 0)
        hi_k = (math.inf, 0) if hi is None else ((self.val(hi).as_long()), -1 if ex else 0)
        return lo_k, hi_k

    def fold_ranges(self, kids):
        """Replays CompoundQuery.normalize's sequential merge of overlapping same-field ranges under And with
        RangeMixin.merge's behaviour (containment -> the containing range, else intersection)."""
        kids = list(kids)
        i = 0
        while i < len(kids):
            q = kids[i]
            if q[0] in ("range", "nrange"):
                j = i + 1
                while j < len(kids):
                    o = kids[j]
                    if o[0] == q[0] and o[1] == q[1] and self.overlap(q, o):
                        kids.pop(j)
                        q = self.merge(q, o)
                        j = i + 1
                    else:
                        j += 1
                kids[i] = q
            i += 1
        return kids

    def overlap(self, a, b):
        (s1, e1), (s2, e2) = self.bounds(a), self.bounds(b)
        return (s2 <= s1 <= e2) or (s2 <= e1 <= e2) or (s1 <= s2 <= e1) or (s1 <= e2 <= e1)

    def merge(self, a, b):
        (s1, e1), (s2, e2) = self.bounds(a), self.bounds(b)
        if s1 >= s2 and e1 <= e2:
            return b
        if s2 >= s1 and e2 <= e1:
            return a
        lo = a if s1 >= s2 else b
        hi = a if e1 <= e2 else b
        return [a[0], a[1], lo[2], hi[3], lo[4], hi[5]]

    def den(self, t, inp=False):
        op = t[0]
        if op == "null":
            return z3.BoolVal(False)
        if op == "term":
            return self.infield(t[1])(self.val(t[2]))
        if op in ("range", "nrange"):
            _, f, lo, hi, sx, ex = t
            self.n += 1
            x = z3.Int("x%d" % self.n)
            conds = [self.infield(f)(x)]
            if lo is not None:
                conds.append(x > self.val(lo) if sx else x >= self.val(lo))
            if hi is not None:
                conds.append(x < self.val(hi) if ex else x <= self.val(hi))
            return z3.Exists([x], z3.And(*conds))
        if op == "every":
            if t[1] is None:
                return z3.BoolVal(True)
            self.n += 1
            x = z3.Int("x%d" % self.n)
            return z3.Exists([x], self.infield(t[1])(x))
        if op == "not":
            if inp and "A5" in self.flags and nullish(t[1], True):
                return z3.BoolVal(False)
            return z3.Not(self.den(t[1], inp))
        if op == "wrap":
            return self.den(t[1], inp)
        if op == "and":
            kids = list(t[1])
            if inp:
                # whoosh flattens nested Ands before applying its merges
                flat = []
                for k in kids:
                    if k[0] == "and":
                        flat.extend(k[1])
                    else:
                        flat.append(k)
                kids = flat
                nn = "A5" in self.flags
                if "A2" in self.flags and any(not nullish(k, nn) for k in kids):
                    kids = [k for k in kids if not nullish(k, nn)]
                if "A3" in self.flags:
                    ef = set(everyish(k) for k in kids if everyish(k) is not None)
                    kids = [k for k in kids if everyish(k) is not None or tfield(k) is None or tfield(k) not in ef]
                if "A4" in self.flags:
                    kids = self.fold_ranges(kids)
            return z3.And(*[self.den(s, inp) for s in kids]) if kids else z3.BoolVal(False if not t[1] else True)
        if op == "or":
            return z3.Or(*[self.den(s, inp) for s in t[1]]) if t[1] else z3.BoolVal(False)
        if op == "andnot":
            if inp and "A6" in self.flags and nullish(t[1], "A5" in self.flags):
                return z3.Not(self.den(t[2], inp))
            return z3.And(self.den(t[1], inp), z3.Not(self.den(t[2], inp)))
        if op == "andmaybe":
            return self.den(t[1], inp)
        if op == "require":
            return z3.And(self.den(t[1], inp), self.den(t[2], inp))
        raise ValueError("unmodelled query node %r" % (t,))


def equivalent(r, flags, timeout_ms):
    D = Den(flags)
    src = r["in"] if not flags or not r.get("in_kids") else r["in_kids"]
    D.prepare([src, r["out"]])
    a, b = D.den(src, inp=True), D.den(r["out"])
    s = z3.Solver()
    s.set("timeout", timeout_ms)
    for ax in D.side:
        s.add(ax)
    s.add(a != b)
    res = s.check()
    return res, (str(s.model())[:400] if res == z3.sat else None)


def check_pairs(recs, timeout_ms=10000):
    import itertools
    t0 = time.time()
    n = dis = 0
    failures = []
    families = {}
    samples = []
    solver_s = 0.0
    combos = [()]
    for k in range(1, 7):
        combos += list(itertools.combinations(["A1", "A2", "A3", "A4", "A5", "A6"], k))
    for i, r in enumerate(recs):
        n += 1
        oid = "shape:%s#%d" % (r["kind"], i)
        if "error" in r:
            failures.append({"id": oid, "what": "the real rewrite raised: %s" % r["error"], "in": r["in"]})
            continue
        try:
            t = time.time()
            res, model = equivalent(r, (), timeout_ms)
            solver_s += time.time() - t
        except ValueError as e:
            failures.append({"id": oid, "what": str(e), "in": r["in"], "out": r["out"]})
            continue
        if res == z3.unsat:
            if r["kind"] == "normalize" and r.get("idempotent") is False:
                failures.append({"id": oid, "what": "normalize is not idempotent: normalize(out) = %r" % (r.get("again"),),
                                 "in": r["in"], "out": r["out"]})
                continue
            dis += 1
            if len(samples) < 3:
                samples.append({"id": oid, "in": r["in"], "out": r["out"], "result": "unsat"})
            continue
        explained = None
        for fl in combos[1:]:
            t = time.time()
            res2, _ = equivalent(r, fl, timeout_ms)
            solver_s += time.time() - t
            if res2 == z3.unsat:
                explained = "+".join(fl)
                break
        if explained:
            fam = families.setdefault(explained, {"count": 0, "example": {"in": r["in"], "out": r["out"]}})
            fam["count"] += 1
        else:
            failures.append({"id": oid, "what": "denotations differ (%s)" % res, "in": r["in"], "out": r["out"], "model": model})
    return {"obligations": n, "discharged": dis, "failures": failures, "samples": samples, "families": families,
            "solver_seconds": round(solver_s, 2), "seconds": round(time.time() - t0, 2)}


def register(R, tier="quick"):
    def fn(tier_, seed):
        recs = run_shapes(1500 if tier_ == "quick" else 30000, seed)
        out = check_pairs(recs)
        out["bound"] = ("all trees of depth <= 1 over 14 leaves (Term x3, TermRange x6 bound patterns, Every, Every(f), "
                        "NullQuery, NumericRange x2) x {Not, And, Or, DisjunctionMax, AndNot, AndMaybe, Require} plus %d random "
                        "trees of depth 2-3; operators/with_boost/replace/accept/copy/pickle on a sample"
                        % (1500 if tier_ == "quick" else 30000))
        return out
    R.shape_checks["rewrite-shapes"] = (["C15"], fn,
                                        "real normalize()/operators on bounded shapes; equivalence proved by SMT for all indexes")
