"""C12 (bounds are upper bounds) / C09 (formulas) — whoosh.scoring, over the reals (assumption T6)."""
import z3
from pyvc.contract import Canary
from pyvc.values import Obj, Abstract, SpecFn
from pyvc.ops import to_z3

S = "whoosh.scoring"


class LeafView(Abstract):
    """What a scorer may ask a leaf matcher: current weight/id and the block
    statistics, related as the codec contracts (C10/C12) guarantee:
    0 < weight <= block_max_weight, 0 < block_min_length <= length(id) (a document containing the term has length >= 1)."""

    def __init__(self, I, dfl):
        self.w = z3.Real("w")
        self.W = z3.Real("blockmaxw")
        self.L = z3.Real("blockminlen")
        self.d = z3.Int("docid")
        I.assume(z3.And(self.w > 0, self.W >= self.w, self.L > 0, self.L <= dfl.F(self.d)))

    def havoc(self, I):
        pass

    def m_weight(self, I):
        return self.w

    def m_id(self, I):
        return self.d

    def m_block_max_weight(self, I):
        return self.W

    def m_block_min_length(self, I):
        return self.L


class UFun(Abstract):
    def __init__(self, I, name, positive=True):
        self.F = z3.Function(I.fresh_name(name), z3.IntSort(), z3.RealSort())
        self.positive = positive

    def havoc(self, I):
        pass

    def call(self, I, args, kwargs, node=None):
        v = self.F(to_z3(args[0]))
        if self.positive:
            I.assume(v > 0)
        return v


def register(R, tier="quick"):
    register_maxquality(R)
    # ---- bm25 is monotone: increasing in tf, decreasing in field length (the facts block/max quality rely on)
    R.contract(S + ":bm25", label="scoring/bm25-monotone", props=["C12", "C09"],
               setup=lambda I: {n: z3.Real(n) for n in ("idf", "tf1", "tf2", "fl1", "fl2", "avgfl", "B", "K1")},
               requires=["idf > 0", "0 < tf1 <= tf2", "0 <= fl2 <= fl1", "avgfl > 0", "0 <= B <= 1", "K1 >= 0"],
               harness="lo = bm25(idf, tf1, fl1, avgfl, B, K1)\nhi = bm25(idf, tf2, fl2, avgfl, B, K1)\n",
               ensures=["lo <= hi", "lo >= 0"],
               inline_callees=[S + ":bm25"],
               canaries=[Canary("length-in-numerator", "tf + K1 * (1 - B + B * fl / avgfl)", "tf + K1 * (1 - B + B * avgfl / fl)")],
               assumptions=["parameter domain 0 <= B <= 1, K1 >= 0, idf > 0, avgfl > 0 (B > 1 breaks monotonicity: stated, not hidden)"],
               note="w1 <= w2 and l1 >= l2 imply bm25(w1,l1) <= bm25(w2,l2); scores are non-negative")

    def setup_idf(I):
        class SearcherStub(Abstract):
            def __init__(s):
                s.n = z3.Int("df")
                s.dc = z3.Int("doccount")

            def havoc(s, I2):
                pass

            def m_get_parent(s, I2):
                return s

            def m_doc_frequency(s, I2, f, t):
                return s.n

            def m_doc_count_all(s, I2):
                return s.dc
        st = SearcherStub()
        I.assume(z3.And(st.n >= 0, st.n <= st.dc, st.dc >= 1))
        return {"self": Obj(I.repo.klass(S, "WeightingModel")), "searcher": st, "fieldname": "f", "text": "t"}
    R.contract(S + ":WeightingModel.idf", props=["C12", "C09"], setup=setup_idf,
               ensures=["result > 0"], returns="real",
               canaries=[Canary("no-plus-one", "return log(dc / (n + 1)) + 1", "return log(dc / (n + 1))")],
               assumptions=["log axioms: strictly monotone, log(1)=0, log(x) <= x-1, log(x) > -1 for x >= 1/2"],
               note="idf > 0 for 0 <= df <= doc_count (needed by every monotonicity argument); statistics come "
                    "from the parent searcher")

    # ---- scorers: score(matcher) <= block_quality(matcher), harness on the real methods
    def mk_scorer(cls, fields):
        def setup(I):
            dfl = UFun(I, "dfl")
            f = {"dfl": dfl}
            for k, v in fields.items():
                f[k] = z3.Real(k) if v == "real" else v
            return {"self": Obj(I.repo.klass(S, cls), f), "m": LeafView(I, dfl)}
        return setup
    H = "s = self.score(m)\nbq = self.block_quality(m)\n"
    R.contract(S + ":BM25FScorer._score", label="scoring/BM25FScorer-block-bound", props=["C12", "C05"],
               setup=mk_scorer("BM25FScorer", {"idf": "real", "avgfl": "real", "B": "real", "K1": "real", "qf": 1}),
               requires=["self.idf > 0", "self.avgfl > 0", "0 <= self.B <= 1", "self.K1 >= 0"],
               harness=H, ensures=["s <= bq", "s >= 0"],
               canaries=[Canary("bm25-args-swapped", "bm25(self.idf, weight, length, self.avgfl, self.B, self.K1)",
                                "bm25(self.idf, length, weight, self.avgfl, self.B, self.K1)")],
               note="BM25F: block_quality() = _score(block max weight, block min length) >= score of every entry "
                    "whose weight/length the block statistics bound")
    R.contract(S + ":TF_IDFScorer.score", label="scoring/TF_IDFScorer-block-bound", props=["C12", "C05"],
               setup=mk_scorer("TF_IDFScorer", {"idf": "real", "_maxquality": "real"}),
               requires=["self.idf > 0"], harness=H, ensures=["s <= bq", "s >= 0"],
               canaries=[Canary("score-doubled", "return matcher.weight() * self.idf", "return matcher.weight() * self.idf * 2")])
    R.contract(S + ":WeightScorer.score", label="scoring/WeightScorer-block-bound", props=["C12", "C05"],
               setup=mk_scorer("WeightScorer", {"_maxweight": "real"}),
               harness=H, ensures=["s <= bq", "s >= 0"])

    def mk_rev(I):
        dfl = UFun(I, "dfl")
        sub = Obj(I.repo.klass(S, "TF_IDFScorer"), {"idf": z3.Real("idf"), "_maxquality": z3.Real("mq")})
        return {"self": Obj(I.repo.klass(S, "ReverseWeighting.ReverseScorer"), {"subscorer": sub}), "m": LeafView(I, dfl)}
    R.contract(S + ":ReverseWeighting.ReverseScorer.score", label="scoring/ReverseScorer-block-bound", props=["C12", "C05"],
               setup=mk_rev, requires=["self.subscorer.idf > 0"], harness=H, ensures=["s <= bq"],
               note="known finding: the negated bound of the wrapped scorer is a LOWER bound")

    register_stats(R)
    R.contract(S + ":PL2Scorer._score", label="scoring/PL2Scorer-block-bound", props=["C12", "C05"],
               setup=mk_scorer("PL2Scorer", {"cf": "real", "dc": "real", "avgfl": "real", "c": "real", "qf": 1}),
               requires=["self.cf > 0", "self.dc >= 1", "self.avgfl > 0", "self.c > 0", "self.cf <= self.dc * 1000"],
               harness=H, ensures=["s <= bq"], timeout_ms=3000,
               note="known finding: PL2 is not monotone in (weight, length); log is uninterpreted, so the solver's "
                    "counter-model is not trusted by itself - the native witness is")
    R.contract(S + ":DFreeScorer._score", label="scoring/DFreeScorer-block-bound", props=["C12", "C05"],
               setup=mk_scorer("DFreeScorer", {"cf": "real", "fl": "real", "qf": 1}),
               requires=["self.cf > 0", "self.fl >= self.cf"],
               harness=H, ensures=["s <= bq"], timeout_ms=3000,
               note="known finding: DFree's bound is not an upper bound (scores may be negative)")


def register_stats(R):
    """C09: collection statistics come from the PARENT searcher (layout independence), block statistics from the segment."""
    from pyvc.theories.trace import Recorder
    from pyvc.values import PyDict

    def mk_env(I):
        parent = Recorder("parent", returns={"idf": z3.Real("idf"), "avg_field_length": z3.Real("avgfl"),
                                            "frequency": z3.Real("cf"), "doc_count_all": z3.Real("dc"), "field_length": z3.Real("fl")})
        ti = Recorder("terminfo", returns={"max_weight": z3.Real("maxw"), "min_length": z3.Real("minlen")})
        field = Recorder("field", attrs={"scorable": True})
        searcher = Recorder("searcher", attrs={"schema": PyDict({"f": field})},
                            returns={"get_parent": parent, "term_info": ti, "idf": z3.Real("seg_idf"),
                                     "avg_field_length": z3.Real("seg_avgfl"), "frequency": z3.Real("seg_cf"),
                                     "doc_count_all": z3.Real("seg_dc"), "field_length": z3.Real("seg_fl")})
        I.assume(z3.And(z3.Real("idf") > 0, z3.Real("avgfl") > 0, z3.Real("maxw") > 0, z3.Real("minlen") > 0,
                        z3.Real("cf") > 0, z3.Real("dc") >= 1, z3.Real("fl") >= z3.Real("cf")))
        return searcher
    NOSEG = ["count_events('searcher.idf') == 0", "count_events('searcher.avg_field_length') == 0",
             "count_events('searcher.frequency') == 0", "count_events('searcher.doc_count_all') == 0",
             "count_events('searcher.field_length') == 0", "count_events('searcher.get_parent') == 1"]
    R.contract(S + ":BM25FScorer.__init__", props=["C09", "C06"],
               setup=lambda I: {"self": Obj(I.repo.klass(S, "BM25FScorer")), "searcher": mk_env(I), "fieldname": "f", "text": "t",
                                "B": z3.Real("B"), "K1": z3.Real("K1")},
               requires=["0 <= B <= 1", "K1 >= 0"],
               ensures=NOSEG + ["count_events('parent.idf') == 1", "count_events('parent.avg_field_length') == 1",
                                lambda I, env: env["self"].fields["idf"] == z3.Real("idf"),
                                lambda I, env: env["self"].fields["avgfl"] == z3.Real("avgfl")],
               canaries=[Canary("avgfl-from-segment", "self.avgfl = parent.avg_field_length(fieldname) or 1",
                                "self.avgfl = searcher.avg_field_length(fieldname) or 1")],
               note="BM25F: idf and average field length are read from the parent (whole-index) searcher, never from the "
                    "segment searcher: scores do not depend on how documents are split into segments")
    R.contract(S + ":PL2Scorer.__init__", props=["C09", "C06"],
               setup=lambda I: {"self": Obj(I.repo.klass(S, "PL2Scorer")), "searcher": mk_env(I), "fieldname": "f", "text": "t",
                                "c": z3.Real("c")},
               requires=["c > 0"],
               ensures=NOSEG + ["count_events('parent.frequency') == 1", "count_events('parent.doc_count_all') == 1",
                                "count_events('parent.avg_field_length') == 1"],
               note="PL2: cf, doc count and average field length come from the parent searcher")
    R.contract(S + ":DFreeScorer.__init__", props=["C09", "C06"],
               setup=lambda I: {"self": Obj(I.repo.klass(S, "DFreeScorer")), "searcher": mk_env(I), "fieldname": "f", "text": "t"},
               ensures=NOSEG + ["count_events('parent.frequency') == 1", "count_events('parent.field_length') == 1"],
               note="DFree: cf and total field length come from the parent searcher (and the methods exist)")
    R.contract(S + ":TF_IDF.scorer", props=["C09", "C06"],
               setup=lambda I: {"self": Obj(I.repo.klass(S, "TF_IDF")), "searcher": mk_env(I), "fieldname": "f", "text": "t"},
               ensures=NOSEG + ["count_events('parent.idf') == 1"],
               note="TF_IDF: idf from the parent searcher")


def register_maxquality(R):
    """C12/C05: the per-term ceiling max_quality() set up by WeightLengthScorer.setup from the term statistics must bound the
    score of EVERY posting of the term: weight <= max_weight, length >= min_length (the statistics are exact folds: C10)."""
    from pyvc.theories.trace import Recorder
    from pyvc.values import PyDict

    def setup(I):
        ti = Recorder("ti", returns={"max_weight": z3.Real("maxw"), "min_length": z3.Real("minlen"), "max_length": z3.Real("maxlen"),
                                     "weight": z3.Real("totw"), "doc_frequency": z3.Int("df")})
        field = Recorder("field", attrs={"scorable": True})
        searcher = Recorder("searcher", attrs={"schema": PyDict({"f": field})}, returns={"term_info": ti})
        o = Obj(I.repo.klass(S, "BM25FScorer"), {"idf": z3.Real("idf"), "avgfl": z3.Real("avgfl"), "B": z3.Real("B"), "K1": z3.Real("K1"), "qf": 1})
        w, ln = z3.Real("w"), z3.Real("len")
        I.assume(z3.And(z3.Real("maxw") >= w, w > 0, z3.Real("minlen") > 0, z3.Real("minlen") <= ln, ln <= z3.Real("maxlen")))
        return {"self": o, "searcher": searcher, "fieldname": "f", "text": "t", "w": w, "length": ln}
    R.contract(S + ":WeightLengthScorer.setup", label="scoring/BM25F-max-quality", props=["C12", "C05"], setup=setup,
               requires=["self.idf > 0", "self.avgfl > 0", "0 <= self.B <= 1", "self.K1 >= 0"],
               harness="self.setup(searcher, fieldname, text)\nmq = self.max_quality()\ns = self._score(w, length)\n",
               ensures=["s <= mq"],
               inline_callees=[S + ":WeightLengthScorer.setup"],
               canaries=[Canary("ceiling-from-longest-field", "ti.min_length()", "ti.max_length()")],
               note="BM25F: max_quality() = _score(term max weight, term min length) >= the score of every posting of the term")
