"""C20 — SortedIntSet (whoosh.idsets): a strictly ascending array `data` denotes the set of its elements.

    member(data, x)  :=  exists k. 0 <= k < len(data) and data[k] == x

Representation invariant: data is STRICTLY ascending (so every member occurs once and `len` is the cardinality).
`i in S` answers member; `add(i)` turns the set into S + {i}; `discard(i)` into S - {i}; both keep the invariant - for
arrays of ANY length.  `bisect_left` is a library contract (class A: the insertion point in a sorted sequence; the
sortedness of the argument is an obligation at every call).  list.insert / list.pop at a symbolic position are modelled
in pyvc/builtins.py (element-wise shift); the array typecode (overflow of an element) is not modelled."""
import z3
from pyvc.contract import Canary
from pyvc.values import Obj, SymList
from pyvc.ops import to_z3

M = "whoosh.idsets"
IntS = z3.IntSort()


def strictly_sorted(d):
    j, k = z3.Int("sj"), z3.Int("sk")
    return z3.And(d.n >= 0, z3.ForAll([j, k], z3.Implies(z3.And(0 <= j, j < k, k < d.n), z3.Select(d.arr, j) < z3.Select(d.arr, k))))


def member(d, x, nm="mk"):
    k = z3.Int(nm)
    return z3.Exists([k], z3.And(0 <= k, k < d.n, z3.Select(d.arr, k) == x))


def kept(d0, d, but, shifts):
    """every element of d0 (other than `but`) is an element of d - with the witness position bounded: the element at
    position k is found at k + s for one of the given shifts.  This implies  forall x. member(d0, x) and x != but ->
    member(d, x)  by plain logic (the existential of `member` is instantiated by k + s); it is the form the solver can
    decide, and every sorted-array insert / delete satisfies it with shifts {0, +1} / {0, -1}."""
    k = z3.Int("kk")
    e = z3.Select(d0.arr, k)
    found = z3.Or(*[z3.And(0 <= k + s, k + s < d.n, z3.Select(d.arr, k + s) == e) for s in shifts])
    if but is not None:
        found = z3.Or(e == but, found)
    return z3.ForAll([k], z3.Implies(z3.And(0 <= k, k < d0.n), found))


def register(R, tier="quick"):
    def mk(I):
        data = SymList(z3.Array(I.fresh_name("data"), IntS, IntS), z3.Int(I.fresh_name("ndata")), "array")
        return {"self": Obj(I.repo.klass(M, "SortedIntSet"), {"data": data}), "i": z3.Int("i")}

    def D(env):
        return env["self"].fields["data"]

    def D0(I):
        return I.old_env["self"].fields["data"]

    K = M + ":SortedIntSet."
    x = z3.Int("sx")

    R.contract(K + "__contains__", props=["C20"], setup=mk,
               requires=[lambda I, env: strictly_sorted(D(env))],
               ensures=[lambda I, env: to_z3(env["result"]) == member(D(env), to_z3(env["i"]))],
               returns="bool",
               canaries=[Canary("upper-bound-exclusive", "i > data[-1]", "i >= data[-1]"),
                         Canary("neighbour", "return data[pos] == i", "return data[pos] >= i")],
               note="membership = the element at the insertion point equals i; False outside [first, last] and for the empty set")

    R.contract(K + "add", props=["C20"], setup=mk,
               requires=[lambda I, env: strictly_sorted(D(env))],
               ensures=[lambda I, env: strictly_sorted(D(env)),
                        # every element afterwards is i or was there before
                        lambda I, env: z3.ForAll([x], z3.Implies(member(D(env), x, "m1"), z3.Or(x == to_z3(env["i"]), member(D0(I), x, "m2")))),
                        # every old element and i are there afterwards
                        lambda I, env: kept(D0(I), D(env), None, (0, 1)),
                        lambda I, env: member(D(env), to_z3(env["i"]), "m5"),
                        lambda I, env: D(env).n == D0(I).n + z3.If(member(D0(I), to_z3(env["i"]), "m6"), 0, 1)],
               modifies=["self.data"],
               canaries=[Canary("insert-after", "data.insert(pos, i)", "data.insert(pos + 1, i)"),
                         Canary("duplicate", "if data[pos] != i:", "if data[pos] != i or True:"),
                         Canary("front-appended", "data.insert(0, i)", "data.append(i)")],
               note="add(i): S + {i}, strictly ascending order kept, cardinality grows by one exactly when i was absent")

    R.contract(K + "discard", props=["C20"], setup=mk,
               requires=[lambda I, env: strictly_sorted(D(env))],
               ensures=[lambda I, env: strictly_sorted(D(env)),
                        lambda I, env: z3.ForAll([x], z3.Implies(member(D(env), x, "m1"), z3.And(x != to_z3(env["i"]), member(D0(I), x, "m2")))),
                        lambda I, env: kept(D0(I), D(env), to_z3(env["i"]), (0, -1)),
                        lambda I, env: D(env).n == D0(I).n - z3.If(member(D0(I), to_z3(env["i"]), "m6"), 1, 0)],
               modifies=["self.data"],
               canaries=[Canary("pops-neighbour", "data.pop(pos)", "data.pop(pos - 1)"),
                         Canary("pops-any", "if pos < len(data) and data[pos] == i:", "if pos < len(data):")],
               note="discard(i): S - {i}; nothing changes when i is absent")
