"""C01 — TermRange._btexts (whoosh.query.ranges): which terms of the field a term range expands to.

Model: `ixreader.terms_from(fieldname, start)` is the reader's sorted term sequence from (fieldname, start) on (class A /
bounded: the queries harness): item i is (FN(i), T(i)); byte strings are compared through an order embedding into the
integers (TV(i) = code of T(i); only ==, <, > are used by the code), the items of the field form an initial run, are
strictly ascending and are >= start.  With both bounds given and encodable:

    in(i)  :=  FN(i) == field  and  (TV(i) > START or (TV(i) == START and not startexcl))
                               and  (TV(i) < END   or (TV(i) == END   and not endexcl))

the generator yields exactly the items with in(i), each once, in lexicon order - whether or not the (exclusive) start
bound itself is a term of this segment, and nothing after the point where it stops is inside the interval."""
import ast
import z3
from pyvc.contract import Canary, LoopSpec
from pyvc.values import Abstract, Obj, Opaque, SpecFn, Builtin
from pyvc.ops import to_z3

Q = "whoosh.query.ranges"
IntS = z3.IntSort()
FN = z3.Function("tr_field", IntS, IntS)
TV = z3.Function("tr_code", IntS, IntS)
CNT = z3.Function("tr_count", IntS, IntS)
FIELD = z3.Int("tr_fieldname")
START, END = z3.Int("tr_start"), z3.Int("tr_end")


class Key(Abstract):
    """a byte string known only through its order code"""
    def __init__(self, code, idx=None):
        self.code = to_z3(code)
        self.idx = idx

    def havoc(self, I):
        pass

    def __deepcopy__(self, memo):
        return self

    def compare(self, I, op, other, swapped):
        if not isinstance(other, Key):
            from pyvc.values import OutsideSubset
            raise OutsideSubset("byte string compared with %r" % (other,))
        a, b = (other.code, self.code) if swapped else (self.code, other.code)
        return {ast.Eq: a == b, ast.NotEq: a != b, ast.Lt: a < b, ast.LtE: a <= b, ast.Gt: a > b, ast.GtE: a >= b}[type(op)]


class Terms(Abstract):
    def __init__(self, I):
        self.n = z3.Int(I.fresh_name("nterms"))
        I.assume(self.n >= 0)

    def havoc(self, I):
        pass

    def __deepcopy__(self, memo):
        return self

    def iter_protocol(self, I):
        return 0, self.n, 1, (lambda i: (FN(to_z3(i)), Key(TV(to_z3(i)), to_z3(i))))


class Field(Abstract):
    def havoc(self, I):
        pass

    def m_to_bytes(self, I, v):
        return v          # the bounds are handed over already encoded (a bound that cannot be encoded ends the generator)


class Schema(Abstract):
    def havoc(self, I):
        pass

    def getitem(self, I, idx, node=None):
        return Field()


def inside(i, sx, ex):
    return z3.And(FN(i) == FIELD, z3.Or(TV(i) > START, z3.And(TV(i) == START, z3.Not(sx))),
                  z3.Or(TV(i) < END, z3.And(TV(i) == END, z3.Not(ex))))


def register(R, tier="quick"):
    def setup(I):
        terms = Terms(I)
        I.ghost["tr_terms"] = terms
        i, j = z3.Int("tr_i"), z3.Int("tr_j")
        n = terms.n
        # terms_from(fieldname, start): sorted, the field's items first, all of them >= start
        I.assume(z3.ForAll([i, j], z3.Implies(z3.And(0 <= i, i < j, j < n, FN(j) == FIELD), z3.And(FN(i) == FIELD, TV(i) < TV(j)))))
        I.assume(z3.ForAll([i], z3.Implies(z3.And(0 <= i, i < n, FN(i) == FIELD), TV(i) >= START)))
        I.assume(CNT(0) == 0)
        sx, ex = z3.Bool("startexcl"), z3.Bool("endexcl")
        rd = Obj(I.repo.klass("whoosh.reading", "IndexReader"),
                 {"schema": Schema(), "terms_from": Builtin("terms_from", lambda I_, a, k, nd: terms)})
        q = Obj(I.repo.klass(Q, "TermRange"), {"fieldname": FIELD, "start": Key(START), "end": Key(END), "startexcl": sx, "endexcl": ex})
        return {"self": q, "ixreader": rd}

    def flags(I):
        f = I.root_frame.env["self"].fields
        return to_z3(f["startexcl"]), to_z3(f["endexcl"])

    def count(I, k):
        k = to_z3(k)
        sx, ex = flags(I)
        I.assume(CNT(k + 1) == CNT(k) + z3.If(inside(k, sx, ex), 1, 0))
        return CNT(k)

    def good_yield(I, y, k):
        k = to_z3(k)
        sx, ex = flags(I)
        return z3.And(z3.BoolVal(isinstance(y, Key) and y.idx is not None), (y.idx == k) if isinstance(y, Key) and y.idx is not None else z3.BoolVal(False),
                      inside(k, sx, ex))

    def post(I, env):
        sx, ex = flags(I)
        k = to_z3(I.root_frame.env["_k"])      # the item the loop stood on when the generator ended
        j = z3.Int("tr_pj")
        ok = I.ghost["ok"]
        ok = z3.BoolVal(ok) if isinstance(ok, bool) else ok
        # every yield was the item the loop stood on and inside the interval; the number of yields is the number of inside
        # items passed; nothing from the stopping point on is inside
        return z3.And(ok, to_z3(I.ghost["ny"]) == count(I, k),
                      z3.ForAll([j], z3.Implies(z3.And(k <= j, j < I.ghost["tr_terms"].n), z3.Not(inside(j, sx, ex)))))

    R.contract(Q + ":TermRange._btexts", props=["C01"], setup=setup,
               spec_funcs={"tr_good_yield": SpecFn("tr_good_yield", good_yield), "tr_count": SpecFn("tr_count", count)},
               ghost="ok = True\nny = 0\n", on_yield="ok = ok and tr_good_yield(_y, _k)\nny = ny + 1\n",
               ensures=[post],
               loops={0: LoopSpec(index="_k", inv=["ok", "ny == tr_count(_k)", lambda I, env: to_z3(env["_k"]) <= I.ghost["tr_terms"].n],
                                  havoc=["ok", "ny"])},
               canaries=[Canary("end-inclusive-always", "if t == end and endexcl:", "if t == end and endexcl and False:"),
                         Canary("stops-at-end-inclusive", "if t > end:", "if t >= end:"),
                         Canary("start-not-excluded", "if t == start and startexcl:", "if t == start and startexcl and False:")],
               assumptions=["terms_from(fieldname, start) is the reader's sorted term sequence from (fieldname, start) on; byte "
                            "strings are modelled by an order embedding into the integers (only ==, < and > are used)",
                            "both bounds given and encodable (open bounds use the constants b'' and b'\\xff\\xff\\xff\\xff': bounded harness)"],
               note="a term range expands to exactly the field's terms inside the interval (bounds included unless exclusive), "
                    "in order, also when the exclusive start bound is not itself a term of the segment")
