"""C15 — replace(fieldname, oldtext, newtext) on the term-like leaves (Term, FuzzyTerm, Variations): the result is a NEW
query object; its text is `newtext` exactly when this leaf is the term (fieldname, oldtext) - same field AND same text -
and otherwise it equals the original in field, text and boost; the original is never modified.  Replacing an ABSENT term
(another field, or another text) therefore yields a query with the same meaning, which is the clause of C15; compound
queries pass replace() down through apply() (bounded rewrites harness)."""
import z3
from pyvc.contract import Canary
from pyvc.values import Obj
from pyvc.ops import to_z3

T = "whoosh.query.terms"
IntS = z3.IntSort()


def register(R, tier="quick"):
    def setup_for(cls):
        def setup(I):
            # strings are modelled by integer codes (only equality is used)
            o = Obj(I.repo.klass(T, cls), {"fieldname": z3.Int("q_field"), "text": z3.Int("q_text"), "boost": z3.Real("q_boost")})
            return {"self": o, "fieldname": z3.Int("fieldname"), "oldtext": z3.Int("oldtext"), "newtext": z3.Int("newtext")}
        return setup

    def post(I, env):
        r, s, s0 = env["result"], env["self"], I.old_env["self"]
        if not isinstance(r, Obj) or r is s:
            return z3.BoolVal(False)
        hit = z3.And(s0.fields["fieldname"] == env["fieldname"], s0.fields["text"] == env["oldtext"])
        return z3.And(to_z3(r.fields["fieldname"]) == s0.fields["fieldname"], to_z3(r.fields["boost"]) == s0.fields["boost"],
                      to_z3(r.fields["text"]) == z3.If(hit, env["newtext"], s0.fields["text"]),
                      # the original is untouched
                      to_z3(s.fields["fieldname"]) == s0.fields["fieldname"], to_z3(s.fields["text"]) == s0.fields["text"],
                      to_z3(s.fields["boost"]) == s0.fields["boost"])

    for cls in ("Term", "FuzzyTerm", "Variations"):
        R.contract(T + ":" + cls + ".replace", props=["C15"], setup=setup_for(cls), ensures=[post],
                   canaries=[Canary("any-field", "if q.fieldname == fieldname and q.text == oldtext:", "if q.text == oldtext:"),
                             Canary("in-place", "q = copy.copy(self)", "q = self")],
                   note="replace() on a %s: new object, text replaced iff field and text both match, original untouched" % cls)
