"""C02 / C03 — which TOC is the current one and which files a commit may delete (whoosh.index: TOC._latest_generation,
clean_files) over an ABSTRACT directory listing of any size.

File k of the listing is described by uninterpreted predicates: DOT(k) (name starts with "."), ISTOC(k) with generation
GEN(k) (what TOC._pattern matches and int() of its group), ISSEG(k) with segment name SEGNAME(k) (what
TOC._segment_pattern matches).  The regular expressions themselves are not interpreted (class A): the contracts say
what the code does with their verdicts - compare generations AS INTEGERS, keep the current generation's TOC, keep every
file of a live segment, skip dot files, delete nothing else.
"""
import z3
from pyvc.contract import Canary, LoopSpec
from pyvc.values import Abstract, Builtin, PyList, ClassRef, OutsideSubset
from pyvc.ops import to_z3

IX = "whoosh.index"
IntS, BoolS = z3.IntSort(), z3.BoolSort()
DOT = z3.Function("file_is_dotfile", IntS, BoolS)
ISTOC = z3.Function("file_is_toc", IntS, BoolS)
GEN = z3.Function("file_toc_generation", IntS, IntS)
ISSEG = z3.Function("file_is_segment_file", IntS, BoolS)
SEGNAME = z3.Function("file_segment_name", IntS, IntS)


class FileName(Abstract):
    pytype = "str"

    def __init__(self, idx):
        self.idx = to_z3(idx)

    def havoc(self, I):
        pass

    def m_startswith(self, I, prefix):
        if prefix != ".":
            raise OutsideSubset("startswith(%r) on an abstract file name" % (prefix,))
        return DOT(self.idx)


class Listing(Abstract):
    """the storage as an iterable of file names (symbolic number of files) with a ghost `deleted` predicate"""
    def __init__(self, I):
        self.n = z3.Int(I.fresh_name("nfiles"))
        I.assume(self.n >= 0)
        self.deleted = z3.K(IntS, z3.BoolVal(False))

    def havoc(self, I):
        self.deleted = z3.Array(I.fresh_name("deleted"), IntS, BoolS)

    def __deepcopy__(self, memo):
        c = Listing.__new__(Listing)
        c.n, c.deleted = self.n, self.deleted
        return c

    def a_n(self, I):
        return self.n

    def iter_protocol(self, I):
        return 0, self.n, 1, (lambda i: FileName(i))

    def m_delete_file(self, I, f):
        self.deleted = z3.Store(self.deleted, f.idx, z3.BoolVal(True))
        return None


class Pattern(Abstract):
    def __init__(self, kind):
        self.kind = kind

    def havoc(self, I):
        pass

    def m_match(self, I, f):
        return Match(self.kind, f.idx)


class Match(Abstract):
    def __init__(self, kind, idx):
        self.kind, self.idx = kind, idx

    def havoc(self, I):
        pass

    def is_none(self, I):
        return z3.Not(self.truth(I))

    def truth(self, I):
        return ISTOC(self.idx) if self.kind == "toc" else ISSEG(self.idx)

    def m_group(self, I, n):
        return GenStr(self.idx) if self.kind == "toc" else SEGNAME(self.idx)


class GenStr(Abstract):
    """the digits matched by the TOC pattern: a STRING; only int() gives the generation number"""
    pytype = "str"

    def __init__(self, idx):
        self.idx = idx

    def havoc(self, I):
        pass

    def builtin_int(self, I):
        return GEN(self.idx)


class TocClass(Abstract):
    """`cls` / `TOC` as seen by the verified functions: only the two pattern factories are used"""
    def havoc(self, I):
        pass

    def m__pattern(self, I, indexname):
        return Pattern("toc")

    def m__segment_pattern(self, I, indexname):
        return Pattern("seg")


class IndexSet(Abstract):
    """set() of file names, by listing index"""
    def __init__(self, I):
        self.mem = z3.K(IntS, z3.BoolVal(False))
        self.m = z3.Int(I.fresh_name("nset"))      # enumeration length (only used when the set is iterated)
        self.E = z3.Function(I.fresh_name("set_enum"), IntS, IntS)

    def havoc(self, I):
        self.mem = z3.Array(I.fresh_name("setmem"), IntS, BoolS)

    def __deepcopy__(self, memo):
        c = IndexSet.__new__(IndexSet)
        c.mem, c.m, c.E = self.mem, self.m, self.E
        return c

    def m_add(self, I, f):
        self.mem = z3.Store(self.mem, f.idx, z3.BoolVal(True))
        return None

    def has(self, k):
        return z3.Select(self.mem, k)

    def iter_protocol(self, I):
        # iteration order of a set is arbitrary: E enumerates exactly the members, once each
        j, k, j2 = z3.Int(I.fresh_name("j")), z3.Int(I.fresh_name("k")), z3.Int(I.fresh_name("j2"))
        I.assume(self.m >= 0)
        I.assume(z3.ForAll([j], z3.Implies(z3.And(0 <= j, j < self.m), self.has(self.E(j)))))
        I.assume(z3.ForAll([k], z3.Implies(self.has(k), z3.Exists([j], z3.And(0 <= j, j < self.m, self.E(j) == k)))))
        return 0, self.m, 1, (lambda i: FileName(self.E(i)))


class NameSet(Abstract):
    def __init__(self, items):
        self.items = [to_z3(x) for x in items]

    def havoc(self, I):
        pass

    def contains(self, I, x):
        x = to_z3(x)
        return z3.Or(*[x == y for y in self.items]) if self.items else z3.BoolVal(False)

    def truth(self, I):
        return len(self.items) > 0

    def length(self, I):
        return len(self.items)


class Seg(Abstract):
    def __init__(self, name):
        self.name = name

    def havoc(self, I):
        pass

    def m_segment_id(self, I):
        return self.name


def register(R, tier="quick"):
    # ------------------------------------------------------------------ TOC._latest_generation
    def lg_post(I, env):
        n = env["storage"].n
        r = to_z3(env["result"])
        k = z3.Int("gk")
        return z3.And(z3.ForAll([k], z3.Implies(z3.And(0 <= k, k < n, ISTOC(k)), GEN(k) <= r)),
                      z3.Or(r == -1, z3.Exists([k], z3.And(0 <= k, k < n, ISTOC(k), GEN(k) == r))), r >= -1)

    def lg_inv(I, env):
        i = env["_i"]
        r = to_z3(env["mx"])
        k = z3.Int("ik")
        return z3.And(i <= env["storage"].n, r >= -1,
                      z3.ForAll([k], z3.Implies(z3.And(0 <= k, k < i, ISTOC(k)), GEN(k) <= r)),
                      z3.Or(r == -1, z3.Exists([k], z3.And(0 <= k, k < i, ISTOC(k), GEN(k) == r))))

    def gens_nonneg(I, env):
        k = z3.Int("nk")
        return z3.ForAll([k], GEN(k) >= 0)

    R.contract(IX + ":TOC._latest_generation", props=["C02", "C03"],
               setup=lambda I: {"cls": TocClass(), "storage": Listing(I), "indexname": "MAIN"},
               requires=[gens_nonneg], ensures=[lg_post], returns="int",
               loops={0: LoopSpec(index="_i", inv=[lg_inv])},
               canaries=[Canary("first-match-wins", "mx = max(int(m.group(1)), mx)", "mx = int(m.group(1)) if mx < 0 else mx"),
                         Canary("non-toc-files-count", "if m:", "if True:")],
               assumptions=["TOC._pattern matches exactly the TOC files of the index and its group is the decimal generation "
                            "(class A: regular expression not interpreted); the digits are a STRING until int() is applied - "
                            "comparing them without int() leaves the verified subset and is reported"],
               note="the generation opened is the numerically largest one present, -1 when there is none")

    # the two pattern factories as call-site contracts (class A: the regular expressions are not interpreted)
    R.contract(IX + ":TOC._pattern", props=["C02", "C03"], verify=False, returns=lambda I, env: Pattern("toc"),
               note="assumed: matches exactly the TOC files of the index; group(1) is the decimal generation")
    R.contract(IX + ":TOC._segment_pattern", props=["C02", "C03"], verify=False, returns=lambda I, env: Pattern("seg"),
               note="assumed: matches the files of a segment; group(1) is the segment id")

    # ------------------------------------------------------------------ clean_files
    def cf_setup(I, nseg):
        segs = [Seg(z3.Int("live_segment_%d" % j)) for j in range(nseg)]
        return {"storage": Listing(I), "indexname": "MAIN", "gen": z3.Int("gen"), "segments": PyList(segs), "nseg": nseg}

    def live(env, name):
        ids = [s.name for s in env["segments"].items]
        return z3.Or(*[name == x for x in ids]) if ids else z3.BoolVal(False)

    def may_delete(env, k):
        """file k is one clean_files is allowed to delete: a TOC of another generation, or a file of a segment that is
        not live; never a dot file, never the current TOC, never a file of a live segment, never an unrelated file"""
        return z3.And(z3.Not(DOT(k)),
                      z3.Or(z3.And(ISTOC(k), GEN(k) != env["gen"]),
                            z3.And(z3.Not(ISTOC(k)), ISSEG(k), z3.Not(live(env, SEGNAME(k))))))

    def must_delete(env, k):
        """file k is garbage a commit has to remove: an OLDER TOC, or a file of a segment that is not live (what a crashed
        or superseded writer left behind)"""
        return z3.And(z3.Not(DOT(k)),
                      z3.Or(z3.And(ISTOC(k), GEN(k) < env["gen"]),
                            z3.And(z3.Not(ISTOC(k)), ISSEG(k), z3.Not(live(env, SEGNAME(k))))))

    def cf_post(I, env):
        st = env["storage"]
        k = z3.Int("ck")
        inr = z3.And(0 <= k, k < st.n)
        return z3.And(z3.ForAll([k], z3.Implies(z3.And(inr, z3.Select(st.deleted, k)), may_delete(env, k))),
                      z3.ForAll([k], z3.Implies(z3.And(inr, must_delete(env, k)), z3.Select(st.deleted, k))))

    def cf_inv1(I, env):
        st, td = env["storage"], env["todelete"]
        k = z3.Int("c1")
        return z3.And(env["_i"] <= st.n, st.deleted == z3.K(IntS, z3.BoolVal(False)),
                      z3.ForAll([k], z3.Implies(td.has(k), z3.And(0 <= k, k < env["_i"], may_delete(env, k)))),
                      z3.ForAll([k], z3.Implies(z3.And(0 <= k, k < env["_i"], must_delete(env, k)), td.has(k))))

    def cf_inv2(I, env):
        st, td = env["storage"], env["todelete"]
        k, j = z3.Int("c2"), z3.Int("cj")
        return z3.And(env["_j"] <= td.m,
                      z3.ForAll([k], z3.Implies(td.has(k), z3.And(0 <= k, k < st.n, may_delete(env, k)))),
                      z3.ForAll([k], z3.Implies(z3.And(0 <= k, k < st.n, must_delete(env, k)), td.has(k))),
                      z3.ForAll([k], z3.Select(st.deleted, k) == z3.Exists([j], z3.And(0 <= j, j < env["_j"], td.E(j) == k))))

    R.contract(IX + ":clean_files", props=["C02", "C03"], setup=cf_setup,
               variants=[dict(nseg=0), dict(nseg=1), dict(nseg=2)],
               ensures=[cf_post],
               loops={0: LoopSpec(index="_i", inv=[cf_inv1], modifies=["todelete"]),
                      1: LoopSpec(index="_j", inv=[cf_inv2], modifies=["storage"])},
               opts={"builtin_override": {"set": Builtin("set", lambda I, args, kw, node:
                                                           IndexSet(I) if not args else NameSet(I.iterate(args[0], node)))}},
               externals={},
               canaries=[Canary("deletes-current-toc", "if int(tocm.group(1)) != gen:", "if True:"),
                         Canary("deletes-live-segment-files", "if name not in current_segment_names:", "if True:"),
                         Canary("dotfiles-not-skipped", "if filename.startswith('.'):\n            continue", "pass")],
               assumptions=["segment lists of length 0, 1, 2 (membership test in a set of ids)",
                            "the two regular expressions are not interpreted (class A); delete_file succeeds or raises OSError "
                            "(a failed delete only leaves a file behind)"],
               note="safety: only TOC files of other generations and files of segments that are not in the new TOC are ever "
                    "deleted - the new TOC, every file of a live segment, dot files and unrelated files are never touched; "
                    "clean-up: every older TOC and every file of a dead segment is deleted")
