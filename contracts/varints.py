"""C20 — variable-length integer codec (whoosh.util.varints) against the byte-value function
val(b_0..b_n) = sum (b_k mod 128) * 128^k, carried by ghost byte sink/source objects."""
import z3
from pyvc.contract import Canary, LoopSpec
from pyvc.values import Abstract, SpecFn
from pyvc.ops import to_z3

V = "whoosh.util.varints"


class ByteSink(Abstract):
    """array('B') being appended to: ghost value acc = sum (b_k mod 128)*128^k, p = 128^n,
    prefix_ok = every byte but the last has the continuation bit, all bytes in 0..255."""

    def __init__(self, I):
        self.acc = z3.IntVal(0)
        self.p = z3.IntVal(1)
        self.prefix_ok = z3.BoolVal(True)
        self.last = z3.IntVal(128)          # "no byte yet" behaves like a continuation byte
        self.n = z3.IntVal(0)

    def havoc(self, I):
        self.acc = z3.Int(I.fresh_name("acc"))
        self.p = z3.Int(I.fresh_name("p"))
        self.prefix_ok = z3.Bool(I.fresh_name("prefix_ok"))
        self.last = z3.Int(I.fresh_name("last"))
        self.n = z3.Int(I.fresh_name("n"))

    def m_append(self, I, x):
        x = to_z3(x)
        I.oblige("no-raise", "byte-range", z3.And(x >= 0, x < 256), note="array('B').append needs 0 <= x < 256")
        self.prefix_ok = z3.And(self.prefix_ok, self.last >= 128)
        self.acc = self.acc + (x % 128) * self.p
        self.p = self.p * 128
        self.last = x
        self.n = self.n + 1
        return None

    def m_tobytes(self, I):
        return self

    def a_acc(self, I):
        return self.acc

    def a_p(self, I):
        return self.p

    def a_prefix_ok(self, I):
        return self.prefix_ok

    def a_last(self, I):
        return self.last

    def a_n(self, I):
        return self.n


class ByteSource(Abstract):
    """readfn: hands out arbitrary bytes one at a time and accumulates the same value function."""

    def __init__(self, I):
        self.acc = z3.IntVal(0)
        self.p = z3.IntVal(1)
        self.prefix_ok = z3.BoolVal(True)
        self.last = z3.IntVal(128)

    def havoc(self, I):
        self.acc = z3.Int(I.fresh_name("sacc"))
        self.p = z3.Int(I.fresh_name("sp"))
        self.prefix_ok = z3.Bool(I.fresh_name("sprefix_ok"))
        self.last = z3.Int(I.fresh_name("slast"))
        I.assume(self.p >= 1)

    def call(self, I, args, kwargs, node=None):
        b = z3.Int(I.fresh_name("byte"))
        I.assume(z3.And(b >= 0, b < 256))
        self.prefix_ok = z3.And(self.prefix_ok, self.last >= 128)
        self.acc = self.acc + (b % 128) * self.p
        self.p = self.p * 128
        self.last = b
        return OneByte(b)

    def a_acc(self, I):
        return self.acc

    def a_p(self, I):
        return self.p

    def a_prefix_ok(self, I):
        return self.prefix_ok

    def a_last(self, I):
        return self.last


class OneByte(Abstract):
    pytype = "bytes"

    def __init__(self, b):
        self.b = b

    def havoc(self, I):
        pass

    def ord(self, I):
        return self.b


class VarintBytes(Abstract):
    """result of varint(v) at call sites: carries the encoded value."""
    pytype = "bytes"

    def __init__(self, v):
        self.v = v

    def havoc(self, I):
        pass

    def a_value(self, I):
        return self.v


def register(R, tier="quick"):
    register_delta(R)
    R.contract(V + ":_varint", props=["C20"], setup=lambda I: {"i": z3.Int("i")},
               externals={"array.array": lambda I, args, kw, node: ByteSink(I)},
               requires=["i >= 0"],
               ensures=["result.acc == i", "result.prefix_ok", "0 <= result.last < 128", "result.n >= 1"],
               loops={0: LoopSpec(inv=["i >= 0", "old(i) == a.acc + i * a.p", "a.p >= 1", "a.prefix_ok", "a.last >= 128",
                                       "a.n >= 0"])},
               canaries=[Canary("shift-by-8", "i = i >> 7", "i = i >> 8"),
                         Canary("no-continuation-bit", "a.append(i & 127 | 128)", "a.append(i & 127)")],
               note="encoder: the bytes produced have value i under val(), every byte but the last carries the "
                    "continuation bit and the last does not (so a decoder stops exactly there)")
    R.contract(V + ":read_varint", props=["C20"], setup=lambda I: {"readfn": ByteSource(I)},
               ensures=["result == readfn.acc", "readfn.prefix_ok", "0 <= readfn.last < 128"],
               returns="int",
               loops={0: LoopSpec(inv=["i == readfn.acc", "readfn.p == pow2(shift)", "shift >= 7", "0 <= i < pow2(shift)",
                                       "b == readfn.last", "0 <= b < 256", "readfn.prefix_ok"], modifies=["readfn"])},
               canaries=[Canary("mask-7f-dropped", "i |= (b & 127) << shift", "i |= b << shift"),
                         Canary("shift-step", "shift += 7", "shift += 8")],
               assumptions=["pow2 axioms for the symbolic shift; x | (c << s) as x + c*2^s under the proved side "
                            "condition 0 <= x < 2^s"],
               note="decoder: consumes bytes up to and including the first one without continuation bit and returns "
                    "their value under the same val(); with _varint: read_varint(varint(i)) == i for every i >= 0")
    # zig-zag
    R.contract(V + ":varint", label="varints/varint@callsite", props=["C20"], verify=False,
               requires=["i >= 0"], returns=lambda I, env: VarintBytes(env["i"]), ensures=[])
    R.contract(V + ":signed_varint", props=["C20"], setup=lambda I: {"i": z3.Int("i")},
               ensures=["result.value == (2 * i if i >= 0 else -2 * i - 1)", "result.value >= 0"],
               canaries=[Canary("no-negation", "return varint(i << 1 ^ ~0)", "return varint(i << 1)")],
               note="zig-zag: non-negative code, even for i >= 0, odd for i < 0")
    R.contract(V + ":decode_signed_varint", props=["C20"], setup=lambda I: {"i": z3.Int("i")},
               requires=["i >= 0"],
               ensures=["implies(i % 2 == 0, 2 * result == i and result >= 0)",
                        "implies(i % 2 == 1, -2 * result - 1 == i and result < 0)"],
               returns="int",
               canaries=[Canary("odd-not-negated", "return i >> 1 ^ ~0", "return i >> 1")],
               note="inverse of the zig-zag map on its image (lemma varints/zigzag-inverse closes the round trip)")

    def zz_lemma():
        i = z3.Int("i")
        enc = z3.If(i >= 0, 2 * i, -2 * i - 1)
        dec = z3.If(enc % 2 == 0, enc / 2, -(enc + 1) / 2)
        return [("decode(encode(i)) == i", dec == i), ("encode(i) >= 0", enc >= 0)]
    R.lemma("varints/zigzag-inverse", ["C20"], zz_lemma,
            note="from the ensures of signed_varint and decode_signed_varint: decode_signed(zigzag(i)) == i for all ints")


def register_delta(R):
    """C10 / C20 — delta coding of ascending document numbers inside a posting block (whoosh.util.numlists, used by
    W3PostingsWriter / W3LeafMatcher): encode yields x[k] - x[k-1] (x[-1] = 0), one number per input; decode, given the
    encoding of ANY list X, yields X back - the round trip is the loop invariant `base == X[k-1]` of the decoder itself."""
    from pyvc.values import SymList, SpecFn
    NL = "whoosh.util.numlists"
    IntS = z3.IntSort()

    def mk(I):
        n = z3.Int(I.fresh_name("nnums"))
        I.assume(n >= 0)
        return {"nums": SymList(z3.Array(I.fresh_name("nums"), IntS, IntS), n, "list")}

    def prev(arr, k):
        return z3.If(k > 0, z3.Select(arr, k - 1), 0)

    def enc_good(I, y, k):
        a = I.root_frame.env["nums"].arr
        k = to_z3(k)
        return to_z3(y) == z3.Select(a, k) - prev(a, k)

    R.contract(NL + ":delta_encode", props=["C10", "C20"], setup=mk,
               spec_funcs={"good_yield": SpecFn("good_yield", enc_good)},
               ghost="ok = True\nny = 0\n", on_yield="ok = ok and good_yield(_y, _k)\nny = ny + 1\n",
               ensures=["ok", "ny == len(nums)"],
               loops={0: LoopSpec(index="_k", inv=["ok", "ny == _k", "_k <= len(nums)",
                                                   lambda I, env: to_z3(env["base"]) == prev(env["nums"].arr, to_z3(env["_k"]))],
                                  havoc=["ok", "ny"])},
               canaries=[Canary("base-not-updated", "base = n", "pass"),
                         Canary("absolute-values", "n - base", "n")],
               note="the k-th number yielded is x[k] - x[k-1] (x[-1] = 0), one per input")

    X = z3.Array("delta_X", IntS, IntS)

    def is_encoding(I, env):
        k = z3.Int("dk")
        a = env["nums"].arr
        return z3.ForAll([k], z3.Implies(z3.And(0 <= k, k < env["nums"].n), z3.Select(a, k) == z3.Select(X, k) - prev(X, k)))

    def dec_good(I, y, k):
        return to_z3(y) == z3.Select(X, to_z3(k))

    R.contract(NL + ":delta_decode", props=["C10", "C20"], setup=mk,
               requires=[is_encoding],
               spec_funcs={"good_yield": SpecFn("good_yield", dec_good)},
               ghost="ok = True\nny = 0\n", on_yield="ok = ok and good_yield(_y, _k)\nny = ny + 1\n",
               ensures=["ok", "ny == len(nums)"],
               loops={0: LoopSpec(index="_k", inv=["ok", "ny == _k", "_k <= len(nums)",
                                                   lambda I, env: to_z3(env["base"]) == prev(X, to_z3(env["_k"]))],
                                  havoc=["ok", "ny"])},
               canaries=[Canary("no-accumulation", "base += n", "base = n")],
               note="decoding the delta encoding of any list X yields X (round trip, for lists of any length)")
