"""C11/C01/C09/C12/C05 — whoosh.matching.wrappers against the cursor theory."""
import z3
from pyvc.contract import Canary, LoopSpec
from pyvc.values import Obj, Opt, SpecFn, PyList
from pyvc.theories.cursor import Cursor, VIEWS, INF, mem, score_at, pos, minv, IdSet, Pred, _real
from contracts.matchers import NEXT_POST, SKIP_POST, ACTIVE, PROPS_CUR, PROPS_SC, PROPS_Q

W = "whoosh.matching.wrappers"


def _boost(o):
    return _real(o.fields.get("boost", 1.0))


def v_wrap():
    return dict(mem=lambda I, o, s: mem(I, o.fields["child"], s),
                sc=lambda I, o, s: score_at(I, o.fields["child"], s) * _boost(o),
                pos=lambda I, o: pos(I, o.fields["child"]),
                inv=lambda I, o: z3.And(minv(I, o.fields["child"]), _boost(o) > 0),
                sbq=lambda I, o: o.fields["child"].sbq)


def passes(I, o, s):
    f = o.fields["_ids"].F(s)
    return z3.Not(f) if o.fields["_exclude"] else f


def v_filter():
    def inv(I, o):
        c = o.fields["child"]
        return z3.And(minv(I, c), _boost(o) > 0, z3.Or(pos(I, c) == INF, passes(I, o, pos(I, c))))
    return dict(mem=lambda I, o, s: z3.And(mem(I, o.fields["child"], s), passes(I, o, s)),
                sc=lambda I, o, s: score_at(I, o.fields["child"], s) * _boost(o),
                pos=lambda I, o: pos(I, o.fields["child"]), inv=inv,
                sbq=lambda I, o: o.fields["child"].sbq)


def v_const():
    return dict(mem=lambda I, o, s: mem(I, o.fields["child"], s),
                sc=lambda I, o, s: _real(o.fields["_score"]),
                pos=lambda I, o: pos(I, o.fields["child"]),
                inv=lambda I, o: minv(I, o.fields["child"]),
                sbq=lambda I, o: o.fields["child"].sbq)


def v_inverse():
    def m(I, o, s):
        return z3.And(s >= 0, s < o.fields["limit"], z3.Not(o.fields["missing"].F(s)), z3.Not(mem(I, o.fields["child"], s)))

    def p(I, o):
        return z3.If(o.fields["_id"] < o.fields["limit"], o.fields["_id"], INF)

    def inv(I, o):
        c = o.fields["child"]
        i = o.fields["_id"]
        s = z3.Int(I.fresh_name("s"))
        return z3.And(minv(I, c), i >= 0, o.fields["limit"] >= 0, o.fields["limit"] <= INF,
                      z3.Or(i >= o.fields["limit"], m(I, o, i)),
                      z3.ForAll([s], z3.Implies(mem(I, c, s), z3.Not(o.fields["missing"].F(s)))),
                      # the child never jumped over the current id
                      z3.ForAll([s], z3.Implies(z3.And(mem(I, c, s), s >= i), s >= pos(I, c))))
    return dict(mem=m, sc=lambda I, o, s: _real(o.fields["_weight"]), pos=p, inv=inv)


VIEWS[W + ":WrappingMatcher"] = v_wrap()
VIEWS[W + ":FilterMatcher"] = v_filter()
VIEWS[W + ":ConstantScoreWrapperMatcher"] = v_const()
VIEWS[W + ":InverseMatcher"] = v_inverse()


def v_require():
    from pyvc.theories.cursor import view_of
    def inv(I, o):
        ch = o.fields["child"]
        same = ch.fields.get("a") is o.fields["a"] and ch.fields.get("b") is o.fields["b"]
        return z3.And(z3.BoolVal(bool(same)), minv(I, ch))
    return dict(mem=lambda I, o, s: mem(I, o.fields["child"], s),
                sc=lambda I, o, s: score_at(I, o.fields["a"], s),
                pos=lambda I, o: pos(I, o.fields["child"]), inv=inv)


VIEWS[W + ":RequireMatcher"] = v_require()


def register(R, tier="quick"):
    SF = {"passes": SpecFn("passes", passes)}

    def C(key, **kw):
        kw.setdefault("spec_funcs", SF)
        return R.contract(key, **kw)

    def mkw(cls, args=None, **extra):
        def setup(I, **kw):
            f = {"child": Cursor(I, "c"), "boost": z3.Real("boost")}
            for k, v in extra.items():
                f[k] = v(I) if callable(v) else v
            env = {"self": Obj(I.repo.klass(W, cls), f)}
            for n, kind in (args or {}).items():
                env[n] = z3.Int(n) if kind == "int" else z3.Real(n)
            return env
        return setup

    REMAIN_BOUND = "forall(lambda s: implies(mem(self, s) and s >= pos(self), score_at(self, s) <= result))"
    REPL_POST = ["minv(result)", "wfpos(result)", "replaces(result, old(self), minquality)"]
    SKQ_POST = ["minv(self)", "wfpos(self)", "pos(self) >= old(pos(self))",
                "forall(lambda s: implies(mem(self, s) and s >= old(pos(self)) and s < pos(self), "
                "score_at(self, s) <= minquality))"]
    K = W + ":WrappingMatcher."
    variants = [("WrappingMatcher", {}),
                ("FilterMatcher", {"_ids": lambda I: IdSet(I), "_exclude": True}),
                ("FilterMatcher", {"_ids": lambda I: IdSet(I), "_exclude": False})]
    for cls, extra in variants:
        at = "@" + cls + ("" if "_exclude" not in extra else ("-exclude" if extra["_exclude"] else "-include"))
        C(K + "is_active", label=K + "is_active" + at, props=PROPS_CUR, setup=mkw(cls, **extra), requires=["minv(self)"],
          ensures=["result == (pos(self) < INF)"], returns="bool", inline=True)
        C(K + "id", label=K + "id" + at, props=PROPS_CUR, setup=mkw(cls, **extra), requires=["minv(self)", ACTIVE],
          ensures=["result == pos(self)"], returns="int", inline=True)
        C(K + "score", label=K + "score" + at, props=PROPS_SC, setup=mkw(cls, **extra), requires=["minv(self)", ACTIVE],
          ensures=["result == score_at(self, pos(self))"], returns="real",
          canaries=[Canary("boost-ignored", "return self.child.score() * self.boost", "return self.child.score()")])
        C(K + "max_quality", label=K + "max_quality" + at, props=PROPS_Q, setup=mkw(cls, **extra),
          requires=["minv(self)", "supports_quality(self.child)"], ensures=[REMAIN_BOUND], returns="real",
          canaries=[Canary("boost-ignored", "return self.child.max_quality() * self.boost", "return self.child.max_quality()")])
        C(K + "block_quality", label=K + "block_quality" + at, props=PROPS_Q, setup=mkw(cls, **extra),
          requires=["minv(self)", "supports_quality(self.child)", ACTIVE],
          ensures=["score_at(self, pos(self)) <= result"], returns="real")
        if cls == "FilterMatcher":
            C(W + ":FilterMatcher.skip_to_quality", label=W + ":FilterMatcher.skip_to_quality" + at, props=PROPS_Q + ["C07", "C01"],
              setup=mkw(cls, {"minquality": "real"}, **extra),
              requires=["minv(self)", "supports_quality(self.child)", ACTIVE, "minquality >= 0"], ensures=SKQ_POST,
              modifies=["self.child"], returns="int", inline_callees=[K + "skip_to_quality"],
              canaries=[Canary("no-refilter", "self._find_next()", "pass")],
              note="after skipping blocks the filter is re-applied: never rests on a filtered (e.g. deleted) id")
        else:
          C(K + "skip_to_quality", label=K + "skip_to_quality" + at, props=PROPS_Q,
          setup=mkw(cls, {"minquality": "real"}, **extra),
          requires=["minv(self)", "supports_quality(self.child)", ACTIVE, "minquality >= 0"], ensures=SKQ_POST,
          modifies=["self.child"], returns="int",
          canaries=[Canary("threshold-unscaled", "self.child.skip_to_quality(minquality / self.boost)",
                           "self.child.skip_to_quality(minquality)")])
        C(K + "replace", label=K + "replace" + at, props=PROPS_Q + ["C11"], setup=mkw(cls, {"minquality": "real"}, **extra),
          requires=["minv(self)", "minquality >= 0", "minquality == 0 or supports_quality(self.child)"],
          ensures=REPL_POST, returns=lambda I, env: Cursor(I, "repl"))
    # plain wrapper: next / skip_to are delegations
    C(K + "next", props=PROPS_CUR, setup=mkw("WrappingMatcher"), requires=["minv(self)", ACTIVE], modifies=["self.child"],
      ensures=NEXT_POST, returns="opaque")
    C(K + "skip_to", props=PROPS_CUR, setup=mkw("WrappingMatcher", {"id": "int"}), requires=["minv(self)", ACTIVE],
      modifies=["self.child"], ensures=SKIP_POST, returns="opaque")
    C(K + "copy", props=["C11"], setup=mkw("WrappingMatcher"), requires=["minv(self)"],
      ensures=["result is not self", "result.child is not self.child", "pos(result) == pos(self)",
               "forall(lambda s: mem(result, s) == mem(self, s))",
               "forall(lambda s: score_at(result, s) == score_at(self, s))"])

    # ------------------------------------------------------------ FilterMatcher
    F = W + ":FilterMatcher."
    for excl in (True, False):
        at = "@exclude" if excl else "@include"
        ex = {"_ids": lambda I: IdSet(I), "_exclude": excl}
        C(F + "_find_next", label=F + "_find_next" + at, props=PROPS_CUR + ["C07"], setup=mkw("FilterMatcher", **ex),
          requires=["minv(self.child)", "self.boost > 0"], modifies=["self.child"],
          ensures=["minv(self)", "wfpos(self)", "pos(self.child) >= old(pos(self.child))",
                   "forall(lambda s: implies(mem(self, s) and s >= old(pos(self.child)), s >= pos(self)))"],
          returns="opaque",
          loops={(0 if excl else 1): LoopSpec(inv=["minv(self.child)", "pos(child) >= old(pos(self.child))",
                                                   "forall(lambda s: implies(mem(self, s) and s >= old(pos(self.child)), "
                                                   "s >= pos(child)))"])},
          canaries=[Canary("filter-inverted", "child.id() in ids" if excl else "child.id() not in ids",
                           "child.id() not in ids" if excl else "child.id() in ids")],
          note="moves the child to its first id at or after its position that passes the filter")
        C(F + "next", label=F + "next" + at, props=PROPS_CUR + ["C07"], setup=mkw("FilterMatcher", **ex),
          requires=["minv(self)", ACTIVE], modifies=["self.child"], ensures=NEXT_POST, returns="opaque",
          canaries=[Canary("no-refilter", "self.child.next()\n    self._find_next()", "self.child.next()")])
        C(F + "skip_to", label=F + "skip_to" + at, props=PROPS_CUR + ["C07"], setup=mkw("FilterMatcher", {"id": "int"}, **ex),
          requires=["minv(self)", ACTIVE], modifies=["self.child"], ensures=SKIP_POST, returns="opaque",
          canaries=[Canary("no-refilter", "self.child.skip_to(id)\n    self._find_next()", "self.child.skip_to(id)")])
    C(F + "__init__", props=PROPS_CUR + ["C07"], inline=True,
      setup=lambda I: {"self": Obj(I.repo.klass(W, "FilterMatcher")), "child": Cursor(I, "c"), "ids": IdSet(I),
                       "exclude": True, "boost": z3.Real("boost")},
      requires=["minv(child)", "boost > 0"],
      ensures=["self.child is child", "minv(self)",
               "forall(lambda s: implies(mem(self, s) and s >= old(pos(child)), s >= pos(self)))"])

    # ------------------------------------------------------------ ConstantScoreWrapperMatcher
    CS = W + ":ConstantScoreWrapperMatcher."
    mkc = lambda args=None: mkw("ConstantScoreWrapperMatcher", args, _score=lambda I: z3.Real("cscore"), boost=1.0)
    C(CS + "score", props=PROPS_SC, setup=mkc(), requires=["minv(self)", ACTIVE],
      ensures=["result == score_at(self, pos(self))"], returns="real")
    C(CS + "max_quality", props=PROPS_Q, setup=mkc(), requires=["minv(self)"], ensures=[REMAIN_BOUND], returns="real")
    C(CS + "block_quality", props=PROPS_Q, setup=mkc(), requires=["minv(self)", ACTIVE],
      ensures=["score_at(self, pos(self)) <= result"], returns="real")
    # ConstantScoreWrapperMatcher is not instantiated anywhere in whoosh (grep): its inherited replace /
    # skip_to_quality (which would prune by the child's scores, not the constant) are not put under contract.

    # restricted twins of the known finding (unscaled threshold): with boost == 1 replace() must be exact
    for cls, extra in variants:
        at = "@" + cls + ("" if "_exclude" not in extra else ("-exclude" if extra["_exclude"] else "-include"))
        C(K + "replace", label=K + "replace#boost1" + at, props=PROPS_Q + ["C11"],
          setup=mkw(cls, {"minquality": "real"}, **extra),
          requires=["minv(self)", "minquality >= 0", "minquality == 0 or supports_quality(self.child)", "self.boost == 1"],
          ensures=REPL_POST, returns=lambda I, env: Cursor(I, "repl"),
          note="restriction of the known finding WrappingMatcher.replace (threshold not divided by boost) to boost == 1")

    # ------------------------------------------------------------ RequireMatcher
    from contracts.matchers import BIN
    RQ = W + ":RequireMatcher."

    def mkr(args=None):
        def setup(I, **kw):
            a, b = Cursor(I, "a"), Cursor(I, "b")
            child = Obj(I.repo.klass(BIN, "IntersectionMatcher"), {"a": a, "b": b})
            env = {"self": Obj(I.repo.klass(W, "RequireMatcher"), {"a": a, "b": b, "child": child, "boost": 1.0})}
            for n, kind in (args or {}).items():
                env[n] = z3.Int(n) if kind == "int" else z3.Real(n)
            return env
        return setup
    C(RQ + "score", props=PROPS_SC, setup=mkr(), requires=["minv(self)", ACTIVE],
      ensures=["result == score_at(self, pos(self))"], returns="real",
      canaries=[Canary("adds-b", "return self.a.score()", "return self.a.score() + self.b.score()")])
    C(RQ + "max_quality", props=PROPS_Q, setup=mkr(), requires=["minv(self)", "supports_quality(self.a)"],
      ensures=[REMAIN_BOUND], returns="real")
    C(RQ + "block_quality", props=PROPS_Q, setup=mkr(), requires=["minv(self)", "supports_quality(self.a)", ACTIVE],
      ensures=["score_at(self, pos(self)) <= result"], returns="real")
    C(RQ + "skip_to_quality", props=PROPS_Q, setup=mkr({"minquality": "real"}),
      requires=["minv(self)", "supports_quality(self.a)", ACTIVE, "minquality >= 0"], ensures=SKQ_POST,
      modifies=["self.a", "self.b"], returns="int",
      canaries=[Canary("no-resync", "self.child._find_first()", "pass")])
    C(RQ + "replace", props=PROPS_Q + ["C11"], setup=mkr({"minquality": "real"}),
      requires=["minv(self)", "minquality >= 0", "minquality == 0 or supports_quality(self.a)"],
      ensures=REPL_POST, returns=lambda I, env: Cursor(I, "repl"))
    C(RQ + "__init__", props=PROPS_CUR, inline=True,
      setup=lambda I: {"self": Obj(I.repo.klass(W, "RequireMatcher")), "a": Cursor(I, "a"), "b": Cursor(I, "b")},
      requires=["minv(a)", "minv(b)"],
      ensures=["self.a is a", "self.b is b", "minv(self)",
               "forall(lambda s: implies(mem(self, s) and s >= old(pos(a)) and s >= old(pos(b)), s >= pos(self)))"])
    for meth, post, args in (("next", NEXT_POST, None), ("skip_to", SKIP_POST, {"id": "int"})):
        C(K + meth, label=K + meth + "@RequireMatcher", props=PROPS_CUR, setup=mkr(args), requires=["minv(self)", ACTIVE],
          modifies=["self.a", "self.b"], ensures=post, returns="opaque")

    # ------------------------------------------------------------ InverseMatcher
    IV = W + ":InverseMatcher."

    def mki(args=None):
        def setup(I, **kw):
            env = {"self": Obj(I.repo.klass(W, "InverseMatcher"),
                               {"child": Cursor(I, "c"), "limit": z3.Int("limit"), "_weight": z3.Real("w"),
                                "missing": Pred(I, "missing"), "_id": z3.Int("cur_id"), "boost": 1.0})}
            for n, kind in (args or {}).items():
                env[n] = z3.Int(n) if kind == "int" else z3.Real(n)
            return env
        return setup
    INVREQ = ["minv(self.child)", "self._id >= 0", "0 <= self.limit <= INF",
              "forall(lambda s: implies(mem(self.child, s), not self.missing.holds(s)))",
              "forall(lambda s: implies(mem(self.child, s) and s >= self._id, s >= pos(self.child)))"]
    C(IV + "_find_next", props=PROPS_CUR + ["C07"], setup=mki(), requires=INVREQ, modifies=["self.child", "self._id"],
      ensures=["minv(self)", "wfpos(self)", "self._id >= old(self._id)",
               "forall(lambda s: implies(mem(self, s) and s >= old(self._id), s >= pos(self)))"],
      loops={0: LoopSpec(inv=["self._id >= old(self._id)", "minv(child)", "pos(child) == old(pos(self.child))",
                              "forall(lambda s: implies(s >= old(self._id) and s < self._id, missing.holds(s)))"]),
             1: LoopSpec(inv=["self._id >= old(self._id)", "minv(child)",
                              "pos(child) >= self._id or pos(child) == INF",
                              "forall(lambda s: implies(mem(child, s) and s >= self._id, s >= pos(child)))",
                              "forall(lambda s: implies(s >= old(self._id) and s < self._id, "
                              "missing.holds(s) or mem(child, s)))"]),
             2: LoopSpec(inv=["self._id >= old(self._id)", "minv(child)",
                              "forall(lambda s: implies(mem(child, s) and s >= self._id, s >= pos(child)))",
                              "pos(child) >= self._id or pos(child) == INF",
                              "pos(child) == INF or self._id >= self.limit or "
                              "(not missing.holds(self._id) and not mem(child, self._id))",
                              "forall(lambda s: implies(s >= old(self._id) and s < self._id, "
                              "missing.holds(s) or mem(child, s)))"])},
      canaries=[Canary("child-not-advanced", "self._id += 1\n            child.next()", "self._id += 1")],
      note="Not/Every complement: first id >= _id below limit that is neither missing (deleted) nor in the child")
    C(IV + "next", props=PROPS_CUR + ["C07"], setup=mki(), requires=["minv(self)", ACTIVE],
      modifies=["self.child", "self._id"], ensures=NEXT_POST, returns="opaque")
    C(IV + "skip_to", props=PROPS_CUR + ["C07"], setup=mki({"id": "int"}), requires=["minv(self)", ACTIVE],
      modifies=["self.child", "self._id"], ensures=SKIP_POST, returns="opaque",
      canaries=[Canary("backwards-skip-allowed", "if id < self._id:\n        return", "if False:\n        return")])
    C(IV + "is_active", props=PROPS_CUR, setup=mki(), requires=["minv(self)"], ensures=["result == (pos(self) < INF)"],
      returns="bool", inline=True)
    C(IV + "id", props=PROPS_CUR, setup=mki(), requires=["minv(self)", ACTIVE], ensures=["result == pos(self)"],
      returns="int", inline=True)
    C(IV + "score", props=PROPS_SC, setup=mki(), requires=["minv(self)", ACTIVE],
      ensures=["result == score_at(self, pos(self))"], returns="real")
