import warnings; warnings.simplefilter("ignore")
from whoosh import fields, query, scoring
from whoosh.filedb.filestore import RamStorage
from whoosh.codec.whoosh3 import W3Codec
import random
def top_vs_full(s, q, k=3):
    full = [(h.docnum, round(h.score, 9)) for h in s.search(q, limit=None)][:k]
    top = [(h.docnum, round(h.score, 9)) for h in s.search(q, limit=k)]
    return full == top, full, top
# 1. Intersection block-range: a: one block of 6 docs low quality; b: block1 docs0-3 low, block2 docs 4-5 huge
schema = fields.Schema(a=fields.KEYWORD(scorable=True), b=fields.KEYWORD(scorable=True), c=fields.KEYWORD(scorable=True))
ix = RamStorage().create_index(schema)
w = ix.writer(codec=W3Codec(blocklimit=4))
random.seed(3)
N = 400
for i in range(N):
    a = u"aa" if i % 2 == 0 else u"zz"
    # b weight: big in some docs only
    b = u" ".join([u"bb"] * (20 if i % 37 == 36 else 1))
    c = u" ".join([u"cc"] * random.randint(1, 3)) if i % 3 == 0 else u"yy"
    w.add_document(a=a + u" pad" * (i % 5), b=b + u" pad" * 3, c=c)
w.commit()
with ix.searcher(weighting=scoring.Frequency()) as s:
    for q in [query.And([query.Term("a", u"aa"), query.Term("b", u"bb")]),
              query.Or([query.Term("a", u"aa"), query.Term("b", u"bb"), query.Term("c", u"cc")]),
              query.AndMaybe(query.Term("a", u"aa"), query.Term("b", u"bb")),
              query.DisjunctionMax([query.Term("a", u"aa"), query.Term("b", u"bb")])]:
        print("Frequency", q, top_vs_full(s, q))
with ix.searcher() as s:
    for q in [query.And([query.Term("a", u"aa"), query.Term("b", u"bb")]),
              query.Or([query.Term("a", u"aa"), query.Term("b", u"bb"), query.Term("c", u"cc")])]:
        print("BM25F", q, top_vs_full(s, q))
with ix.searcher(weighting=scoring.ReverseWeighting(scoring.Frequency())) as s:
    q = query.Or([query.Term("a", u"aa"), query.Term("b", u"bb"), query.Term("c", u"cc")])
    print("Reverse Or3 full count:", len(s.search(q, limit=None)), "docs_for_query:", len(list(s.docs_for_query(q))))
