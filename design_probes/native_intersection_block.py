import warnings; warnings.simplefilter("ignore")
from whoosh import fields, query, scoring
from whoosh.filedb.filestore import RamStorage
from whoosh.codec.whoosh3 import W3Codec
schema = fields.Schema(a=fields.KEYWORD(scorable=True), b=fields.KEYWORD(scorable=True))
A = {0:2,1:3,2:3,3:3, 10:1,20:1,30:1,40:1}
B = {0:2,1:3,2:3,3:3, 10:2,11:2,12:2,13:2, 20:50,30:50,41:50,42:50}
ix = RamStorage().create_index(schema)
w = ix.writer(codec=W3Codec(blocklimit=4))
for i in range(60):
    d = {}
    d["a"] = u" ".join([u"aa"] * A[i]) if i in A else u"zz"
    d["b"] = u" ".join([u"bb"] * B[i]) if i in B else u"zz"
    w.add_document(**d)
w.commit()
with ix.searcher(weighting=scoring.Frequency()) as s:
    q = query.And([query.Term("a", u"aa"), query.Term("b", u"bb")])
    full = [(h.docnum, h.score) for h in s.search(q, limit=None)]
    top = [(h.docnum, h.score) for h in s.search(q, limit=1)]
    print("full:", full[:3]); print("top1:", top)
