import warnings; warnings.simplefilter("ignore")
from whoosh import fields, query, index
from whoosh.filedb.filestore import RamStorage
from whoosh.query import *
print("And(Every,Term).normalize():", And([Every(), Term("a", u"xx")]).normalize())
print("And(Every(a),Term(a)).normalize():", And([Every("a"), Term("a", u"xx")]).normalize())
print("And ranges:", And([TermRange("a", u"b", u"c"), TermRange("a", u"a", u"d")]).normalize())
print("Or ranges:", Or([TermRange("a", u"b", u"c"), TermRange("a", u"a", u"d")]).normalize())
schema = fields.Schema(id=fields.ID(stored=True), a=fields.KEYWORD, f=fields.NUMERIC(float, stored=True))
ix = RamStorage().create_index(schema)
w = ix.writer()
w.add_document(id=u"1", a=u"ab", f=-0.0); w.add_document(id=u"2", a=u"ba", f=0.0); w.add_document(id=u"3", a=u"abc", f=1.5)
w.commit()
with ix.searcher() as s:
    print("range [0.0,1.0] on floats:", [h["f"] for h in s.search(NumericRange("f", 0.0, 1.0), limit=None)])
    print("range [-0.0,1.0]:", [h["f"] for h in s.search(NumericRange("f", -0.0, 1.0), limit=None)])
    r = s.reader()
    print("single-seg terms_within('ab',1):", sorted(r.terms_within("a", u"ab", 1)))
    from whoosh.reading import IndexReader
    print("brute terms_within('ab',1):", sorted(IndexReader.terms_within(r, "a", u"ab", 1)))
    try:
        print("prefix>len:", sorted(r.terms_within("a", u"ab", 1, prefix=3)))
    except Exception as e: print("prefix>len raises", type(e).__name__, e)
    print("brute prefix>len:", sorted(IndexReader.terms_within(r, "a", u"ab", 1, prefix=3)))
    from whoosh.searching import ResultsPage
    res = s.search(Term("a", u"zzz"))
    p = ResultsPage(res, 1, 10); print("empty page:", p.offset, p.pagelen, p.pagecount, p.pagenum, p.total)
from whoosh.codec.whoosh3 import W3Codec
try:
    ix2 = RamStorage().create_index(fields.Schema(a=fields.KEYWORD))
    w = ix2.writer(codec=W3Codec(inlinelimit=3)); w.add_document(a=u"ab cd"); w.commit()
    print("inlinelimit ok")
except Exception as e: print("inlinelimit raises", type(e).__name__, e)
from whoosh.idsets import BitSet, SortedIntSet
print("BitSet([1]).invert(20):", list(BitSet([1]).invert(20)))
try: b = BitSet([1]); b.discard(100); print("discard ok")
except Exception as e: print("BitSet.discard(absent big) raises", type(e).__name__)
try: b = SortedIntSet([1,2]); b.discard(5); print("discard ok")
except Exception as e: print("SortedIntSet.discard(absent big) raises", type(e).__name__)
print("BitSet eq prefix:", BitSet([1,2]) == BitSet([1,2,3]))
