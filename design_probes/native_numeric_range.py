import warnings; warnings.simplefilter("ignore")
from whoosh import fields, query
from whoosh.filedb.filestore import RamStorage
for bits, signed, step in [(8, False, 1), (32, False, 4), (32, True, 4), (64, False, 8)]:
    schema = fields.Schema(n=fields.NUMERIC(int, bits, signed=signed, shift_step=step, stored=True))
    ix = RamStorage().create_index(schema)
    w = ix.writer()
    vals = [0, 1, 5, 10, 11, 50, 100, 200, 255]
    for v in vals: w.add_document(n=v)
    w.commit()
    with ix.searcher() as s:
        for lo, hi in [(0, 0), (0, 10), (1, 10), (5, 5)]:
            r = sorted(h["n"] for h in s.search(query.NumericRange("n", lo, hi), limit=None))
            print(bits, signed, step, (lo, hi), r, "OK" if r == [v for v in vals if lo <= v <= hi] else "WRONG")
