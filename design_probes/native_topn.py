from whoosh import fields, query, scoring
from whoosh.filedb.filestore import RamStorage
import random
random.seed(1)
schema = fields.Schema(id=fields.STORED, a=fields.TEXT, b=fields.TEXT)
ix = RamStorage().create_index(schema)
w = ix.writer()
for i in range(1000):
    w.add_document(id=i, a=u" ".join(random.choice([u"xx", u"yy", u"zz", u"ww"]) for _ in range(random.randint(1,30))), b=u" ".join(random.choice([u"pp", u"qq"]) for _ in range(random.randint(1,5))))
w.commit()
with ix.searcher() as s:
    for q in [query.Require(query.Term("a", u"xx"), query.Term("b", u"pp")),
              query.And([query.Or([query.Term("a", u"xx"), query.Term("a", u"yy")]), query.Term("b", u"pp")]),
              query.And([query.Term("a", u"xx"), query.Term("b", u"pp")], boost=3.0),
              query.Or([query.And([query.Term("a", u"xx"), query.Term("b", u"pp")], boost=3.0), query.Term("a", u"zz")]),
              ]:
        try:
            full = s.search(q, limit=None)
            top = s.search(q, limit=5)
            f = [(h.docnum, h.score) for h in full][:5]
            t = [(h.docnum, h.score) for h in top]
            print(q, f == t)
            if f != t: print(f, t)
        except Exception as e:
            import traceback; traceback.print_exc()
    for wm in [scoring.ReverseWeighting(scoring.BM25F()), scoring.PL2(), scoring.DFree(), scoring.TF_IDF()]:
        with ix.searcher(weighting=wm) as s2:
            q = query.Or([query.Term("a", u"xx"), query.Term("b", u"pp")])
            full = s2.search(q, limit=None)
            top = s2.search(q, limit=5)
            f = [(h.docnum, h.score) for h in full][:5]
            t = [(h.docnum, h.score) for h in top]
            print(wm.__class__.__name__, f == t)
            if f != t: print(f, t)
