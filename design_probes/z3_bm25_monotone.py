import z3, time
R = z3.Real
idf, tf1, tf2, fl1, fl2, avgfl, B, K1 = z3.Reals('idf tf1 tf2 fl1 fl2 avgfl B K1')
def bm25(idf, tf, fl, avgfl, B, K1):
    return idf * ((tf * (K1 + 1)) / (tf + K1 * ((1 - B) + B * fl / avgfl)))
pre = z3.And(idf > 0, tf1 > 0, tf2 >= tf1, fl2 > 0, fl1 >= fl2, avgfl > 0, B >= 0, B <= 1, K1 >= 0)
s = z3.Solver(); s.set("timeout", 60000)
s.add(pre, bm25(idf, tf1, fl1, avgfl, B, K1) > bm25(idf, tf2, fl2, avgfl, B, K1))
t = time.time(); print("joint:", s.check(), time.time() - t)
# split
s = z3.Solver(); s.set("timeout", 60000)
s.add(pre, bm25(idf, tf1, fl1, avgfl, B, K1) > bm25(idf, tf2, fl1, avgfl, B, K1))
t = time.time(); print("mono tf:", s.check(), time.time() - t)
s = z3.Solver(); s.set("timeout", 60000)
s.add(pre, bm25(idf, tf1, fl1, avgfl, B, K1) > bm25(idf, tf1, fl2, avgfl, B, K1))
t = time.time(); print("antimono fl:", s.check(), time.time() - t)
# with B > 1 allowed?
s = z3.Solver(); s.set("timeout", 60000)
s.add(idf > 0, tf1 > 0, tf2 >= tf1, fl1 > 0, avgfl > 0, B >= 0, K1 >= 0, bm25(idf, tf1, fl1, avgfl, B, K1) > bm25(idf, tf2, fl1, avgfl, B, K1))
t = time.time(); r = s.check(); print("mono tf any B>=0:", r, time.time() - t, s.model() if r == z3.sat else "")
