# L-crash over timestamps: O1..O5 => at every crash time T the selected TOC's files exist and are complete.
import z3, time
F = z3.DeclareSort('File'); f = z3.Const('f', F)
created = z3.Function('created', F, z3.IntSort()); closed = z3.Function('closed', F, z3.IntSort())
deleted = z3.Function('deleted', F, z3.IntSort()); written_in_tx = z3.Function('written', F, z3.BoolSort())
refOld = z3.Function('refOld', F, z3.BoolSort()); refNew = z3.Function('refNew', F, z3.BoolSort())
INF, t0, r, T, dOldToc = z3.Ints('INF t0 r T dOldToc')
hyp = [t0 < r, r < INF, T >= t0, T < INF,
  # pre-state consistent for generation g: referenced files complete before the transaction starts
  z3.ForAll([f], z3.Implies(refOld(f), z3.And(created(f) <= closed(f), closed(f) < t0))),
  # O1: files written by the transaction are not referenced by g (so refOld files keep their content)
  z3.ForAll([f], z3.Implies(written_in_tx(f), z3.And(z3.Not(refOld(f)), created(f) >= t0))),
  # O2: everything g+1 references is created and closed before the rename (old files qualify by pre-state)
  z3.ForAll([f], z3.Implies(refNew(f), z3.And(created(f) <= closed(f), closed(f) < r))),
  # O4: deletes before r only of files not in refOld; deletes at/after r only of files not in refNew; none before t0
  z3.ForAll([f], z3.And(deleted(f) > t0, z3.Implies(deleted(f) < r, z3.Not(refOld(f))),
                        z3.Implies(z3.And(deleted(f) >= r, deleted(f) < INF), z3.Not(refNew(f))),
                        z3.Implies(refNew(f), deleted(f) >= r))),
  dOldToc > r]       # old TOC removed only by clean_files, after the rename (O4 for the TOC file)
exists = lambda x: z3.And(created(x) <= T, T < deleted(x))
complete = lambda x: closed(x) <= T
selNew = r <= T          # O3/O5: toc_{g+1} exists iff the single rename happened; readers take the max
good = z3.If(selNew, z3.ForAll([f], z3.Implies(refNew(f), z3.And(exists(f), complete(f)))),
                     z3.And(T < dOldToc, z3.ForAll([f], z3.Implies(refOld(f), z3.And(exists(f), complete(f))))))
s = z3.Solver(); s.set("timeout", 30000); s.add(hyp); s.add(z3.Not(good))
t = time.time(); print("L-crash:", s.check(), "%.3fs" % (time.time() - t))
# canary: allow deleting an old referenced file before the rename (clean_files before TOC.write)
hyp2 = list(hyp); hyp2[6] = z3.ForAll([f], z3.And(deleted(f) > t0, z3.Implies(z3.And(deleted(f) >= r, deleted(f) < INF), z3.Not(refNew(f))), z3.Implies(refNew(f), deleted(f) >= r)))
s = z3.Solver(); s.set("timeout", 30000); s.add(hyp2); s.add(z3.Not(good))
print("canary (delete old file before rename):", s.check())
