import z3, time
I = z3.IntSort(); Bo = z3.BoolSort()
Sa = z3.Function('Sa', I, Bo); Sb = z3.Function('Sb', I, Bo)
INF = z3.Int('INF')
s = z3.Int('s')
def wf(S, p):  # cursor well-formed: p in S or p == INF; all members < INF, >= 0
    return z3.And(z3.Or(p == INF, z3.And(S(p), p < INF)), p >= 0)
def dom(S):
    return z3.ForAll([s], z3.Implies(S(s), z3.And(s >= 0, s < INF)))
def skip_post(S, p, t, p2):
    # p2 = p if t <= p else min{x in S: x >= t} (INF if none)
    return z3.And(wf(S, p2),
                  z3.If(t <= p, p2 == p,
                        z3.And(p2 >= t, z3.ForAll([s], z3.Implies(z3.And(S(s), s >= t), s >= p2)))))
pa, pb, pa2, lo = z3.Ints('pa pb pa2 lo')
# invariant: wf both, lo <= pa, lo <= pb, no common element in [lo, min(pa,pb))... stated as: forall s in Sa&Sb, s>=lo -> s >= pa and s >= pb
def inv(pa, pb):
    return z3.And(wf(Sa, pa), wf(Sb, pb), lo <= pa, lo <= pb,
                  z3.ForAll([s], z3.Implies(z3.And(Sa(s), Sb(s), s >= lo), z3.And(s >= pa, s >= pb))))
sol = z3.Solver(); sol.set("timeout", 30000)
sol.add(dom(Sa), dom(Sb), INF > 0)
sol.add(inv(pa, pb), pa < INF, pb < INF, pa != pb, pa < pb)
sol.add(skip_post(Sa, pa, pb, pa2))
sol.add(z3.Not(inv(pa2, pb)))
t = time.time(); print("preservation (a<b branch):", sol.check(), time.time() - t)
# exit: both active and equal => pa is the min common >= lo
sol = z3.Solver(); sol.set("timeout", 30000)
sol.add(dom(Sa), dom(Sb), INF > 0, inv(pa, pb), pa < INF, pb < INF, pa == pb)
goal = z3.And(Sa(pa), Sb(pa), z3.ForAll([s], z3.Implies(z3.And(Sa(s), Sb(s), s >= lo), s >= pa)))
sol.add(z3.Not(goal))
t = time.time(); print("exit post:", sol.check(), time.time() - t)
# sanity: wrong invariant should fail (canary): drop lo<=pb
sol = z3.Solver(); sol.set("timeout", 30000)
sol.add(dom(Sa), dom(Sb), INF > 0)
sol.add(inv(pa, pb), pa < INF, pb < INF, pa != pb, pa < pb)
# buggy skip: lands on first > t (not >=)
bad = z3.And(wf(Sa, pa2), pa2 > pb, z3.ForAll([s], z3.Implies(z3.And(Sa(s), s > pb), s >= pa2)))
sol.add(bad, z3.Not(inv(pa2, pb)))
t = time.time(); print("canary (buggy skip_to):", sol.check(), time.time() - t)
