import z3, time
def enc(x, signed=True):
    b = z3.fpToIEEEBV(x)            # 64-bit
    # python: q = signed int; if q<0: q ^= 0x7fff...; if signed: q += 1<<63
    neg = b < 0   # signed compare on BV
    q = z3.If(neg, b ^ z3.BitVecVal(0x7fffffffffffffff, 64), b)
    # as integer in [-2^63, 2^63) then + 2^63 -> unsigned order == (q + 2^63) mod 2^64 as unsigned
    return q + z3.BitVecVal(1 << 63, 64)
x = z3.FP('x', z3.Float64()); y = z3.FP('y', z3.Float64())
s = z3.Solver()
s.add(z3.Not(z3.fpIsNaN(x)), z3.Not(z3.fpIsNaN(y)))
s.add(z3.fpLT(x, y), z3.Not(z3.ULT(enc(x), enc(y))))
t = time.time(); print("strict order:", s.check(), time.time() - t)
s = z3.Solver()
s.add(z3.Not(z3.fpIsNaN(x)), z3.Not(z3.fpIsNaN(y)))
s.add(z3.fpEQ(x, y), enc(x) != enc(y))
t = time.time(); r = s.check(); print("eq => same code:", r, time.time() - t, s.model() if r == z3.sat else "")
# float32 rounding vs max: w double, f32(w) as double > w ?
w = z3.FP('w', z3.Float64())
w32 = z3.fpToFP(z3.RNE(), z3.fpToFP(z3.RNE(), w, z3.Float32()), z3.Float64())
s = z3.Solver(); s.add(z3.Not(z3.fpIsNaN(w)), z3.Not(z3.fpIsInf(w)), z3.fpGT(w, z3.FPVal(0.0, z3.Float64())), z3.fpGT(w32, w))
t = time.time(); r = s.check(); print("f32(w) > w:", r, time.time() - t, s.model() if r == z3.sat else "")
