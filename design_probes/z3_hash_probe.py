import z3, time
x, n = z3.Ints('x n')
s = z3.Solver(); s.set("timeout", 30000)
s.add(n > 0, x >= 0, x < n, ((x + 1) % n) != z3.If(x + 1 == n, 0, x + 1))
t=time.time(); print("mod-succ lemma z3:", s.check(), time.time()-t)
h = z3.Int('h')
s = z3.Solver(); s.set("timeout", 30000)
s.add(n > 0, h >= 0, z3.Not(z3.And((h % n) >= 0, (h % n) < n)))
t=time.time(); print("mod range:", s.check(), time.time()-t)
# insertion preserves "reachable without crossing null": table T: Array Int Int (0 = null, else entry id), home: fn
T = z3.Array('T', z3.IntSort(), z3.IntSort())
home = z3.Function('home', z3.IntSort(), z3.IntSort())
e, sl, k, j = z3.Ints('e sl k j')
# cyclic distance d(a,b) = (b - a) mod n  -> avoid mod: dist(a,b) = b-a if b>=a else b-a+n
dist = lambda a,b: z3.If(b >= a, b - a, b - a + n)
def inv(T):
    # every non-null slot s holding entry T[s]: all slots on the cyclic path from home(T[s]) to s are non-null
    return z3.ForAll([k, j], z3.Implies(z3.And(0 <= k, k < n, T[k] != 0, 0 <= j, j < n, dist(home(T[k]), j) < dist(home(T[k]), k)), T[j] != 0))
s = z3.Solver(); s.set("timeout", 60000)
s.add(n > 0, inv(T), z3.ForAll([k], z3.And(home(k) >= 0, home(k) < n)))
# probe found empty slot sl for new entry e (e != 0), with all slots from home(e) up to sl exclusive non-null
s.add(e != 0, 0 <= sl, sl < n, T[sl] == 0,
      z3.ForAll([j], z3.Implies(z3.And(0 <= j, j < n, dist(home(e), j) < dist(home(e), sl)), T[j] != 0)))
T2 = z3.Store(T, sl, e)
s.add(z3.Not(inv(T2)))
t=time.time(); print("insert preserves probe invariant:", s.check(), time.time()-t)
