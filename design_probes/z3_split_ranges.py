import z3, time, sys
def check(intsize, step, timeout=120000):
    W = intsize + 3
    BV = lambda n: z3.BitVecVal(n, W)
    start = z3.BitVec('start', W); end = z3.BitVec('end', W); v = z3.BitVec('v', W)
    lim = BV(1 << intsize)
    pre = z3.And(z3.ULT(start, lim), z3.ULT(end, lim), z3.ULT(v, lim), z3.ULE(start, end))
    covered = z3.BoolVal(False)
    done = z3.BoolVal(False)   # loop already broke
    s, e = start, end
    shift = 0
    overflow_ok = z3.BoolVal(True)
    while True:
        diff = BV(1 << (shift + step))
        mask = BV(((1 << step) - 1) << shift)
        low = BV((1 << shift) - 1)
        haslower = (s & mask) != BV(0)
        hasupper = (e & mask) != mask
        not_mask = BV(~(((1 << step) - 1) << shift) & ((1 << (intsize + 1)) - 1))
        nextstart = z3.If(haslower, s + diff, s) & not_mask
        # end - diff may go negative in Python! track
        neg = z3.And(hasupper, z3.ULT(e, diff))
        nextend = z3.If(hasupper, e - diff, e) & not_mask
        brk = z3.Or(shift + step >= intsize, z3.UGT(nextstart, nextend)) if not (shift + step >= intsize) else z3.BoolVal(True)
        def inr(a, b, sh):
            return z3.And(z3.ULE(z3.LShR(a, sh), z3.LShR(v, sh)), z3.ULE(z3.LShR(v, sh), z3.LShR(b, sh)))
        live = z3.Not(done)
        # break branch
        covered = z3.Or(covered, z3.And(live, brk, inr(s, e | low, shift)))
        # continue branch
        cont = z3.And(live, z3.Not(brk))
        covered = z3.Or(covered, z3.And(cont, haslower, inr(s, (s | mask) | low, shift)))
        covered = z3.Or(covered, z3.And(cont, hasupper, inr(e & not_mask, e | low, shift)))
        overflow_ok = z3.And(overflow_ok, z3.Implies(cont, z3.Not(neg)))
        done = z3.Or(done, brk)
        if shift + step >= intsize:
            break
        s, e = nextstart, nextend
        shift += step
    sol = z3.Solver(); sol.set("timeout", timeout)
    inside = z3.And(z3.ULE(start, v), z3.ULE(v, end))
    sol.add(pre, z3.Or(covered != inside, z3.Not(overflow_ok)))
    t = time.time(); r = sol.check(); dt = time.time() - t
    return r, dt, (sol.model() if r == z3.sat else None)
for intsize, step in [(8,1),(8,3),(8,8),(16,4),(32,4),(32,8),(64,4),(64,8),(64,1)]:
    r, dt, m = check(intsize, step)
    print(intsize, step, r, "%.2fs" % dt, m)
    sys.stdout.flush()
