import z3, time, sys
def level_vcs(intsize, step, shift, fixed=True):
    W = intsize + 3
    BV = lambda n: z3.BitVecVal(n & ((1 << W) - 1), W)
    s = z3.BitVec('s', W); e = z3.BitVec('e', W); v = z3.BitVec('v', W); c = z3.Bool('c')
    lim = BV(1 << intsize)
    low = BV((1 << shift) - 1)
    pre = z3.And(z3.ULT(s, lim), z3.ULT(e, lim), z3.ULT(v, lim), (s & low) == BV(0), (e & low) == BV(0))
    rem = lambda s_, e_, low_: z3.And(z3.ULE(s_, v), z3.ULE(v, e_ | low_))
    diff = BV(1 << (shift + step)); mask = BV(((1 << step) - 1) << shift)
    haslower = (s & mask) != BV(0); hasupper = (e & mask) != mask
    not_mask = BV(~(((1 << step) - 1) << shift) & ((1 << (intsize + 1)) - 1))
    nexts = z3.If(haslower, s + diff, s) & not_mask
    neg = z3.And(hasupper, z3.ULT(e, diff))
    nexte = z3.If(hasupper, e - diff, e) & not_mask
    last = shift + step >= intsize
    brk = z3.BoolVal(True) if last else (z3.Or(z3.UGT(nexts, nexte), neg) if fixed else z3.UGT(nexts, nexte))
    inr = lambda a, b: z3.And(z3.ULE(z3.LShR(a, shift), z3.LShR(v, shift)), z3.ULE(z3.LShR(v, shift), z3.LShR(b, shift)))
    vcs = []
    # break branch: yielded range == remaining interval
    vcs.append(("break", z3.And(pre, brk, inr(s, e | low) != rem(s, e, low))))
    if not last:
        low2 = BV((1 << (shift + step)) - 1)
        c2 = z3.Or(c, z3.And(haslower, inr(s, (s | mask) | low)), z3.And(hasupper, inr(e & not_mask, e | low)))
        goal = z3.And(z3.ULT(nexts, lim), z3.ULT(nexte, lim), (nexts & low2) == BV(0), (nexte & low2) == BV(0),
                      z3.Or(c2, rem(nexts, nexte, low2)) == z3.Or(c, rem(s, e, low)))
        vcs.append(("step", z3.And(pre, z3.Not(brk), z3.Not(goal))))
    return vcs
def run(intsize, step, fixed=True):
    tot = 0; worst = 0; res = []
    shift = 0
    while True:
        for name, f in level_vcs(intsize, step, shift, fixed):
            sol = z3.Solver(); sol.set("timeout", 60000); sol.add(f)
            t = time.time(); r = sol.check(); dt = time.time() - t
            tot += dt; worst = max(worst, dt)
            if r != z3.unsat: res.append((shift, name, str(r), sol.model() if r == z3.sat else None))
        if shift + step >= intsize: break
        shift += step
    return tot, worst, res
for cfg in [(8,1),(16,4),(32,1),(32,4),(64,1),(64,4),(64,8)]:
    tot, worst, res = run(*cfg)
    print(cfg, "fixed: total %.2fs worst %.2fs" % (tot, worst), "FAILED:" + str(res[:2]) if res else "all unsat"); sys.stdout.flush()
tot, worst, res = run(32, 4, fixed=False)
print("(32,4) unfixed:", [(a,b,c) for a,b,c,_ in res][:4], res[0][3] if res else None)
