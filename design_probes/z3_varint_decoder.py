import z3, time
# spec: val over a sequence modelled as Array Int Int (bytes) from index p: val(buf,p) = lo(buf[p]) + (128*val(buf,p+1) if hi else 0)
Buf = z3.Array('buf', z3.IntSort(), z3.IntSort())
val = z3.Function('val', z3.IntSort(), z3.IntSort())   # val(p) for the fixed buf
pow2 = z3.Function('pow2', z3.IntSort(), z3.IntSort())
p, i, shift, b, M = z3.Ints('p i shift b M')
def lo(x): return x % 128
def hi(x): return x >= 128
def unfold(q):  # definitional axiom instance of val at q
    return val(q) == lo(Buf[q]) + z3.If(hi(Buf[q]), 128 * val(q + 1), 0)
byte = lambda q: z3.And(Buf[q] >= 0, Buf[q] < 256)
# decoder loop (read_varint): state: b = last byte read (at index p-1), i accumulated, shift, ghost M = pow2(shift)
# invariant: val(0) == i - lo(b)*M/128 ... choose simpler: val(0) == i_without_last + (M/128) * val(p-1)  where i = i_wo + lo(b)*(M/128)
# Let K = M/128 (ghost) : invariant  val(0) == (i - lo(b)*K) + K*val(p-1),  M == 128*K, b == Buf[p-1]
K = z3.Int('K')
inv = lambda p,i,b,K: z3.And(p >= 1, b == Buf[p-1], K >= 1, val(0) == (i - lo(b)*K) + K*val(p-1))
s = z3.Solver(); s.set("timeout", 30000)
p2,i2,b2,K2 = z3.Ints('p2 i2 b2 K2')
s.add(byte(p-1), byte(p), inv(p,i,b,K), hi(b), unfold(p-1), unfold(p))
# body: b = buf[p]; p += 1; i |= (b & 0x7f) << shift   (== i + lo(b)*M since bits disjoint: assumed proved via bounded-int side lemma) ; shift += 7
s.add(b2 == Buf[p], p2 == p+1, K2 == 128*K, i2 == i + lo(b2)*K2)
s.add(z3.Not(inv(p2,i2,b2,K2)))
t=time.time(); print("decoder inv preserve:", s.check(), time.time()-t)
s = z3.Solver(); s.set("timeout", 30000)
s.add(byte(p-1), inv(p,i,b,K), z3.Not(hi(b)), unfold(p-1), z3.Not(val(0) == i))
t=time.time(); print("decoder exit:", s.check(), time.time()-t)
# the '|' as '+' side lemma: i < M (bits below shift) and term is multiple of M  -> in bounded-int mode; prototype with BV 70, shift concrete ranges 7..63
ok=True; t=time.time()
for sh in range(7, 64, 7):
    x = z3.BitVec('x', 80); c = z3.BitVec('c', 80)
    s = z3.Solver(); s.add(z3.ULT(x, 1<<sh), z3.ULT(c, 128), (x | (c << sh)) != x + (c << sh))
    ok = ok and s.check()==z3.unsat
print("or-as-plus for shifts 7..63:", ok, time.time()-t)
