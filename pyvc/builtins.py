"""Models of Python builtins, the stdlib functions whoosh calls (class A:
library contracts, listed in the trusted base) and spec-level functions."""
import ast
import struct as _struct
import z3

from .values import *
from .ops import to_z3, unify, concrete_int, is_num

EXC_PARENTS = {
    "IndexError": "LookupError", "KeyError": "LookupError", "LookupError": "Exception",
    "ValueError": "Exception", "TypeError": "Exception", "AttributeError": "Exception",
    "ZeroDivisionError": "ArithmeticError", "OverflowError": "ArithmeticError",
    "ArithmeticError": "Exception", "AssertionError": "Exception", "NotImplementedError": "RuntimeError",
    "RuntimeError": "Exception", "StopIteration": "Exception", "IOError": "OSError", "OSError": "Exception",
    "EOFError": "Exception", "UnicodeDecodeError": "ValueError", "UnicodeEncodeError": "ValueError",
    "struct.error": "Exception", "error": "Exception", "Exception": "BaseException",
    "KeyboardInterrupt": "BaseException", "NameError": "Exception", "MemoryError": "Exception",
}


def exc_is_subclass(name, parent):
    seen = 0
    while name is not None and seen < 10:
        if name == parent:
            return True
        name = EXC_PARENTS.get(name)
        seen += 1
    return False


BUILTINS = {}
EXTERNALS = {}
SPEC_FUNCS = {}


def builtin(name, pytype=None):
    def deco(fn):
        BUILTINS[name] = Builtin(name, fn, pytype)
        return fn
    return deco


def external(*names):
    def deco(fn):
        for n in names:
            EXTERNALS[n] = fn
        return fn
    return deco


def specfn(name):
    def deco(fn):
        SPEC_FUNCS[name] = SpecFn(name, fn)
        return fn
    return deco


for _e in list(EXC_PARENTS) + ["BaseException"]:
    if "." not in _e and _e != "error":
        def _mk(n):
            def f(interp, args, kwargs, node):
                return ExcValue(n, tuple(args))
            return f
        BUILTINS[_e] = Builtin(_e, _mk(_e))
BUILTINS["True"] = True
BUILTINS["False"] = False
BUILTINS["None"] = None
BUILTINS["NotImplemented"] = Opaque("NotImplemented")


# ----------------------------------------------------------------- builtins

@builtin("len")
def b_len(I, args, kw, node):
    v = args[0]
    if isinstance(v, Opt):
        v = I.unwrap_opt(v, "len")
    if isinstance(v, (tuple, list, str, bytes)):
        return len(v)
    if isinstance(v, PyList):
        return len(v.items)
    if isinstance(v, PyDict):
        return len(v.d)
    if isinstance(v, PySet):
        return len(v.items)
    if isinstance(v, SymList):
        return v.n
    if isinstance(v, Abstract) and hasattr(v, "length"):
        return v.length(I)
    if isinstance(v, Obj) and v.cls.find_method("__len__"):
        return I.call_method(v, "__len__", [], {})
    if is_z3(v) and z3.is_seq(v):
        return z3.Length(v)
    raise OutsideSubset("len of %r" % (v,), node)


def _minmax(I, args, kw, node, is_min):
    if len(args) == 1 and isinstance(args[0], SymGen):
        # min/max of `elt for x in family[lo:hi]` with symbolic bounds: the element is evaluated ONCE at an arbitrary
        # index k in range (obligations raised while evaluating it hold for every k because k is fresh); the result
        # bounds every element and is one of them; an empty range raises ValueError as in CPython
        g = args[0]
        lo, hi = to_z3(g.lo), to_z3(g.hi)
        if not I.decide(hi > lo, "min/max-non-empty"):
            I.raise_builtin("ValueError", node)
        from .interp import Frame
        k = z3.Int(I.fresh_name("gk"))
        npc = len(I.pc)
        I.pc.append(z3.And(lo <= k, k < hi))
        fr = Frame(g.frame.module, {}, parent=g.frame, spec=g.frame.spec)
        I.frames.append(fr)
        try:
            I.assign(g.target, g.getter(k))
            el = to_z3(I.ev(g.elt))
        finally:
            I.frames.pop()
        # conditions decided while evaluating the element (they may mention k) must hold for EVERY index in range - an
        # obligation, so that the element expression obtained on this path is the element at every index
        extras = [to_z3(c) for c in I.pc[npc + 1:]]
        guard = I.pc[npc]
        del I.pc[npc:]
        if extras:
            I.oblige("call-pre", "generator-element-uniform", z3.ForAll([k], z3.Implies(guard, z3.And(*extras))))
        m = z3.Const(I.fresh_name("ext"), el.sort())
        j = z3.Int(I.fresh_name("gj"))
        I.assume(z3.ForAll([k], z3.Implies(guard, (m <= el) if is_min else (m >= el))))
        I.assume(z3.Exists([j], z3.substitute(z3.And(guard, el == m), (k, j))))
        return m
    if len(args) == 1 and isinstance(args[0], SymList):
        v = args[0]
        if not I.decide(v.n > 0, "min/max-non-empty"):
            I.raise_builtin("ValueError", node)
        m = z3.Const(I.fresh_name("ext"), v.arr.sort().range())
        k, j = z3.Int(I.fresh_name("k")), z3.Int(I.fresh_name("j"))
        el = z3.Select(v.arr, k)
        I.assume(z3.ForAll([k], z3.Implies(z3.And(0 <= k, k < v.n), (m <= el) if is_min else (m >= el))))
        I.assume(z3.Exists([j], z3.And(0 <= j, j < v.n, z3.Select(v.arr, j) == m)))
        return m
    if len(args) == 1:
        items = I.iterate(args[0], node)
    else:
        items = list(args)
    if not items:
        if "default" in kw:
            return kw["default"]
        I.raise_builtin("ValueError", node)
    if kw.get("key") is not None:
        raise OutsideSubset("min/max with key", node)
    items = [I.unwrap_opt(x, "min/max argument") if isinstance(x, Opt) else x for x in items]
    cur = items[0]
    for x in items[1:]:
        if isinstance(cur, tuple) or isinstance(x, tuple):
            c = I.compare(ast.Lt() if is_min else ast.Gt(), x, cur, node)
            cur = I.ite(c if not isinstance(c, bool) else c, x, cur) if not isinstance(c, bool) else (x if c else cur)
            continue
        if is_concrete(cur) and is_concrete(x):
            cur = min(cur, x) if is_min else max(cur, x)
            continue
        a, b = unify(to_z3(cur), to_z3(x))
        if z3.is_fp(a):
            c = z3.fpLT(b, a) if is_min else z3.fpGT(b, a)
        elif z3.is_bv(a):
            c = (b < a) if is_min else (b > a)
        else:
            c = (b < a) if is_min else (b > a)
        cur = z3.If(c, b, a)
    return cur


@builtin("min")
def b_min(I, args, kw, node):
    return _minmax(I, args, kw, node, True)


@builtin("max")
def b_max(I, args, kw, node):
    return _minmax(I, args, kw, node, False)


@builtin("abs")
def b_abs(I, args, kw, node):
    v = args[0]
    if is_concrete(v):
        return abs(v)
    if z3.is_fp(v):
        return z3.fpAbs(v)
    return z3.If(v < 0, -v, v)


@builtin("int", pytype=int)
def b_int(I, args, kw, node):
    if not args:
        return 0
    v = args[0]
    if is_concrete(v) and len(args) == 1:
        try:
            return int(v)
        except (ValueError, TypeError):
            I.raise_builtin("ValueError", node)
    if is_z3(v):
        if z3.is_int(v) or z3.is_bv(v):
            return v
        if z3.is_bool(v):
            return z3.If(v, 1, 0)
        if z3.is_real(v):
            # truncation toward zero
            return z3.If(v >= 0, z3.ToInt(v), -z3.ToInt(-v))
    if isinstance(v, Opaque):
        return I.fresh_int("int_of_opaque")
    if isinstance(v, Abstract) and hasattr(v, "builtin_int"):
        return v.builtin_int(I)
    raise OutsideSubset("int() of %r" % (v,), node)


BUILTINS["long"] = BUILTINS["int"]


@builtin("float", pytype=float)
def b_float(I, args, kw, node):
    v = args[0]
    if is_concrete(v):
        try:
            return float(v)
        except (ValueError, TypeError):
            I.raise_builtin("ValueError", node)
    if is_z3(v):
        if z3.is_real(v) or z3.is_fp(v):
            return v
        if z3.is_int(v):
            return z3.ToReal(v)
    raise OutsideSubset("float() of %r" % (v,), node)


@builtin("bool", pytype=bool)
def b_bool(I, args, kw, node):
    if not args:
        return False
    return I.truth(args[0])


@builtin("str", pytype=str)
def b_str(I, args, kw, node):
    if args and is_concrete(args[0]) and len(args) == 1:
        return str(args[0])
    return Opaque("str()")


@builtin("repr")
def b_repr(I, args, kw, node):
    return Opaque("repr()")


@builtin("bytes", pytype=bytes)
def b_bytes(I, args, kw, node):
    if not args:
        return b""
    if is_concrete(args[0]):
        try:
            return bytes(args[0])
        except Exception:
            pass
    raise OutsideSubset("bytes() of symbolic", node)


@builtin("range")
def b_range(I, args, kw, node):
    cs = [concrete_int(a) for a in args]
    if all(c is not None for c in cs):
        return range(*cs)
    return SymRange(*args)


BUILTINS["xrange"] = BUILTINS["range"]


class SymRange(Abstract):
    def __init__(self, *args):
        if len(args) == 1:
            self.lo, self.hi, self.step = 0, args[0], 1
        elif len(args) == 2:
            self.lo, self.hi, self.step = args[0], args[1], 1
        else:
            self.lo, self.hi, self.step = args

    def as_range(self, I):
        return self.lo, self.hi, self.step

    def havoc(self, I):
        pass


@builtin("slice", pytype=slice)
def b_slice(I, args, kw, node):
    raise OutsideSubset("slice() object construction", node)


@builtin("isinstance")
def b_isinstance(I, args, kw, node):
    v, t = args
    ts = t if isinstance(t, tuple) else (t,)
    return any(_isinst(I, v, x, node) for x in ts)


def _isinst(I, v, t, node):
    if isinstance(t, tuple):
        return any(_isinst(I, v, x, node) for x in t)
    if isinstance(t, ClassRef):
        if isinstance(v, Obj):
            return v.cls.is_subclass_of(t.info)
        if isinstance(v, Abstract):
            if hasattr(v, "isinstance_of"):
                return v.isinstance_of(I, t.info)
            return False
        return False
    if isinstance(t, Builtin):
        if isinstance(v, Opt):
            raise OutsideSubset("isinstance on optional value", node)
        if t.name in ("int", "long"):
            return (isinstance(v, int) and not isinstance(v, bool)) or (is_z3(v) and (z3.is_int(v) or z3.is_bv(v)))
        if t.name == "float":
            return isinstance(v, float) or (is_z3(v) and (z3.is_real(v) or z3.is_fp(v)))
        if t.name == "bool":
            return isinstance(v, bool) or (is_z3(v) and z3.is_bool(v))
        if t.name == "str":
            return isinstance(v, str) or (isinstance(v, Abstract) and getattr(v, "pytype", None) == "str")
        if t.name == "bytes":
            return isinstance(v, bytes) or (isinstance(v, SymList) and v.kind == "bytes") or \
                (isinstance(v, Abstract) and getattr(v, "pytype", None) == "bytes")
        if t.name == "tuple":
            return isinstance(v, tuple)
        if t.name == "list":
            return isinstance(v, PyList) or (isinstance(v, SymList) and v.kind == "list")
        if t.name == "dict":
            return isinstance(v, PyDict)
        if t.name in ("set", "frozenset"):
            return isinstance(v, PySet)
        if t.name == "object":
            return True
        if t.name == "slice":
            return isinstance(v, slice)      # integers, reals, lists and objects of the model are never slices
        if t.name in EXC_PARENTS or t.name == "BaseException":
            return isinstance(v, ExcValue) and exc_is_subclass(v.name, t.name)
    if isinstance(t, ExternalRef):
        if isinstance(v, Abstract) and hasattr(v, "isinstance_ext"):
            return v.isinstance_ext(I, t.name)
        if t.name in ("array.array",):
            return isinstance(v, SymList) and v.kind == "array"
        return False
    if isinstance(v, Opaque):
        raise OutsideSubset("isinstance on opaque value", node)
    raise OutsideSubset("isinstance against %r" % (t,), node)


@builtin("type")
def b_type(I, args, kw, node):
    v = args[0]
    if isinstance(v, Obj):
        return ClassRef(v.cls)
    if isinstance(v, bool) or is_z3(v) and z3.is_bool(v):
        return BUILTINS["bool"]
    if isinstance(v, int) or is_z3(v) and (z3.is_int(v) or z3.is_bv(v)):
        return BUILTINS["int"]
    if isinstance(v, float) or is_z3(v) and (z3.is_real(v) or z3.is_fp(v)):
        return BUILTINS["float"]
    if isinstance(v, str):
        return BUILTINS["str"]
    if isinstance(v, bytes):
        return BUILTINS["bytes"]
    if isinstance(v, tuple):
        return BUILTINS["tuple"]
    if isinstance(v, PyList):
        return BUILTINS["list"]
    if isinstance(v, Abstract) and hasattr(v, "type_of"):
        return v.type_of(I)
    raise OutsideSubset("type() of %r" % (v,), node)


@builtin("tuple", pytype=tuple)
def b_tuple(I, args, kw, node):
    if not args:
        return ()
    if isinstance(args[0], SymList):
        return SymList(args[0].arr, args[0].n, "tuple")      # immutable copy of symbolic length
    return tuple(I.iterate(args[0], node))


@builtin("list", pytype=list)
def b_list(I, args, kw, node):
    if not args:
        return PyList([])
    v = args[0]
    if isinstance(v, SymList):
        return SymList(v.arr, v.n, "list")
    if isinstance(v, SymRange) and concrete_int(v.step) == 1:
        lo, hi = to_z3(v.lo), to_z3(v.hi)
        A = z3.Array(I.fresh_name("rng"), z3.IntSort(), z3.IntSort())
        k = z3.Int(I.fresh_name("k"))
        n = z3.If(hi > lo, hi - lo, 0)
        I.assume(z3.ForAll([k], z3.Implies(z3.And(0 <= k, k < n), z3.Select(A, k) == lo + k)))
        return SymList(A, n, "list")
    return PyList(I.iterate(v, node))


@builtin("set")
def b_set(I, args, kw, node):
    if not args:
        return PySet([])
    return PySet(I.iterate(args[0], node))


BUILTINS["frozenset"] = BUILTINS["set"]


@builtin("dict", pytype=dict)
def b_dict(I, args, kw, node):
    d = {}
    if args:
        if isinstance(args[0], PyDict):
            d.update(args[0].d)
        else:
            for k, v in I.iterate(args[0], node):
                d[k] = v
    d.update(kw)
    return PyDict(d)


@builtin("object")
def b_object(I, args, kw, node):
    return Opaque("object()")


@builtin("iter")
def b_iter(I, args, kw, node):
    return args[0]


@builtin("sorted")
def b_sorted(I, args, kw, node):
    items = I.iterate(args[0], node)
    if all(is_concrete(x) for x in items) and not kw:
        return PyList(sorted(items))
    if len(items) <= 1 and not kw.get("reverse"):
        return PyList(items)
    raise OutsideSubset("sorted() of symbolic items", node)


@builtin("reversed")
def b_reversed(I, args, kw, node):
    return PyList(list(reversed(I.iterate(args[0], node))))


@builtin("enumerate")
def b_enumerate(I, args, kw, node):
    start = args[1] if len(args) > 1 else kw.get("start", 0)
    return PyList([(start + i, x) for i, x in enumerate(I.iterate(args[0], node))])


@builtin("zip")
def b_zip(I, args, kw, node):
    return PyList(list(zip(*[I.iterate(a, node) for a in args])))


@builtin("sum")
def b_sum(I, args, kw, node):
    tot = args[1] if len(args) > 1 else 0
    if isinstance(args[0], SymGen):
        # sum of `elt for x in seq` with a symbolic number of items: a prefix-sum function PS with PS(lo) = 0 and
        # PS(k + 1) = PS(k) + elt(k) for every k in range; the sum is PS(hi).  (Facts that need induction over PS are
        # lemmas of the contract that uses it; the function is remembered under I.ghost["last_prefix_sum"].)
        from .interp import Frame
        g = args[0]
        lo, hi = to_z3(g.lo), to_z3(g.hi)
        k = z3.Int(I.fresh_name("gk"))
        npc = len(I.pc)
        I.pc.append(z3.And(lo <= k, k < hi))
        fr = Frame(g.frame.module, {}, parent=g.frame, spec=g.frame.spec)
        I.frames.append(fr)
        try:
            I.assign(g.target, g.getter(k))
            el = to_z3(I.ev(g.elt))
        finally:
            I.frames.pop()
        extras = [to_z3(c) for c in I.pc[npc + 1:]]
        guard = I.pc[npc]
        del I.pc[npc:]
        if extras:
            I.oblige("call-pre", "generator-element-uniform", z3.ForAll([k], z3.Implies(guard, z3.And(*extras))))
        PS = z3.Function(I.fresh_name("prefix_sum"), z3.IntSort(), el.sort())
        I.assume(PS(lo) == 0)
        I.assume(z3.ForAll([k], z3.Implies(guard, PS(k + 1) == PS(k) + el)))
        I.ghost["last_prefix_sum"] = (PS, lo, hi, k, el)
        return I.binop(ast.Add(), tot, z3.If(hi > lo, PS(hi), 0), node)
    if isinstance(args[0], Abstract) and hasattr(args[0], "builtin_sum"):
        return I.binop(ast.Add(), tot, args[0].builtin_sum(I), node)
    for x in I.iterate(args[0], node):
        tot = I.binop(ast.Add(), tot, x, node)
    return tot


@builtin("any")
def b_any(I, args, kw, node):
    if len(args) == 1 and isinstance(args[0], SymGen):
        return _symgen_quant(I, args[0], node, False)
    return I.disj([I.truth(x) for x in I.iterate(args[0], node)])


def _symgen_quant(I, g, node, universal):
    """all()/any() over `elt for x in seq` with a symbolic number of items: the element is evaluated once at an arbitrary
    index k in range; conditions decided on the way must hold at every index (obligation, as for min/max)."""
    from .interp import Frame
    lo, hi = to_z3(g.lo), to_z3(g.hi)
    k = z3.Int(I.fresh_name("gk"))
    npc = len(I.pc)
    I.pc.append(z3.And(lo <= k, k < hi))
    fr = Frame(g.frame.module, {}, parent=g.frame, spec=g.frame.spec)
    I.frames.append(fr)
    try:
        I.assign(g.target, g.getter(k))
        el = I.truth(I.ev(g.elt))
    finally:
        I.frames.pop()
    extras = [to_z3(c) for c in I.pc[npc + 1:]]
    guard = I.pc[npc]
    del I.pc[npc:]
    if extras:
        I.oblige("call-pre", "generator-element-uniform", z3.ForAll([k], z3.Implies(guard, z3.And(*extras))))
    el = z3.BoolVal(el) if isinstance(el, bool) else el
    if universal:
        return z3.ForAll([k], z3.Implies(guard, el))
    return z3.Exists([k], z3.And(guard, el))


@builtin("all")
def b_all(I, args, kw, node):
    if len(args) == 1 and isinstance(args[0], SymGen):
        return _symgen_quant(I, args[0], node, True)
    return I.conj([I.truth(x) for x in I.iterate(args[0], node)])


@builtin("ord")
def b_ord(I, args, kw, node):
    v = args[0]
    if isinstance(v, (str, bytes)) and len(v) == 1:
        return ord(v)
    if isinstance(v, Abstract) and hasattr(v, "ord"):
        return v.ord(I)
    raise OutsideSubset("ord of %r" % (v,), node)


@builtin("chr")
def b_chr(I, args, kw, node):
    v = concrete_int(args[0])
    if v is not None:
        return chr(v)
    raise OutsideSubset("chr of symbolic", node)


@builtin("hasattr")
def b_hasattr(I, args, kw, node):
    o, n = args
    if isinstance(o, Obj):
        return n in o.fields or o.cls.find_method(n) is not None or o.cls.find_attr(n) is not None
    if isinstance(o, Abstract):
        if hasattr(o, "hasattr"):
            return o.hasattr(I, n)
        return hasattr(o, "m_" + n) or hasattr(o, "a_" + n)
    raise OutsideSubset("hasattr on %r" % (o,), node)


@builtin("getattr")
def b_getattr(I, args, kw, node):
    if len(args) == 3:
        try:
            return I.getattr(args[0], args[1], node)
        except RaiseSig as r:
            if r.name() == "AttributeError":
                return args[2]
            raise
    return I.getattr(args[0], args[1], node)


@builtin("setattr")
def b_setattr(I, args, kw, node):
    I.setattr(args[0], args[1], args[2], node)


@builtin("callable")
def b_callable(I, args, kw, node):
    return isinstance(args[0], (FuncRef, BoundMethod, Closure, Builtin, ClassRef, ExternalRef, AbstractMethod))


@builtin("id")
def b_id(I, args, kw, node):
    return id(args[0])


@builtin("super")
def b_super(I, args, kw, node):
    f = I.frame
    while f is not None and f.cls is None:
        f = f.parent
    if args:
        cls, obj = args
        after = cls.info
    else:
        if f is None:
            raise OutsideSubset("super() outside a method", node)
        after = f.cls
        obj = None
        g = I.frame
        while g is not None:
            if g.func is not None and g.func.node.args.args:
                obj = g.env.get(g.func.node.args.args[0].arg)
                break
            g = g.parent
    return SuperProxy(obj, after)


class SuperProxy(Abstract):
    def __init__(self, obj, after):
        self.obj = obj
        self.after = after

    def getattr(self, I, name, node=None):
        ci = self.obj.cls if isinstance(self.obj, Obj) else self.obj.info
        fm = ci.find_method(name, after=self.after)
        if fm is None:
            if name == "__init__":
                return SpecFn("object.__init__", lambda I2, *a, **k: None)
            raise OutsideSubset("super().%s not found" % name, node)
        c, fn = fm
        return BoundMethod(FuncRef(c.module, "%s.%s" % (c.qualname, name), fn, c), self.obj)

    def havoc(self, I):
        pass


@builtin("print")
def b_print(I, args, kw, node):
    return None


@builtin("divmod")
def b_divmod(I, args, kw, node):
    return (I.binop(ast.FloorDiv(), args[0], args[1], node), I.binop(ast.Mod(), args[0], args[1], node))


@builtin("round")
def b_round(I, args, kw, node):
    if all(is_concrete(a) for a in args):
        return round(*args)
    raise OutsideSubset("round of symbolic", node)


@builtin("next")
def b_next(I, args, kw, node):
    raise OutsideSubset("next() on iterator", node)


@builtin("pow")
def b_pow(I, args, kw, node):
    return I.binop(ast.Pow(), args[0], args[1], node)


# ----------------------------------------------------------------- externals

@external("math.ceil")
def x_ceil(I, args, kw, node):
    import math
    v = args[0]
    if is_concrete(v):
        return math.ceil(v)
    if z3.is_int(v):
        return v
    if z3.is_real(v):
        return -z3.ToInt(-v)
    raise OutsideSubset("ceil", node)


@external("math.floor")
def x_floor(I, args, kw, node):
    import math
    v = args[0]
    if is_concrete(v):
        return math.floor(v)
    if z3.is_int(v):
        return v
    if z3.is_real(v):
        return z3.ToInt(v)
    raise OutsideSubset("floor", node)


LOG = z3.Function("log", z3.RealSort(), z3.RealSort())
SQRT = z3.Function("sqrt", z3.RealSort(), z3.RealSort())


@external("math.log", "whoosh.scoring.log")
def x_log(I, args, kw, node):
    import math
    if all(is_concrete(a) for a in args):
        try:
            return math.log(*args)
        except ValueError:
            I.raise_builtin("ValueError", node)
    v = args[0]
    if len(args) == 2:
        raise OutsideSubset("log with symbolic base", node)
    v = to_z3(v)
    if z3.is_int(v):
        v = z3.ToReal(v)
    pos = v > 0
    if not I.decide(pos, "log-domain"):
        I.raise_builtin("ValueError", node)
    I.notes.add("assume:log is an uninterpreted strictly monotone function with log(1)=0 (axioms instantiated at use)")
    I.log_terms = getattr(I, "log_terms", [])
    r = LOG(v)
    # axioms instantiated against all earlier log terms
    I.assume(z3.Implies(v > 1, r > 0))
    I.assume(z3.Implies(v == 1, r == 0))
    I.assume(z3.Implies(v < 1, r < 0))
    I.assume(r <= v - 1)
    I.assume(z3.Implies(v * 2 >= 1, r > -1))
    for (v2, r2) in I.log_terms:
        I.assume(z3.Implies(v < v2, r < r2))
        I.assume(z3.Implies(v2 < v, r2 < r))
        I.assume(z3.Implies(v == v2, r == r2))
    I.log_terms.append((v, r))
    return r


@external("math.sqrt", "whoosh.scoring.sqrt")
def x_sqrt(I, args, kw, node):
    import math
    if all(is_concrete(a) for a in args):
        return math.sqrt(*args)
    v = to_z3(args[0])
    if z3.is_int(v):
        v = z3.ToReal(v)
    if not I.decide(v >= 0, "sqrt-domain"):
        I.raise_builtin("ValueError", node)
    r = I.fresh_real("sqrt")
    I.assume(z3.And(r >= 0, r * r == v))
    return r


@external("struct.Struct")
def x_Struct(I, args, kw, node):
    return StructModel(args[0])


@external("struct.calcsize")
def x_calcsize(I, args, kw, node):
    return _struct.calcsize(args[0])


class PackedBytes(Abstract):
    """Result of struct.pack(fmt, v...) kept symbolic: (fmt, values)."""
    pytype = "bytes"

    def __init__(self, fmt, vals):
        self.fmt = fmt
        self.vals = tuple(vals)

    def havoc(self, I):
        pass

    def length(self, I):
        return _struct.calcsize(self.fmt)

    def codes(self):
        return self.fmt.replace(">", "").replace("!", "")

    def getslice(self, I, lo, hi, st, node=None):
        """s[lo:hi] with concrete byte offsets that fall on field boundaries (big-endian / network order formats)"""
        if st is not None or self.fmt[:1] not in ">!":
            raise OutsideSubset("slice of packed bytes", node)
        total = _struct.calcsize(self.fmt)
        lo = 0 if lo is None else concrete_int(lo)
        hi = total if hi is None else concrete_int(hi)
        if lo is None or hi is None:
            raise OutsideSubset("slice of packed bytes at symbolic offsets", node)
        if lo < 0:
            lo += total
        if hi < 0:
            hi += total
        hi = min(hi, total)
        pos, cs, vs = 0, "", []
        for c, v in zip(self.codes(), self.vals):
            n = _struct.calcsize(">" + c)
            if pos >= lo and pos + n <= hi:
                cs += c
                vs.append(v)
            elif pos < hi and pos + n > lo:
                raise OutsideSubset("slice of packed bytes cuts a field", node)
            pos += n
        return PackedBytes(">" + cs, vs)

    def binop(self, I, op, other, reflected):
        if isinstance(op, ast.Add) and isinstance(other, bytes) and len(other) > 0 and self.fmt[:1] in ">!":
            other = PackedBytes(">" + "B" * len(other), list(other))
        if isinstance(op, ast.Add) and isinstance(other, PackedBytes) and self.fmt[:1] in ">!" and other.fmt[:1] in ">!":
            a, b = (other, self) if reflected else (self, other)
            return PackedBytes(">" + a.codes() + b.codes(), a.vals + b.vals)
        if isinstance(op, ast.Add) and isinstance(other, bytes) and len(other) == 0:
            return self
        raise OutsideSubset("operation on packed bytes")

    def compare(self, I, op, other, reflected):
        if isinstance(op, (ast.Eq, ast.NotEq)):
            if isinstance(other, PackedBytes):
                if self.codes() != other.codes():
                    r = False
                else:
                    r = I.conj([I.compare(ast.Eq(), x, y) for x, y in zip(self.vals, other.vals)])
            elif isinstance(other, bytes):
                r = False if len(other) != self.length(I) else None
                if r is None:
                    raise OutsideSubset("packed bytes against literal")
            else:
                r = False
            return r if isinstance(op, ast.Eq) else I.neg(r)
        raise OutsideSubset("ordering of packed bytes (class A axiom: use the byte-order lemma)")


INT_FMT = {"b": (8, True), "B": (8, False), "h": (16, True), "H": (16, False), "i": (32, True),
           "I": (32, False), "l": (32, True), "L": (32, False), "q": (64, True), "Q": (64, False)}


F32ROUND = z3.Function("round_to_binary32", z3.RealSort(), z3.RealSort())


class StructModel(Abstract):
    def __init__(self, fmt):
        self.fmt = fmt
        self.code = fmt.lstrip("<>!=@")

    def havoc(self, I):
        pass

    def a_pack(self, I):
        return AbstractMethod(self, "pack")

    def a_unpack(self, I):
        return AbstractMethod(self, "unpack")

    def a_size(self, I):
        return _struct.calcsize(self.fmt)

    def m_pack(self, I, *vals):
        if all(is_concrete(v) for v in vals):
            try:
                return _struct.pack(self.fmt, *vals)
            except _struct.error:
                raise RaiseSig(ExcValue("struct.error"))
        # range check: struct.error outside the format's range
        out = []
        for c, v in zip(self.code, vals):
            if isinstance(v, Opt):
                v = I.unwrap_opt(v, "struct.pack argument")
            if c in INT_FMT:
                bits, signed = INT_FMT[c]
                lo, hi = (-(1 << (bits - 1)), (1 << (bits - 1)) - 1) if signed else (0, (1 << bits) - 1)
                v = to_z3(v)
                if z3.is_bool(v):
                    v = z3.If(v, 1, 0)          # True/False pack as 1/0
                if z3.is_bv(v):
                    inr = z3.And(v >= z3.BitVecVal(lo, v.size()), v <= z3.BitVecVal(hi, v.size())) \
                        if v.size() > bits else z3.BoolVal(True)
                else:
                    inr = z3.And(v >= lo, v <= hi)
                if not I.decide(inr, "struct-range"):
                    raise RaiseSig(ExcValue("struct.error"))
            elif c == "f" and not (is_z3(v) and z3.is_fp(v)):
                # binary32 storage of a real-valued number: what comes back is the rounded value (class A: monotone
                # rounding function, uninterpreted)
                v = to_z3(v)
                v = F32ROUND(z3.ToReal(v) if z3.is_int(v) else v)
                I.notes.add("assume:struct 'f' stores round-to-binary32(x) (uninterpreted rounding function)")
            out.append(v)
        return PackedBytes(self.fmt, out)

    def m_unpack(self, I, data):
        if isinstance(data, bytes):
            return _struct.unpack(self.fmt, data)
        if isinstance(data, PackedBytes):
            if data.fmt == self.fmt or (data.fmt[:1] in ">!" and self.fmt[:1] in ">!" and data.codes() == self.code):
                return data.vals
            # reinterpretation between same-width formats
            if len(self.code) == 1 and len(data.fmt.lstrip("<>!=@")) == 1:
                return (reinterpret(I, data.fmt.lstrip("<>!=@"), self.code, data.vals[0]),)
        raise OutsideSubset("struct.unpack of %r" % (data,))


def reinterpret(I, src, dst, v):
    """Bit reinterpretation between struct codes (q<->d, i<->f, Q<->d ...)."""
    v = to_z3(v) if not is_z3(v) else v
    if src == "d" and dst in ("q", "Q"):
        if not z3.is_fp(v):
            raise OutsideSubset("double reinterpretation needs an FP value")
        bv = z3.BitVec(I.fresh_name("ieee"), 64)
        # fp.to_ieee_bv is unspecified for NaN; relate through fpBVToFP (exact for non-NaN)
        I.assume(z3.fpBVToFP(bv, z3.Float64()) == v)
        I.notes.add("assume:struct reinterpret d->q is the IEEE-754 binary64 bit pattern (NaN payload unspecified)")
        if I.int_mode:
            return z3.SignExt(I.int_mode - 64, bv) if dst == "q" else z3.ZeroExt(I.int_mode - 64, bv)
        return z3.BV2Int(bv, is_signed=(dst == "q"))
    if src in ("q", "Q") and dst == "d":
        bv = z3.Int2BV(v, 64) if z3.is_int(v) else z3.Extract(63, 0, v) if v.size() > 64 else v
        return z3.fpBVToFP(bv, z3.Float64())
    if src == "f" and dst in ("i", "I"):
        if not z3.is_fp(v):
            raise OutsideSubset("float reinterpretation needs an FP value")
        bv = z3.BitVec(I.fresh_name("ieee"), 32)
        I.assume(z3.fpBVToFP(bv, z3.Float32()) == v)
        return z3.BV2Int(bv, is_signed=(dst == "i"))
    if src in ("i", "I") and dst == "f":
        bv = z3.Int2BV(v, 32) if z3.is_int(v) else v
        return z3.fpBVToFP(bv, z3.Float32())
    raise OutsideSubset("struct reinterpretation %s->%s" % (src, dst))


@external("struct.pack")
def x_pack(I, args, kw, node):
    return StructModel(args[0]).m_pack(I, *args[1:])


@external("struct.unpack")
def x_unpack(I, args, kw, node):
    return StructModel(args[0]).m_unpack(I, args[1])


@external("bisect.bisect_left")
def x_bisect_left(I, args, kw, node):
    return _bisect(I, args, node, True)


@external("bisect.bisect_right", "bisect.bisect")
def x_bisect_right(I, args, kw, node):
    return _bisect(I, args, node, False)


def _bisect(I, args, node, left):
    """Library contract (class A): for a sorted sequence a, returns i with
    all(a[:i] < x) and all(a[i:] >= x)   (left)   /  <= and >  (right)."""
    import bisect
    a, x = args[0], args[1]
    items = None
    if isinstance(a, PyList):
        items = a.items
    elif isinstance(a, (tuple, list)):
        items = list(a)
    if items is not None and all(is_concrete(v) for v in items):
        if is_concrete(x):
            return (bisect.bisect_left if left else bisect.bisect_right)(items, x)
        x = to_z3(x)
        # number of elements < x (<= x): exact for a concrete sorted table
        if list(items) != sorted(items):
            raise OutsideSubset("bisect on unsorted concrete table", node)
        tot = z3.IntVal(0)
        parts = []
        for v in items:
            parts.append(z3.If((to_z3(v, x) < x) if left else (to_z3(v, x) <= x), 1, 0))
        return z3.Sum(parts) if parts else tot
    if isinstance(a, SymList):
        x = to_z3(x)
        i = z3.Int(I.fresh_name("bis"))
        j = z3.Int(I.fresh_name("j"))
        I.notes.add("assume:bisect contract (sortedness of the argument is an obligation)")
        k = z3.Int(I.fresh_name("k"))
        I.oblige("call-pre", "bisect-sorted", z3.ForAll([j, k], z3.Implies(z3.And(0 <= j, j < k, k < a.n),
                                                                             z3.Select(a.arr, j) <= z3.Select(a.arr, k))))
        I.assume(z3.And(i >= 0, i <= a.n))
        if left:
            I.assume(z3.ForAll([j], z3.Implies(z3.And(0 <= j, j < i), z3.Select(a.arr, j) < x)))
            I.assume(z3.ForAll([j], z3.Implies(z3.And(i <= j, j < a.n), z3.Select(a.arr, j) >= x)))
        else:
            I.assume(z3.ForAll([j], z3.Implies(z3.And(0 <= j, j < i), z3.Select(a.arr, j) <= x)))
            I.assume(z3.ForAll([j], z3.Implies(z3.And(i <= j, j < a.n), z3.Select(a.arr, j) > x)))
        return i
    if isinstance(a, Abstract) and hasattr(a, "bisect"):
        return a.bisect(I, x, left)
    raise OutsideSubset("bisect on %r" % (a,), node)


@external("array.array")
def x_array(I, args, kw, node):
    tc = args[0]
    if len(args) == 1:
        return PyList([])  # typecode dropped: overflow checks are modelled where a contract needs them
    v = args[1]
    if isinstance(v, PyList):
        return PyList(list(v.items))
    if isinstance(v, (list, tuple)):
        return PyList(list(v))
    if isinstance(v, SymList):
        return SymList(v.arr, v.n, "array")
    return PyList(I.iterate(v, node))


@external("sys.version_info")
def x_version_info(I, args, kw, node):
    raise OutsideSubset("sys.version_info call", node)


# ------------------------------------------------------------- native methods

def native_method(I, recv, name, args, kwargs, node):
    if isinstance(recv, PyList):
        it = recv.items
        if name == "append":
            it.append(args[0])
            return None
        if name == "extend":
            it.extend(I.iterate(args[0], node))
            return None
        if name == "pop":
            if not it:
                I.raise_builtin("IndexError", node)
            if args:
                ci = concrete_int(args[0])
                if ci is None:
                    raise OutsideSubset("pop at symbolic index", node)
                return it.pop(ci)
            return it.pop()
        if name == "insert":
            ci = concrete_int(args[0])
            if ci is None:
                raise OutsideSubset("insert at symbolic index", node)
            it.insert(ci, args[1])
            return None
        if name == "reverse":
            it.reverse()
            return None
        if name == "index" and all(is_concrete(x) for x in it) and is_concrete(args[0]):
            try:
                return it.index(args[0])
            except ValueError:
                I.raise_builtin("ValueError", node)
        if name == "sort" and all(is_concrete(x) for x in it) and not kwargs:
            it.sort()
            return None
        if name == "__getitem__":
            return I.getitem(recv, args[0], node)
        if name == "copy":
            return PyList(list(it))
        if name == "tobytes" or name == "tostring":
            return Opaque("array bytes")
        if name == "count" and all(is_concrete(x) for x in it) and is_concrete(args[0]):
            return it.count(args[0])
    if isinstance(recv, PyDict):
        d = recv.d
        if name == "get":
            k = args[0]
            dflt = args[1] if len(args) > 1 else None
            if is_concrete(k) or isinstance(k, (Builtin, ClassRef, ExternalRef)):
                return d.get(k, dflt)
        if name == "keys":
            return PyList(list(d.keys()))
        if name == "values":
            return PyList(list(d.values()))
        if name == "items":
            return PyList(list(d.items()))
        if name == "pop" and is_concrete(args[0]):
            if args[0] in d:
                return d.pop(args[0])
            if len(args) > 1:
                return args[1]
            I.raise_builtin("KeyError", node)
        if name == "setdefault" and is_concrete(args[0]):
            return d.setdefault(args[0], args[1] if len(args) > 1 else None)
        if name == "update" and isinstance(args[0], PyDict):
            d.update(args[0].d)
            return None
        if name == "copy":
            return PyDict(dict(d))
        if name == "__getitem__":
            return I.getitem(recv, args[0], node)
    if isinstance(recv, PySet):
        if name == "add":
            if all(is_concrete(x) for x in recv.items) and is_concrete(args[0]):
                if args[0] not in recv.items:
                    recv.items.append(args[0])
                return None
    if isinstance(recv, (str, bytes, tuple, int, float)):
        if all(is_concrete(a) for a in args) and all(is_concrete(v) for v in kwargs.values()):
            try:
                r = getattr(recv, name)(*args, **kwargs)
            except AttributeError:
                I.raise_builtin("AttributeError", node)
            except Exception as e:
                I.raise_builtin(type(e).__name__, node)
            if isinstance(r, list):
                return PyList(r)
            return r
        if isinstance(recv, str) and name in ("join", "format"):
            return Opaque("string")
    if isinstance(recv, SymList):
        if name == "append":
            v = args[0]
            recv.arr = z3.Store(recv.arr, recv.n, to_z3(v) if not is_z3(v) else v)
            recv.n = recv.n + 1
            return None
        if name == "extend" and isinstance(args[0], SymList):
            # in-place concatenation with a list of symbolic length: existing elements kept, the new ones follow
            xs = args[0]
            new = z3.Array(I.fresh_name("ext"), z3.IntSort(), recv.arr.sort().range())
            k = z3.Int(I.fresh_name("k"))
            I.assume(z3.ForAll([k], z3.Implies(z3.And(0 <= k, k < recv.n), z3.Select(new, k) == z3.Select(recv.arr, k))))
            I.assume(z3.ForAll([k], z3.Implies(z3.And(recv.n <= k, k < recv.n + xs.n), z3.Select(new, k) == z3.Select(xs.arr, k - recv.n))))
            recv.arr = new
            recv.n = recv.n + xs.n
            return None
        if name == "insert":
            # list.insert(pos, v) at a symbolic position.  CPython clamps an out-of-range position instead of raising;
            # the model covers 0 <= pos <= len only and makes that an obligation (fails closed otherwise).
            pos = to_z3(args[0])
            v = args[1]
            v = to_z3(v) if not is_z3(v) else v
            I.oblige("call-pre", "insert-position-in-range", z3.And(pos >= 0, pos <= recv.n))
            new = z3.Array(I.fresh_name("ins"), z3.IntSort(), recv.arr.sort().range())
            k = z3.Int(I.fresh_name("k"))
            I.assume(z3.ForAll([k], z3.Implies(z3.And(0 <= k, k < pos), z3.Select(new, k) == z3.Select(recv.arr, k))))
            I.assume(z3.Select(new, pos) == v)
            I.assume(z3.ForAll([k], z3.Implies(z3.And(pos < k, k <= recv.n), z3.Select(new, k) == z3.Select(recv.arr, k - 1))))
            recv.arr = new
            recv.n = recv.n + 1
            return None
        if name == "pop" and len(args) == 1:
            pos = to_z3(args[0])
            if not I.decide(z3.And(pos >= -recv.n, pos < recv.n), "pop-index-in-bounds"):
                I.raise_builtin("IndexError", node)
            I.oblige("call-pre", "pop-position-non-negative", pos >= 0)   # negative positions are not modelled
            out = z3.Select(recv.arr, pos)
            new = z3.Array(I.fresh_name("pop"), z3.IntSort(), recv.arr.sort().range())
            k = z3.Int(I.fresh_name("k"))
            I.assume(z3.ForAll([k], z3.Implies(z3.And(0 <= k, k < pos), z3.Select(new, k) == z3.Select(recv.arr, k))))
            I.assume(z3.ForAll([k], z3.Implies(z3.And(pos <= k, k < recv.n - 1), z3.Select(new, k) == z3.Select(recv.arr, k + 1))))
            recv.arr = new
            recv.n = recv.n - 1
            return out
        if name == "__getitem__":
            return I.getitem(recv, args[0], node)
    raise OutsideSubset("method %s of %s" % (name, type(recv).__name__), node)


# ------------------------------------------------------------ spec functions

@specfn("implies")
def s_implies(I, a, b):
    a, b = I.truth(a), I.truth(b)
    if isinstance(a, bool):
        return b if a else True
    if isinstance(b, bool):
        return True if b else z3.Not(a)
    return z3.Implies(a, b)


@specfn("iff")
def s_iff(I, a, b):
    a, b = I.truth(a), I.truth(b)
    return to_z3(a) == to_z3(b)


def _quant(I, lam, q, sorts):
    if not isinstance(lam, Closure) or not isinstance(lam.node, ast.Lambda):
        raise CheckerError("forall/exists needs a lambda")
    params = [p.arg for p in lam.node.args.args]
    vs = []
    for i, p in enumerate(params):
        srt = sorts[i] if i < len(sorts) else "int"
        nm = I.fresh_name(p)
        if srt == "int":
            vs.append(z3.BitVec(nm, I.int_mode) if I.int_mode else z3.Int(nm))
        elif srt == "real":
            vs.append(z3.Real(nm))
        elif isinstance(srt, z3.SortRef):
            vs.append(z3.Const(nm, srt))
        else:
            raise CheckerError("bad quantifier sort %r" % (srt,))
    body = I.truth(I.call_closure(lam, vs, {}))
    if isinstance(body, bool):
        return body
    return q(vs, body)


@specfn("forall")
def s_forall(I, lam, *sorts):
    return _quant(I, lam, z3.ForAll, sorts)


@specfn("exists")
def s_exists(I, lam, *sorts):
    return _quant(I, lam, z3.Exists, sorts)


@specfn("ite")
def s_ite(I, c, a, b):
    return I.ite(I.truth(c), a, b)


@specfn("old")
def s_old(I, *a):
    raise CheckerError("old() is handled syntactically")


@specfn("is_none")
def s_is_none(I, v):
    return I.identical(v, None)


@specfn("real")
def s_real(I, v):
    v = to_z3(v)
    return z3.ToReal(v) if z3.is_int(v) else v


@specfn("pow2")
def s_pow2(I, v):
    c = concrete_int(v)
    if c is not None:
        return 1 << c
    return I.spec_pow2(to_z3(v))


@specfn("div")
def s_div(I, a, b):
    return to_z3(a) / to_z3(b)


@specfn("mod")
def s_mod(I, a, b):
    return to_z3(a) % to_z3(b)


@specfn("fp_isnan")
def s_fp_isnan(I, x):
    return z3.fpIsNaN(x)


@specfn("fp_iszero")
def s_fp_iszero(I, x):
    return z3.fpIsZero(x)


@specfn("fp_lt")
def s_fp_lt(I, x, y):
    return z3.fpLT(x, y)


@specfn("fp_le")
def s_fp_le(I, x, y):
    return z3.fpLEQ(x, y)


@specfn("fp_eq")
def s_fp_eq(I, x, y):
    return z3.fpEQ(x, y)


@specfn("fp_same")
def s_fp_same(I, x, y):
    return x == y


@specfn("fp_sign_nonneg")
def s_fp_sign_nonneg(I, x):
    return z3.Not(z3.fpIsNegative(x))


@specfn("packed")
def s_packed(I, fmt, *vals):
    return PackedBytes(fmt, vals)


class Rec(Abstract):
    """Immutable record standing for an external value (timedelta, datetime)."""

    def __init__(self, kind, **fields):
        self.kind = kind
        self.f = fields

    def havoc(self, I):
        pass

    def getattr(self, I, name, node=None):
        if name in self.f:
            return self.f[name]
        raise OutsideSubset("attribute %s of external %s value is not modelled" % (name, self.kind), node)

    def binop(self, I, op, other, reflected):
        if isinstance(op, ast.Add) and isinstance(other, Rec) and {self.kind, other.kind} == {"datetime.min", "timedelta"}:
            td = other if other.kind == "timedelta" else self
            return Rec("datetime", since_min=td)
        if isinstance(op, ast.Sub) and not reflected and self.kind == "datetime" and isinstance(other, Rec) \
                and other.kind == "datetime.min":
            return self.f["since_min"]
        raise OutsideSubset("operation on %s" % self.kind)


@external("datetime.timedelta")
def x_timedelta(I, args, kw, node):
    if args:
        raise OutsideSubset("positional timedelta args", node)
    I.notes.add("assume:datetime.timedelta(days,seconds,microseconds) keeps already-normalised fields unchanged (class A)")
    return Rec("timedelta", days=kw.get("days", 0), seconds=kw.get("seconds", 0), microseconds=kw.get("microseconds", 0))


import math as _math
EXTERNALS_ATTR = {"datetime.datetime.min": lambda: Rec("datetime.min"), "math.pi": lambda: _math.pi,
                  # Linux values of the flag constants the file lock uses (class A: only their distinctness matters)
                  "os.O_CREAT": lambda: 64, "os.O_WRONLY": lambda: 1, "fcntl.LOCK_EX": lambda: 2, "fcntl.LOCK_NB": lambda: 4,
                  "fcntl.LOCK_UN": lambda: 8, "errno.EAGAIN": lambda: 11, "errno.EACCES": lambda: 13}


@external("copy.copy")
def x_copy_copy(I, args, kw, node):
    """shallow copy of an object of a repository class that does not define __copy__: a NEW object with the same fields
    (field values shared, as in CPython); anything else is outside the subset"""
    v = args[0]
    if isinstance(v, Obj) and not v.cls.find_method("__copy__") and not v.cls.find_method("__reduce__") \
            and not v.cls.find_method("__getstate__"):
        return Obj(v.cls, dict(v.fields))
    raise OutsideSubset("copy.copy of %r" % (v,), node)


@external("sys.exc_info")
def x_exc_info(I, args, kw, node):
    h = getattr(I, "handling", None)
    if h is None:
        return (None, None, None)
    return (None, h.exc, None)
