"""Sidecar contract objects and the registry that holds them."""
from .extract import _Keep


class LoopSpec(_Keep):
    def __init__(self, inv, havoc=(), concrete=None, index=None, modifies=(), label=None, havoc_as=None):
        self.inv = list(inv)            # spec expression strings
        self.havoc = list(havoc)        # extra local names to havoc
        self.modifies = list(modifies)  # lvalue expression strings (objects / fields) to havoc
        self.concrete = concrete        # {name: fn(env)->iterable of concrete values}
        self.index = index              # name of ghost index for `for` loops
        self.label = label
        self.havoc_as = dict(havoc_as or {})   # {name: fn(interp)->value}: shape of a local at an arbitrary iteration
                                               # when it differs from its shape at loop entry (e.g. None -> list)


class Canary(_Keep):
    def __init__(self, name, old, new, count=1, expect=None):
        self.name = name
        self.old = old
        self.new = new
        self.count = count
        self.expect = expect   # optional: substring of an obligation id expected to fail


class Contract(_Keep):
    """Contract of one real function, keyed 'pkg.mod:Qual.name'.

    setup(interp) -> dict of parameter values (symbolic); only needed for
        functions verified themselves (not for call-site-only contracts).
    requires / ensures: spec expression strings over the parameters, `result`,
        `old(e)`, ghost functions.
    modifies: lvalue strings; objects named here are havoc'd at call sites.
    returns: None | 'int' | 'real' | 'bool' | 'opaque' | callable(interp, env)->value
    raises: {exception class name: condition string over the pre-state};
        anything else escaping the body is a `no-raise` obligation failure.
    loops: {ordinal: LoopSpec}
    ghost: spec statements (python source) run at entry after setup (ghost vars)
    on_yield: spec statements run at each `yield` with `_y` bound to the value
    props: property ids this contract serves
    inline: callers inline the body instead of using the contract
    variants: list of dicts merged into setup kwargs -> one verification each
    """

    def __init__(self, key, props=(), setup=None, requires=(), ensures=(), modifies=(),
                 returns=None, raises=None, loops=None, ghost=None, on_yield=None,
                 inline=False, variants=None, canaries=(), replay=None, int_mode=None,
                 verify=True, assumptions=(), note="", spec_funcs=None, inline_callees=(),
                 ensures_on_raise=None, max_paths=4000, label=None, known_extra=None, harness=None, cost=1, canary_variants=2, native_fallback=None, timeout_ms=None, externals=None, effect=None, opts=None, cover_hint=None):
        self.key = key
        self.props = list(props)
        self.setup = setup
        self.requires = list(requires)
        self.ensures = list(ensures)
        self.modifies = list(modifies)
        self.returns = returns
        self.raises = dict(raises or {})
        self.loops = dict(loops or {})
        self.ghost = ghost
        self.on_yield = on_yield
        self.inline = inline
        self.variants = variants
        self.canaries = list(canaries)
        self.replay = replay
        self.int_mode = int_mode
        self.verify = verify
        self.assumptions = list(assumptions)
        self.note = note
        self.spec_funcs = dict(spec_funcs or {})
        self.inline_callees = list(inline_callees)
        self.ensures_on_raise = ensures_on_raise
        self.max_paths = max_paths
        self.label = label or key
        self.known_extra = known_extra
        self.harness = harness
        self.cost = cost
        self.native_fallback = native_fallback
        self.timeout_ms = timeout_ms
        self.externals = dict(externals or {})
        self.effect = effect
        self.canary_variants = canary_variants
        self.opts = dict(opts or {})
        self.cover_hint = cover_hint      # fn(I, env) -> extra constraints describing ONE concrete pre-state (cover query only)


class Registry(object):
    def __init__(self):
        self.contracts = {}     # label -> Contract (verification units)
        self.by_key = {}        # function key -> Contract used at call sites
        self.lemmas = {}
        self.bounded = {}
        self.shape_checks = {}

    def add(self, c):
        if c.label in self.contracts:
            raise ValueError("duplicate contract %s" % c.label)
        self.contracts[c.label] = c
        from . import builtins as _B
        for k, v in c.spec_funcs.items():
            _B.SPEC_FUNCS.setdefault(k, v)
        # the first contract registered for a key is the call-site contract
        if c.harness is None:
            self.by_key.setdefault(c.key, c)
        return c

    def contract(self, key, **kw):
        return self.add(Contract(key, **kw))

    def lemma(self, name, props, fn, note=""):
        """fn() -> list of (label, z3 formula that must be VALID)"""
        self.lemmas[name] = (list(props), fn, note)

    def bounded_check(self, name, props, fn, bound, note=""):
        """fn(tier, seed) -> dict(cases=int, failures=[...])  (class B)"""
        self.bounded[name] = (list(props), fn, bound, note)

    def for_key(self, key):
        return self.by_key.get(key)
