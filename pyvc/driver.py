"""Check driver: runs every verification unit of a property, compares with the
known-findings file, replays counterexamples natively, writes evidence."""
import hashlib
import importlib
import json
import multiprocessing
import os
import subprocess
import sys
import time
import traceback

import z3

from .extract import Repo, REPO_SRC
from .contract import Registry
from . import verify, solve

ROOT = os.path.dirname(os.path.dirname(os.path.abspath(__file__)))
NATIVE_PY = "/venv/bin/python"

CONTRACT_MODULES = ["numeric", "matchers", "wrappers", "scoring", "varints", "paging", "collectors", "commit", "tocfiles", "columns", "layout", "multimatcher", "postings", "editdistance", "leafmatcher", "listmatcher", "perdoc", "bitsets", "sortedset", "termrange", "iterdocs", "filelock", "termreplace", "openreader", "deletedoc", "freshness", "mpcancel", "bounded_matchers", "rewrite"]

TRUSTED_BASE = [
    "T1 pyvc: the ast->SMT encoding of the Python subset (DESIGN 2.3); mitigated by canaries on every run",
    "T2 z3 5.1.0 (python API) and cvc5 1.0.3 (CLI fallback on unknown)",
    "T3 CPython's ast module (parsing /repo/src)",
    "T4 library contracts (class A): struct, bisect, array, heapq, sorted, pickle, zlib, os.rename/remove, flock",
    "T5 no aliasing between distinct child matchers/column writers/segments unless a contract says so",
    "T6 float arithmetic in scoring formulas treated as real arithmetic (exact IEEE only where FP sorts are used)",
    "T7 partial correctness: termination is not proved",
    "T8 dynamic features outside the subset stop the run (OUTSIDE-SUBSET), they are never skipped silently",
]

_G = {}


def load_registry(tier):
    R = Registry()
    mods = []
    for name in CONTRACT_MODULES:
        m = importlib.import_module("contracts." + name)
        m.register(R, tier)
        mods.append(m)
    return R


def _units(R, prop):
    out = []
    for lab, c in R.contracts.items():
        if not c.verify:
            continue
        if prop != "all" and prop not in c.props:
            continue
        for i, v in enumerate(c.variants or [None]):
            out.append(("contract", lab, v, i))
    for name, (props, fn, note) in R.lemmas.items():
        if prop == "all" or prop in props:
            out.append(("lemma", name, None, 0))
    out.sort(key=lambda u: -(R.contracts[u[1]].cost * (1 + u[3]) if u[0] == "contract" else 0))
    return out


def _run_unit(u):
    kind, lab, variant, vidx = u
    R = _G["R"]
    repo = Repo()
    tmo = _G["timeout_ms"]
    try:
        if kind == "contract":
            c = R.contracts[lab]
            return verify.verify_unit(repo, R, c, variant, timeout_ms=tmo,
                                      canaries=_G["canaries"] and vidx < c.canary_variants)
        props, fn, note = R.lemmas[lab]
        t0 = time.time()
        obl = {}
        for label, formula in fn():
            r = solve.check_valid([], formula, tmo)
            oid = "lemma:%s/lemma[%s]" % (lab, label)
            obl[oid] = {"id": oid, "kind": "lemma", "paths": 1, "result": r["result"], "seconds": r["seconds"],
                        "solver": r["solver"], "model": r["model"], "line": None, "note": note, "trivial": 0}
        return verify.UnitResult(label="lemma:" + lab, key="lemma:" + lab, variant="", props=props, status="ok",
                                 obligations=obl, canaries=[], error=None, sha="", paths=1, cover="none",
                                 notes=[], wall_s=round(time.time() - t0, 3), file="", lines=(0, 0))
    except Exception as e:  # pragma: no cover
        return verify.UnitResult(label=lab, key=lab, variant=str(variant), props=[], status="checker-error",
                                 obligations={}, canaries=[], error=traceback.format_exc()[-2000:], wall_s=0)


def load_known():
    p = os.path.join(ROOT, "known_findings.json")
    if not os.path.exists(p):
        return []
    with open(p) as f:
        return json.load(f).get("findings", [])


def match_known(oid, prop, known):
    for k in known:
        if k.get("status") != "known" or k.get("property") != prop or k.get("bounded") or k.get("shape"):
            continue
        pat = k.get("obligation", "")
        if pat.endswith("*"):
            if oid.startswith(pat[:-1]):
                return k
        elif oid == pat:
            return k
    return None


def native_run(snippet, timeout=120):
    env = dict(os.environ)
    env["PYTHONPATH"] = REPO_SRC
    env["PYTHONWARNINGS"] = "ignore"
    import tempfile, shutil
    tmpd = tempfile.mkdtemp(prefix="pyvc_native_")
    env["TMPDIR"] = tmpd      # whoosh's RamStorage temp files collide between concurrent processes otherwise
    try:
        p = subprocess.run([NATIVE_PY, "-W", "ignore", "-c", snippet], capture_output=True, text=True,
                           timeout=timeout, env=env, cwd=tmpd)
        return p.returncode, (p.stdout + p.stderr)[-1500:]
    except subprocess.TimeoutExpired:
        return -1, "timeout"
    finally:
        shutil.rmtree(tmpd, ignore_errors=True)


def make_replay(prop, unit, rec, R):
    """Write replay/<file>.json for a failed obligation; returns (path, reproduced)."""
    os.makedirs(os.path.join(ROOT, "replay"), exist_ok=True)
    oid = rec["id"]
    h = hashlib.sha1(oid.encode()).hexdigest()[:10]
    rel = "replay/%s_%s.json" % (prop, h)
    c = R.contracts.get(unit["label"].split("{")[0])
    snippet = None
    native = None
    reproduced = False
    if rec.get("native_snippet"):
        snippet = rec["native_snippet"]
        code, out = native_run(snippet, timeout=300)
        native = {"exit": code, "output": out}
        reproduced = code == 1
    elif c is not None and c.replay is not None and rec.get("model"):
        try:
            snippet = c.replay(rec["model"], unit, rec)
        except Exception as e:
            snippet = None
            native = {"error": "concretiser failed: %s" % e}
        if snippet:
            code, out = native_run(snippet)
            native = {"exit": code, "output": out}
            reproduced = code == 1
    doc = {"property": prop, "obligation": oid, "function": unit.get("key"), "file": unit.get("file"),
           "lines": unit.get("lines"), "function_sha": unit.get("sha"), "failed_at_line": rec.get("line"),
           "clause": rec.get("note"), "solver": rec.get("solver"), "solver_result": rec.get("result"),
           "model": rec.get("model"), "snippet": snippet, "native": native, "reproduced": reproduced,
           "how_to_rerun": "python3-vt bin/check --replay %s" % rel}
    with open(os.path.join(ROOT, rel), "w") as f:
        json.dump(doc, f, indent=1, default=str)
    return rel, reproduced


def run_check(prop, tier="quick", only=None, jobs=None, canaries=True, verbose=False):
    t0 = time.time()
    seed = int(os.environ.get("VERIF_SEED", "0") or 0)
    R = load_registry(tier)
    units = _units(R, prop)
    if only:
        units = [u for u in units if only in u[1]]
    _G["R"] = R
    _G["timeout_ms"] = 20000 if tier == "quick" else 60000
    _G["canaries"] = canaries
    from . import solve as _solve
    _solve.CROSS["on"] = (tier == "thorough")     # inherited by the forked workers
    jobs = jobs or min(16, os.cpu_count() or 4)
    results = []
    if jobs > 1 and len(units) > 1:
        ctx = multiprocessing.get_context("fork")
        with ctx.Pool(jobs) as pool:
            for r in pool.imap_unordered(_run_unit, units, chunksize=1):
                results.append(r)
    else:
        for u in units:
            results.append(_run_unit(u))
    results.sort(key=lambda r: r["label"])
    # bounded stand-ins (class B) run natively
    bounded = []
    for name, (props, fn, bound, note) in R.bounded.items():
        if (prop == "all" or prop in props) and (not only or only in name):
            tb = time.time()
            try:
                out = fn(tier, seed)
            except Exception as e:
                out = {"cases": 0, "failures": [], "error": traceback.format_exc()[-1500:]}
            out.update({"name": name, "bound": bound, "note": note, "seconds": round(time.time() - tb, 2)})
            bounded.append(out)
    for name, (props, fn, note) in R.shape_checks.items():
        if (prop == "all" or prop in props) and (not only or only in name):
            tb = time.time()
            try:
                out = fn(tier, seed)
            except Exception as e:
                out = {"obligations": 0, "discharged": 0, "failures": [], "error": traceback.format_exc()[-1500:]}
            out.update({"name": name, "note": note, "shape_check": True, "seconds": round(time.time() - tb, 2)})
            bounded.append(out)
    return R, results, bounded, time.time() - t0


def summarise(prop, tier, R, results, bounded, wall, write=True, verbose=False):
    known = load_known()
    seed = int(os.environ.get("VERIF_SEED", "0") or 0)
    lines = []
    violations = []
    known_hits = {}
    undecided = []
    errors = []
    n_obl = n_dis = 0
    per_vc = []
    funcs = []
    can_total = can_killed = 0
    can_by = {}
    solver_s = 0.0
    notes = set()
    covers = 0
    fallback_runs = []
    known_shape = []
    cross = {"unsat": 0, "unknown": 0, "sat": 0}
    cross_disagree = []
    for r in results:
        if r["status"] == "checker-error":
            errors.append((r["label"], r["error"]))
            continue
        if r["status"] in ("missing", "outside-subset"):
            c0 = R.contracts.get(r["label"].split("{")[0])
            fb = getattr(c0, "native_fallback", None) if c0 is not None else None
            if r["status"] == "outside-subset" and fb:
                # bounded stand-in (class B) for a function that left the verified subset
                code_fb, out_fb = native_run(fb, timeout=300)
                fallback_runs.append({"unit": r["label"], "exit": code_fb, "reason": r["error"]})
                if code_fb == 1:
                    rec = {"id": "%s/bounded-fallback[native]" % r["label"], "kind": "bounded-fallback", "result": "failed",
                           "solver": "native bounded stand-in", "model": None, "line": None, "seconds": 0.0,
                           "note": "function left the verified subset (%s); bounded native check of its contract failed: %s"
                                   % (r["error"], out_fb[-400:]), "native_snippet": fb}
                    n_obl += 1
                    violations.append((r, rec))
                    continue
            undecided.append((r["label"], r["error"]))
            continue
        if r.get("cover") == "sat":
            covers += 1
        funcs.append({"unit": r["label"], "function": r["key"], "sha": r.get("sha"), "paths": r.get("paths"),
                      "vcs": len(r["obligations"]), "seconds": r.get("wall_s")})
        notes |= set(r.get("notes") or [])
        for oid, rec in sorted(r["obligations"].items()):
            solver_s += rec["seconds"]
            for k_, v_ in (rec.get("cross") or {}).items():
                cross[k_] += v_
                if k_ == "sat" and v_:
                    cross_disagree.append(oid)
            if rec["result"] == "unsat":
                n_obl += 1
                n_dis += 1
                per_vc.append([oid, rec["solver"], "unsat", rec["seconds"]])
                continue
            k = match_known(oid, prop, known)
            if k is not None:
                known_hits.setdefault(k["obligation"], (k, []))[1].append(oid)
                per_vc.append([oid, rec["solver"], rec["result"] + " (known finding)", rec["seconds"]])
                continue
            n_obl += 1
            per_vc.append([oid, rec["solver"], rec["result"], rec["seconds"]])
            violations.append((r, rec))
        for c in r["canaries"]:
            key = (r["key"], c["name"])
            cur = can_by.get(key, {"killed": False, "by": None, "error": None})
            if c["killed"]:
                cur["killed"] = True
                cur["by"] = c["by"]
            if c["error"]:
                cur["error"] = c["error"]
            if c.get("skipped"):
                cur["skipped"] = True
            can_by[key] = cur
    shape_samples = []
    for b in bounded:
        if b.get("error"):
            errors.append((b["name"], b["error"]))
        if b.get("shape_check"):
            kfs = [k for k in known if k.get("status") == "known" and k.get("property") == prop and k.get("shape") == b["name"]]
            real_fail = []
            fam_known = 0
            for famname, fam in sorted((b.get("families") or {}).items()):
                kk = []
                for part in famname.split("+"):
                    kk.append([k for k in known if k.get("status") == "known" and k.get("property") == prop
                               and k.get("shape") == b["name"] and k.get("family") == part])
                if all(kk):
                    kk = [dict(kk[0][0], what=" AND ".join(x[0]["what"] for x in kk), family=famname)]
                    known_shape.append((dict(kk[0], input="%d shapes, e.g. %s" % (fam["count"], json.dumps(fam["example"]["in"]))), fam))
                    fam_known += fam["count"]
                else:
                    real_fail.append({"id": "shape-family:" + famname, "what": "%d shapes differ, explained only by reading(s) %s "
                                      "which are not recorded as known findings" % (fam["count"], famname),
                                      "in": fam["example"]["in"], "out": fam["example"]["out"]})
            for f in b.get("failures", []):
                hit = None
                for k in kfs:
                    if json.dumps(f.get("in"), sort_keys=True) == json.dumps(k.get("input"), sort_keys=True):
                        hit = k
                if hit is not None:
                    known_shape.append((hit, f))
                else:
                    real_fail.append(f)
            n_obl += b.get("discharged", 0) + len(real_fail)
            n_dis += b.get("discharged", 0)
            solver_s += b.get("solver_seconds", 0.0)
            shape_samples.extend(b.get("samples", []))
            b["failures"] = []
            b["shape_failures"] = real_fail
    surviving = []
    can_skipped = []
    for key, c in sorted(can_by.items()):
        if c.get("skipped") and not c["killed"]:
            can_skipped.append("%s:%s" % (key[0], key[1]))
            continue
        can_total += 1
        if c["killed"]:
            can_killed += 1
        else:
            surviving.append("%s:%s%s" % (key[0], key[1], " (%s)" % c["error"] if c["error"] else ""))
    out_lines = []
    # known findings: print once per entry, replay witness
    kf_printed = []
    for pat, (k, oids) in sorted(known_hits.items()):
        wit = None
        if k.get("witness"):
            try:
                with open(os.path.join(ROOT, k["witness"])) as wf:
                    code, out = native_run(wf.read())
                wit = {"script": k["witness"], "exit": code, "reproduces": code == 1}
            except Exception as e:
                wit = {"script": k["witness"], "error": str(e)}
        out_lines.append("KNOWN-FINDING: property=%s %s [obligation %s]%s" % (
            prop, k["what"], pat, "" if not wit else " witness %s %s" % (
                k["witness"], "reproduces" if wit.get("reproduces") else "does NOT reproduce any more")))
        kf_printed.append({"obligation": pat, "what": k["what"], "failing_now": len(oids), "witness": wit})
    for k in known:
        if k.get("status") == "known" and k.get("property") == prop and not k.get("bounded") and not k.get("shape") \
                and k.get("obligation") and k.get("obligation") not in known_hits:
            out_lines.append("NOTE: known finding no longer observed (stale entry): %s" % k["obligation"])
    # findings identified by a witness input only (behaviour no registered contract or harness family covers): the witness
    # script is replayed on every run against the tree under check; exit 1 = still reproduces
    wonly = [k for k in known if k.get("status") == "known" and k.get("property") == prop and k.get("kind") == "witness"]
    if wonly:
        from concurrent.futures import ThreadPoolExecutor

        def _runw(k):
            try:
                with open(os.path.join(ROOT, k["witness"])) as wf:
                    return native_run(wf.read(), timeout=60)
            except Exception as e:
                return -2, str(e)
        with ThreadPoolExecutor(8) as ex:
            outs = list(ex.map(_runw, wonly))
        for k, (code, out) in zip(wonly, outs):
            if code == 1:
                out_lines.append("KNOWN-FINDING: property=%s %s [witness %s reproduces]" % (prop, k["what"], k["witness"]))
                kf_printed.append({"witness_only": k["witness"], "what": k["what"], "reproduces": True})
            elif code == 0:
                out_lines.append("NOTE: known finding no longer observed (stale entry): witness %s exits 0" % k["witness"])
            else:
                out_lines.append("NOTE: witness %s of a known finding could not be replayed (exit %s): %s"
                                 % (k["witness"], code, out[-200:].replace("\n", " | ")))
    viol_docs = []
    seen_oid = set()
    import re as _re
    violations.sort(key=lambda t: (0 if t[1].get("model") else 1, t[1]["id"]))
    for r, rec in violations:
        gid = _re.sub(r"\{[^}]*\}", "", rec["id"])
        if gid in seen_oid:
            continue
        seen_oid.add(gid)
        rel, reproduced = make_replay(prop, r, rec, R)
        tail = "" if reproduced else " no-failing-input-found"
        out_lines.append("VIOLATION property=%s replay=%s%s" % (prop, rel, tail))
        out_lines.append("  failed obligation: %s (%s, %s) clause: %s  at %s:%s"
                         % (rec["id"], rec["result"], rec["solver"], rec.get("note"), r.get("file"), rec.get("line")))
        viol_docs.append({"obligation": rec["id"], "replay": rel, "reproduced": reproduced})
    for b in bounded:
        for f in b.get("failures", []):
            k = None
            for kk in known:
                if kk.get("status") == "known" and kk.get("property") == prop and kk.get("bounded") == b["name"] \
                        and kk.get("case") == f.get("case"):
                    k = kk
            if k is not None:
                out_lines.append("KNOWN-FINDING: property=%s %s [bounded %s case %s]" % (prop, k["what"], b["name"], f.get("case")))
                kf_printed.append({"bounded": b["name"], "case": f.get("case"), "what": k["what"]})
                continue
            os.makedirs(os.path.join(ROOT, "replay"), exist_ok=True)
            h = hashlib.sha1((b["name"] + json.dumps(f, sort_keys=True, default=str)).encode()).hexdigest()[:10]
            rel = "replay/%s_%s.json" % (prop, h)
            with open(os.path.join(ROOT, rel), "w") as fh:
                json.dump({"property": prop, "bounded_check": b["name"], "failure": f, "reproduced": True,
                           "snippet": f.get("snippet")}, fh, indent=1, default=str)
            out_lines.append("VIOLATION property=%s replay=%s" % (prop, rel))
            out_lines.append("  bounded check %s failed on case %s" % (b["name"], f.get("case")))
            viol_docs.append({"bounded": b["name"], "replay": rel, "reproduced": True})
    for k, f in known_shape:
        out_lines.append("KNOWN-FINDING: property=%s %s [shape %s]" % (prop, k["what"], json.dumps(k.get("input"))))
        kf_printed.append({"shape": k.get("shape"), "input": k.get("input"), "what": k["what"]})
    for b in bounded:
        for f in b.get("shape_failures", [])[:12]:
            os.makedirs(os.path.join(ROOT, "replay"), exist_ok=True)
            h = hashlib.sha1(json.dumps(f, sort_keys=True, default=str).encode()).hexdigest()[:10]
            rel = "replay/%s_%s.json" % (prop, h)
            with open(os.path.join(ROOT, rel), "w") as fh:
                json.dump({"property": prop, "shape_check": b["name"], "obligation": f.get("id"), "failure": f,
                           "reproduced": True, "snippet": None,
                           "note": "input tree and the real function's output are given; the SMT model is a document "
                                   "on which they differ"}, fh, indent=1, default=str)
            out_lines.append("VIOLATION property=%s replay=%s" % (prop, rel))
            out_lines.append("  shape obligation %s: %s  in=%s out=%s" % (f.get("id"), f.get("what"), json.dumps(f.get("in")), json.dumps(f.get("out"))))
            viol_docs.append({"shape": b["name"], "replay": rel, "reproduced": True})
    for lab, err in undecided:
        out_lines.append("UNDECIDED unit=%s %s" % (lab, (err or "").splitlines()[0]))
    for oid in cross_disagree:
        errors.append((oid, "z3 says unsat but cvc5 says sat on the same VC: solver disagreement, nothing is believed"))
    for lab, err in errors:
        out_lines.append("CHECKER-ERROR unit=%s %s" % (lab, err))
    if can_skipped:
        out_lines.append("NOTE canaries whose text pattern does not occur in this source (skipped): %s" % "; ".join(can_skipped))
    if surviving:
        out_lines.append("CHECKER-ERROR surviving canaries (weak contracts): %s" % "; ".join(surviving))
    if not results and not bounded:
        out_lines.append("CHECKER-ERROR no verification unit generated for %s" % prop)
    assumptions = sorted(n[7:] for n in notes if n.startswith("assume:"))
    for c in R.contracts.values():
        if prop in c.props:
            assumptions.extend(c.assumptions)
    assumptions = sorted(set(assumptions)) + TRUSTED_BASE
    inlined = sorted(n[8:] for n in notes if n.startswith("inlined:"))
    used_contracts = sorted(n[9:] for n in notes if n.startswith("contract:"))
    samples = [{"obligation": v[0], "solver": v[1], "result": v[2], "seconds": v[3]} for v in per_vc[:3]] + shape_samples[:3]
    if viol_docs:
        samples.append({"violation": viol_docs[0]})
    evidence = {
        "property_id": prop, "tier": tier, "seed": seed, "level": "proof",
        "coverage": {
            "obligations": n_obl, "discharged": n_dis,
            "checker_cmd": "python3-vt bin/check %s --tier %s" % (prop, tier),
            "trusted_base": TRUSTED_BASE,
            "explanation": "obligations = VCs generated from /repo's current source by pyvc (grouped per "
                           "function/kind/clause over all paths) excluding those listed as known findings; "
                           "discharged = proved unsat (negated) by z3/cvc5 with no bound.",
            "functions_under_contract": funcs,
            "inlined_callees": inlined, "callee_contracts_used": used_contracts,
            "per_vc": per_vc if len(per_vc) <= 400 else per_vc[:400] + [["... %d more" % (len(per_vc) - 400)]],
            "solver_seconds_total": round(solver_s, 2),
            "cvc5_cross_check": ({"vcs_z3_unsat_also_given_to_cvc5": sum(cross.values()), "cvc5_unsat": cross["unsat"],
                                  "cvc5_unknown_or_timeout": cross["unknown"], "cvc5_sat_DISAGREEMENT": cross_disagree}
                                 if tier == "thorough" else "thorough tier only"),
            "canaries": {"killed": can_killed, "total": can_total, "surviving": surviving,
                         "skipped_pattern_absent": can_skipped},
            "covers_sat": covers,
            "bounded": [{k: v for k, v in b.items() if k != "failures"} | {"failures": len(b.get("failures", []))}
                        for b in bounded],
            "known_findings_printed": kf_printed,
            "undecided_units": [u[0] for u in undecided],
            "bounded_fallback_runs": fallback_runs,
            "samples": samples,
        },
        "assumptions": assumptions,
        "wall_s": round(wall, 2),
        "violations": len(viol_docs),
    }
    evidence["coverage"]["failed_obligations"] = sorted(set(rec["id"] for _, rec in violations))[:200]
    claimed = None
    try:
        with open(os.path.join(ROOT, "MANIFEST.json")) as mf:
            for c_ in json.load(mf).get("checks", []):
                if c_.get("property_id") == prop:
                    claimed = c_["level_claimed"]["category"]
    except Exception:
        pass
    if (n_obl == 0 or claimed == "exploration") and bounded:
        # nothing deductive for this property: evidence is that of a bounded exploration, labelled as such
        ev_cases = sum(int(b.get("cases", 0) or 0) for b in bounded)
        ev_distinct = sum(int(b.get("distinct_nontrivial", b.get("cases", 0)) or 0) for b in bounded)
        evidence["level"] = "exploration"
        evidence["coverage"].update({
            "evaluations": max(ev_cases, 1), "distinct_nontrivial": max(ev_distinct, 2),
            "rule": "; ".join("%s: %s" % (b["name"], b.get("rule") or b.get("bound")) for b in bounded),
            "exhaustive": False,
            "explanation": ("no deductive obligation exists for this property yet; decided by the bounded native "
                            "stand-ins only (class B, not proved)") if n_obl == 0 else
                           ("%d obligations on supporting functions are discharged (listed under functions_under_contract), "
                            "but the decisive part of this property is the bounded native stand-ins (class B, not proved)"
                            % n_dis)})
        evidence["coverage"]["samples"] = [{"bounded_check": b["name"], "bound": b["bound"], "cases": b.get("cases")} for b in bounded]
    shapes = [b for b in bounded if b.get("shape_check")]
    if shapes and (not results or claimed == "translation_validation"):
        # (function contracts of the property, if any, stay listed under functions_under_contract; the decisive part is
        # the shape-pair validation)
        evidence["level"] = "translation_validation"
        evidence["coverage"].update({
            "programs": sum(b.get("obligations", 0) for b in shapes),
            "disagreements_checked": sum(sum(f["count"] for f in (b.get("families") or {}).values()) + len(b.get("shape_failures", []))
                                         for b in shapes),
            "explanation": ("the obligations of %d function-contract units (functions_under_contract) are included in the count; " % len(results) if results else "")
                           + "each program is one (input tree, output of the real rewrite) pair; the two denotations are "
                           "proved equal by z3 for EVERY index (documents arbitrary); shapes are bounded: "
                           + "; ".join(str(b.get("bound")) for b in shapes),
            "families_of_known_disagreements": dict((k, v["count"]) for b in shapes for k, v in (b.get("families") or {}).items())})
        if not evidence["coverage"]["samples"]:
            evidence["coverage"]["samples"] = shape_samples[:3] or [{"note": "no sample"}]
    if write:
        os.makedirs(os.path.join(ROOT, "evidence"), exist_ok=True)
        with open(os.path.join(ROOT, "evidence", "%s.json" % prop), "w") as f:
            json.dump(evidence, f, indent=1, default=str)
    code = 0
    if errors or (not results and not bounded):
        code = 3
    elif viol_docs:
        code = 1
    elif surviving:
        code = 3
    elif undecided:
        # A contracted function is missing or left the verified subset on THIS tree (typically after a refactoring:
        # renamed locals, an added loop, a construct outside the subset).  Nothing is claimed proved for it.  The
        # property still "held on everything explored" when bounded stand-ins of the property ran clean, so the check
        # stays quiet (exit 0) and says what it could not decide; without any bounded stand-in it is exit 2.
        clean_bounded = [b for b in bounded if not b.get("error") and not b.get("shape_check")]
        if clean_bounded:
            out_lines.append("NOTE %d unit(s) undecided on this source; property decided by the remaining obligations and the "
                             "bounded stand-ins (%s)" % (len(undecided), ", ".join(b["name"] for b in clean_bounded)))
        else:
            code = 2
    if n_obl == 0 and code == 0 and not bounded:
        out_lines.append("CHECKER-ERROR zero obligations")
        code = 3
    out_lines.append("%s %s: %d/%d obligations discharged, %d known findings, %d violations, canaries %d/%d, "
                     "%d units, %.1fs" % (prop, tier, n_dis, n_obl, len(kf_printed), len(viol_docs), can_killed,
                                           can_total, len(results), wall))
    return code, out_lines, evidence


def replay_file(path):
    with open(path if os.path.isabs(path) else os.path.join(ROOT, path)) as f:
        doc = json.load(f)
    snip = doc.get("snippet")
    if not snip:
        print("replay file names obligation %s; no concrete input (no-failing-input-found); solver said: %s"
              % (doc.get("obligation"), doc.get("solver_result")))
        print(json.dumps(doc.get("model"), indent=1)[:2000])
        return 0
    code, out = native_run(snip)
    print(out)
    print("replay exit=%s (%s)" % (code, "violation reproduced" if code == 1 else "not reproduced"))
    return 1 if code == 1 else 0


def main(argv):
    import argparse
    ap = argparse.ArgumentParser()
    ap.add_argument("prop", nargs="?")
    ap.add_argument("--tier", default=os.environ.get("VERIF_TIER", "quick"))
    ap.add_argument("--replay")
    ap.add_argument("--only")
    ap.add_argument("--jobs", type=int)
    ap.add_argument("--no-canaries", action="store_true")
    ap.add_argument("--no-write", action="store_true")
    ap.add_argument("-v", action="store_true")
    a = ap.parse_args(argv)
    if a.replay:
        return replay_file(a.replay)
    if a.tier not in ("quick", "thorough"):
        a.tier = "quick"
    try:
        R, results, bounded, wall = run_check(a.prop, a.tier, a.only, a.jobs, not a.no_canaries, a.v)
        code, lines, ev = summarise(a.prop, a.tier, R, results, bounded, wall, write=not a.no_write and not a.only)
    except Exception:
        traceback.print_exc()
        print("CHECKER-ERROR driver crashed")
        return 3
    if a.v:
        for r in results:
            bad = [o for o, x in r["obligations"].items() if x["result"] != "unsat"]
            print("  unit %-70s %-14s paths=%s vcs=%d %.1fs %s" % (r["label"], r["status"], r.get("paths"),
                                                                  len(r["obligations"]), r.get("wall_s", 0), bad or ""))
            slow = sorted(((x.get("seconds", 0), o, x.get("solver")) for o, x in r["obligations"].items() if x.get("seconds", 0) >= 5), reverse=True)
            for sec, o, solver in slow[:5]:
                print("      slow VC %.1fs %s (%s)" % (sec, o, solver))
    for l in lines:
        print(l)
    return code
