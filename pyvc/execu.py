"""Calls, contracts at call sites, statements and loop cutting."""
import ast
import copy
import z3

from .values import *
from .interp import Interp, Frame
from .ops import to_z3, concrete_int, is_num
from .extract import strip_docstring
from . import builtins as B

MAX_INLINE_DEPTH = 12
MAX_UNROLL = 600


def has_yield(fn):
    for n in ast.walk(fn):
        if isinstance(n, (ast.Yield, ast.YieldFrom)):
            # make sure it is not inside a nested function
            return _yield_in(fn.body)
    return False


def _yield_in(body):
    for st in body:
        for n in _walk_no_nested(st):
            if isinstance(n, (ast.Yield, ast.YieldFrom)):
                return True
    return False


def _walk_no_nested(node):
    yield node
    for ch in ast.iter_child_nodes(node):
        if isinstance(ch, (ast.FunctionDef, ast.Lambda, ast.ClassDef)):
            continue
        for x in _walk_no_nested(ch):
            yield x


def loop_ordinals(fn):
    """Loop nodes of a function in source order -> {id(node): ordinal}."""
    out = {}
    k = 0
    for st in fn.body:
        for n in _walk_no_nested(st):
            if isinstance(n, (ast.While, ast.For)):
                out[id(n)] = k
                k += 1
    return out


def assigned_names(body):
    names = set()
    attrs = []
    recvs = []
    for st in body:
        for n in _walk_no_nested(st):
            if isinstance(n, ast.Name) and isinstance(n.ctx, ast.Store):
                names.add(n.id)
            elif isinstance(n, ast.Attribute) and isinstance(n.ctx, ast.Store):
                attrs.append(n)
            elif isinstance(n, ast.Subscript) and isinstance(n.ctx, ast.Store):
                n.value._pyvc_store_only = True
                recvs.append(n.value)
            elif isinstance(n, ast.Call) and isinstance(n.func, ast.Attribute):
                recvs.append(n.func.value)
    return names, attrs, recvs


class Exec(Interp):

    # ---------------------------------------------------------------- calls
    def ev_Call(self, node):
        if self.in_spec and isinstance(node.func, ast.Name) and node.func.id == "old":
            if self.old_env is None:
                raise CheckerError("old() used where no pre-state exists")
            fr = Frame(self.frame.module, self.old_env, parent=self.frame, spec=True, label="old")
            self.frames.append(fr)
            try:
                return self.ev(node.args[0])
            finally:
                self.frames.pop()
        fn = self.ev(node.func)
        args = []
        for a in node.args:
            if isinstance(a, ast.Starred):
                args.extend(self.iterate(self.ev(a.value), a))
            else:
                args.append(self.ev(a))
        kwargs = {}
        for k in node.keywords:
            if k.arg is None:
                d = self.ev(k.value)
                if isinstance(d, PyDict):
                    kwargs.update(d.d)
                else:
                    raise OutsideSubset("**kwargs forwarding", node)
            else:
                kwargs[k.arg] = self.ev(k.value)
        # super() needs the frame
        return self.call(fn, args, kwargs, node)

    def call(self, fn, args, kwargs, node=None):
        if isinstance(fn, Builtin):
            if fn.fn is None:
                raise OutsideSubset("builtin %s not modelled" % fn.name, node)
            return fn.fn(self, args, kwargs, node)
        if isinstance(fn, SpecFn):
            return fn.fn(self, *args, **kwargs)
        if isinstance(fn, ExternalRef):
            m = self.opts.get("externals", {}).get(fn.name) or B.EXTERNALS.get(fn.name)
            if m is None:
                raise OutsideSubset("external %s not modelled" % fn.name, node)
            return m(self, args, kwargs, node)
        if isinstance(fn, FuncRef):
            return self.call_function(fn, args, kwargs, node)
        if isinstance(fn, BoundMethod):
            return self.call_function(fn.func, [fn.self_obj] + list(args), kwargs, node)
        if isinstance(fn, ClassRef):
            return self.instantiate(fn.info, args, kwargs, node)
        if isinstance(fn, Closure):
            return self.call_closure(fn, args, kwargs, node)
        if isinstance(fn, AbstractMethod):
            return getattr(fn.obj, "m_" + fn.name)(self, *args, **kwargs)
        if isinstance(fn, NativeMethod):
            return B.native_method(self, fn.recv, fn.name, args, kwargs, node)
        if isinstance(fn, Obj) and fn.cls.find_method("__call__"):
            return self.call_method(fn, "__call__", args, kwargs)
        if isinstance(fn, Abstract) and hasattr(fn, "call"):
            return fn.call(self, args, kwargs, node)
        if isinstance(fn, Opaque):
            raise OutsideSubset("call of opaque value", node)
        raise OutsideSubset("call of %r" % (fn,), node)

    def call_method(self, obj, name, args, kwargs):
        return self.call(self.getattr(obj, name), args, kwargs)

    def instantiate(self, ci, args, kwargs, node=None):
        # exception classes defined in the repo
        o = Obj(ci)
        fm = ci.find_method("__init__")
        if fm:
            c, fn = fm
            fr = FuncRef(c.module, "%s.__init__" % c.qualname, fn, c)
            self.call_function(fr, [o] + list(args), kwargs, node)
        else:
            o.fields["args"] = tuple(args)
        return o

    def bind_args(self, fnode, args, kwargs, module, node=None):
        a = fnode.args
        params = [p.arg for p in a.posonlyargs + a.args]
        env = {}
        args = list(args)
        kwargs = dict(kwargs)
        n_pos = min(len(args), len(params))
        for i in range(n_pos):
            env[params[i]] = args[i]
        extra = args[n_pos:]
        if extra:
            if a.vararg is None:
                self.raise_builtin("TypeError", node)
            env[a.vararg.arg] = tuple(extra)
        elif a.vararg is not None:
            env[a.vararg.arg] = ()
        defaults = a.defaults
        first_default = len(params) - len(defaults)
        for i in range(n_pos, len(params)):
            p = params[i]
            if p in kwargs:
                env[p] = kwargs.pop(p)
            elif i >= first_default:
                env[p] = self.eval_default(defaults[i - first_default], module)
            else:
                self.raise_builtin("TypeError", node)
        for p, d in zip(a.kwonlyargs, a.kw_defaults):
            if p.arg in kwargs:
                env[p.arg] = kwargs.pop(p.arg)
            elif d is not None:
                env[p.arg] = self.eval_default(d, module)
            else:
                self.raise_builtin("TypeError", node)
        if kwargs:
            if a.kwarg is None:
                self.raise_builtin("TypeError", node)
            env[a.kwarg.arg] = PyDict(kwargs)
        elif a.kwarg is not None:
            env[a.kwarg.arg] = PyDict({})
        return env

    def eval_default(self, dnode, module):
        fr = Frame(module, {}, label="<default>")
        self.frames.append(fr)
        try:
            return self.ev(dnode)
        finally:
            self.frames.pop()

    def call_function(self, fr, args, kwargs, node=None):
        c = self.registry.for_key(fr.key) if self.registry else None
        if c is not None and not c.inline and not self.opts.get("inline_all") \
                and fr.key not in self.opts.get("force_inline", ()):
            return self.apply_contract(c, fr, args, kwargs, node)
        return self.inline_function(fr, args, kwargs, node, c)

    def inline_function(self, fr, args, kwargs, node=None, contract=None):
        if self.call_depth > MAX_INLINE_DEPTH:
            raise OutsideSubset("inline depth exceeded at %s (recursion needs a contract)" % fr.key, node)
        fnode = self.opts.get("override", {}).get(fr.key, fr.node)
        env = self.bind_args(fnode, args, kwargs, fr.module, node)
        self.notes.add("inlined:" + fr.key)
        loopspecs = contract.loops if contract is not None else {}
        frame = Frame(fr.module, env, func=fr, cls=fr.cls, loopspecs=loopspecs,
                      loop_ord=loop_ordinals(fnode), label=fr.key)
        gen = has_yield(fnode)
        if gen:
            frame.gen_out = []
        self.frames.append(frame)
        self.call_depth += 1
        try:
            try:
                self.ex_block(strip_docstring(fnode))
                rv = None
            except ReturnSig as r:
                rv = r.value
        finally:
            self.call_depth -= 1
            self.frames.pop()
        if gen:
            return PyList(frame.gen_out)
        return rv

    def call_closure(self, cl, args, kwargs, node=None):
        n = cl.node
        env = self.bind_args(n, args, kwargs, cl.frame.module, node)
        frame = Frame(cl.frame.module, env, func=cl.frame.func, cls=cl.frame.cls, parent=cl.frame,
                      spec=cl.frame.spec, loopspecs={}, loop_ord={}, label="<closure>")
        if isinstance(n, ast.Lambda):
            self.frames.append(frame)
            try:
                return self.ev(n.body)
            finally:
                self.frames.pop()
        gen = has_yield(n)
        if gen:
            frame.gen_out = []
        frame.loop_ord = loop_ordinals(n)
        self.frames.append(frame)
        self.call_depth += 1
        try:
            try:
                self.ex_block(strip_docstring(n))
                rv = None
            except ReturnSig as r:
                rv = r.value
        finally:
            self.call_depth -= 1
            self.frames.pop()
        return PyList(frame.gen_out) if gen else rv

    # ------------------------------------------------------ spec evaluation
    def spec_eval(self, src, env, old_env=None, module=None, what="spec"):
        """Evaluate a spec expression string to a z3 Bool / value."""
        if callable(src):
            prev_old = self.old_env
            if old_env is not None:
                self.old_env = old_env
            try:
                return src(self, env)
            except (KeyError, AttributeError) as e:
                # the contract names a local / field the function (no longer) has: undecided, not a checker crash
                raise OutsideSubset("contract clause refers to a name the function does not define: %s %s"
                                    % (type(e).__name__, e))
            finally:
                self.old_env = prev_old
        try:
            tree = ast.parse(src.strip(), mode="eval")
        except SyntaxError as e:
            raise CheckerError("bad spec expression %r: %s" % (src, e))
        fr = Frame(module or (self.frames[-1].module if self.frames else None), dict(env), spec=True, label=what)
        prev_old = self.old_env
        if old_env is not None:
            self.old_env = old_env
        self.frames.append(fr)
        self.spec_depth += 1
        try:
            return self.ev(tree.body)
        except RaiseSig as r:
            raise CheckerError("spec expression %r raised %s" % (src, r.name()))
        finally:
            self.spec_depth -= 1
            self.frames.pop()
            self.old_env = prev_old

    def spec_exec(self, src, env, module=None):
        """Run spec statements (ghost code); env is updated in place."""
        tree = ast.parse(src if isinstance(src, str) else "\n".join(src))
        fr = Frame(module or (self.frames[-1].module if self.frames else None), env, spec=True, label="ghost")
        self.frames.append(fr)
        self.spec_depth += 1
        try:
            self.ex_block(tree.body)
        finally:
            self.spec_depth -= 1
            self.frames.pop()

    def spec_bool(self, src, env, old_env=None, module=None):
        v = self.spec_eval(src, env, old_env, module)
        t = self.truth(v)
        return z3.BoolVal(t) if isinstance(t, bool) else t

    def snapshot(self, env):
        return copy.deepcopy(env)

    # ------------------------------------------------ contracts at call sites
    def apply_contract(self, c, fr, args, kwargs, node=None):
        env = self.bind_args(fr.node, args, kwargs, fr.module, node)
        self.notes.add("contract:" + c.key)
        old = self.snapshot(env)
        for i, r in enumerate(c.requires):
            f = self.spec_bool(r, env, old, fr.module)
            self.oblige("call-pre", "%s#%d" % (c.key.split(":")[1], i), f, note=r if isinstance(r, str) else "")
        # exceptional exits the contract allows
        for excname, cond in c.raises.items():
            f = self.spec_bool(cond, env, old, fr.module)
            if self.decide(f, "callee-raises"):
                raise RaiseSig(ExcValue(excname), node)
        for m in c.modifies:
            self.havoc_lvalue(m, env, fr.module)
        if c.effect is not None:
            c.effect(self, env)
        res = self.make_result(c, env)
        env2 = dict(env)
        env2["result"] = res
        for e in c.ensures:
            f = self.spec_bool(e, env2, old, fr.module)
            if z3.is_false(z3.simplify(f)):
                raise CheckerError("ensures %r of callee contract %s is identically false at this call site "
                                   "(missing `returns`?)" % (e, c.label))
            self.assume(f)
        return res

    def make_result(self, c, env):
        r = c.returns
        if r is None:
            return None
        if callable(r):
            return r(self, env)
        if r == "int":
            return self.fresh_int("ret")
        if r == "real":
            return self.fresh_real("ret")
        if r == "bool":
            return self.fresh_bool("ret")
        if r == "opaque":
            return Opaque("result of " + c.key)
        raise CheckerError("bad returns spec %r" % (r,))

    def havoc_lvalue(self, src, env, module=None):
        tree = ast.parse(src.strip(), mode="eval").body
        fr = Frame(module, env, spec=True, label="havoc")
        self.frames.append(fr)
        self.spec_depth += 1
        try:
            if isinstance(tree, ast.Name):
                v = self.ev(tree)
                nv = self.fresh_like(v, tree.id)
                if nv is not v:
                    env[tree.id] = nv
            elif isinstance(tree, ast.Attribute):
                base = self.ev(tree.value)
                cur = self.getattr(base, tree.attr)
                nv = self.fresh_like(cur, tree.attr)
                if nv is not cur:
                    self.setattr(base, tree.attr, nv)
            else:
                raise CheckerError("bad modifies entry %r" % src)
        finally:
            self.spec_depth -= 1
            self.frames.pop()

    # ------------------------------------------------------------ statements
    def ex_block(self, body):
        for st in body:
            self.ex(st)

    def ex(self, node):
        prev = self.cur_node
        self.cur_node = node
        try:
            m = getattr(self, "ex_" + type(node).__name__, None)
            if m is None:
                raise OutsideSubset("statement %s" % type(node).__name__, node)
            m(node)
        finally:
            self.cur_node = prev

    def ex_Pass(self, node):
        pass

    def ex_Expr(self, node):
        if isinstance(node.value, ast.Yield):
            self.do_yield(self.ev(node.value.value) if node.value.value else None)
            return
        if isinstance(node.value, ast.YieldFrom):
            for x in self.iterate(self.ev(node.value.value), node):
                self.do_yield(x)
            return
        if isinstance(node.value, ast.Constant):
            return
        self.ev(node.value)

    def do_yield(self, v):
        f = self.frame
        while f is not None and f.gen_out is None:
            f = f.parent
        if f is None:
            raise OutsideSubset("yield outside generator")
        f.gen_out.append(v)
        if self.on_yield is not None and f is self.root_frame:
            self.on_yield(self, v)

    def ev_Yield(self, node):
        raise OutsideSubset("yield used as expression", node)

    def ex_Assign(self, node):
        v = self.ev(node.value)
        for t in node.targets:
            self.assign(t, v)

    def ex_AnnAssign(self, node):
        if node.value is not None:
            self.assign(node.target, self.ev(node.value))

    def ex_AugAssign(self, node):
        t = node.target
        if isinstance(t, ast.Name):
            cur = self.lookup(t.id, t)
            self.frame.env[t.id] = self.augop(node.op, cur, self.ev(node.value), node)
        elif isinstance(t, ast.Attribute):
            base = self.ev(t.value)
            cur = self.getattr(base, t.attr, t)
            self.setattr(base, t.attr, self.augop(node.op, cur, self.ev(node.value), node), t)
        elif isinstance(t, ast.Subscript):
            base = self.ev(t.value)
            idx = self.ev(t.slice)
            cur = self.getitem(base, idx, t)
            self.setitem(base, idx, self.augop(node.op, cur, self.ev(node.value), node), t)
        else:
            raise OutsideSubset("augmented assignment target", node)

    def augop(self, op, cur, val, node):
        if isinstance(cur, PyList) and isinstance(op, ast.Add):
            cur.items.extend(self.iterate(val, node))
            return cur
        return self.binop(op, cur, val, node)

    def ex_Return(self, node):
        raise ReturnSig(self.ev(node.value) if node.value is not None else None)

    def ex_Break(self, node):
        raise BreakSig()

    def ex_Continue(self, node):
        raise ContinueSig()

    def ex_Delete(self, node):
        for t in node.targets:
            if isinstance(t, ast.Name):
                self.frame.env.pop(t.id, None)
            elif isinstance(t, ast.Subscript) and isinstance(t.slice, ast.Slice) and t.slice.upper is None and t.slice.step is None \
                    and t.slice.lower is not None and isinstance(self.ev(t.value), SymList):
                # del xs[a:] on a list of symbolic length: truncation to max(0, min(len, a)) for a >= 0
                base = self.ev(t.value)
                a = to_z3(self.ev(t.slice.lower))
                if self.feasible(a < 0):
                    raise OutsideSubset("del xs[a:] with a possibly negative a", node)
                base.n = z3.If(a < base.n, a, base.n)
            elif isinstance(t, ast.Subscript):
                base = self.ev(t.value)
                idx = self.ev(t.slice)
                if isinstance(base, PyDict) and is_concrete(idx):
                    if idx not in base.d:
                        self.raise_builtin("KeyError", node)
                    del base.d[idx]
                elif isinstance(base, Abstract) and hasattr(base, "delitem"):
                    base.delitem(self, idx, node)
                else:
                    raise OutsideSubset("del subscript", node)
            else:
                raise OutsideSubset("del target", node)

    def ex_Global(self, node):
        raise OutsideSubset("global statement", node)

    def ex_Import(self, node):
        for a in node.names:
            nm = a.asname or a.name.split(".")[0]
            tgt = a.name if a.asname else a.name.split(".")[0]
            self.frame.env[nm] = ModuleRef(tgt) if self.repo.has_module(tgt) else ExternalRef(tgt)

    def ex_ImportFrom(self, node):
        for a in node.names:
            nm = a.asname or a.name
            modname = node.module
            if self.repo.has_module(modname + "." + a.name):
                self.frame.env[nm] = ModuleRef(modname + "." + a.name)
            elif self.repo.has_module(modname):
                m2 = self.repo.module(modname)
                if a.name not in m2.names:
                    # a package re-exporting its sub-modules with `from pkg.sub import *` (whoosh.query): the name is the
                    # one defined by the star-imported sub-module that has it
                    for st in ast.walk(m2.tree) if hasattr(m2, "tree") else []:
                        if isinstance(st, ast.ImportFrom) and st.module and any(x.name == "*" for x in st.names) \
                                and self.repo.has_module(st.module) and a.name in self.repo.module(st.module).names:
                            m2 = self.repo.module(st.module)
                            break
                self.frame.env[nm] = self.global_value(m2, a.name)
            else:
                self.frame.env[nm] = ExternalRef(modname + "." + a.name)

    def ex_FunctionDef(self, node):
        self.frame.env[node.name] = Closure(node, self.frame, node.name)

    def ex_If(self, node):
        t = self.truth(self.ev(node.test))
        if self.decide(t, "if"):
            self.ex_block(node.body)
        else:
            self.ex_block(node.orelse)

    def ex_Assert(self, node):
        t = self.truth(self.ev(node.test))
        if self.in_spec:
            self.assume(t)
            return
        self.oblige("assert", "L%s" % self.rel_line(node), t if not isinstance(t, bool) else z3.BoolVal(t),
                    note=ast.unparse(node.test))

    def rel_line(self, node):
        # ordinal of the assert within its function, stable under line shifts
        f = self.frame.func
        if f is None:
            return "?"
        k = 0
        for n in ast.walk(f.node):
            if isinstance(n, ast.Assert):
                if n is node:
                    return str(k)
                k += 1
        return "?"

    def ex_Raise(self, node):
        if node.exc is None:
            cur = getattr(self, "handling", None)
            if cur is None:
                raise OutsideSubset("bare raise outside handler", node)
            raise cur
        e = self.ev(node.exc)
        if isinstance(e, ClassRef):
            pass
        elif isinstance(e, Builtin):
            e = ExcValue(e.name)
        elif isinstance(e, ExternalRef):
            e = ExcValue(e.name.split(".")[-1])
        raise RaiseSig(e, node)

    def exc_matches(self, sig, tnode):
        if tnode is None:
            return True
        t = self.ev(tnode)
        ts = t if isinstance(t, tuple) else (t,)
        name = sig.name()
        for x in ts:
            if isinstance(x, Builtin):
                if x.name == name or B.exc_is_subclass(name, x.name):
                    return True
            elif isinstance(x, ExternalRef):
                if x.name.split(".")[-1] == name:
                    return True
            elif isinstance(x, ClassRef):
                e = sig.exc
                ci = e.info if isinstance(e, ClassRef) else e.cls if isinstance(e, Obj) else None
                if ci is not None and ci.is_subclass_of(x.info):
                    return True
        # repo exception classes deriving from builtin ones
        e = sig.exc
        ci = e.info if isinstance(e, ClassRef) else e.cls if isinstance(e, Obj) else None
        if ci is not None:
            for x in ts:
                if isinstance(x, Builtin):
                    for c in ci.mro():
                        for b in c.node.bases:
                            if isinstance(b, ast.Name) and (b.id == x.name or B.exc_is_subclass(b.id, x.name)):
                                return True
        return False

    def ex_Try(self, node):
        try:
            try:
                self.ex_block(node.body)
            except RaiseSig as sig:
                for h in node.handlers:
                    if self.exc_matches(sig, h.type):
                        if h.name:
                            self.frame.env[h.name] = sig.exc
                        prev = getattr(self, "handling", None)
                        self.handling = sig
                        try:
                            self.ex_block(h.body)
                        finally:
                            self.handling = prev
                        break
                else:
                    raise
            else:
                self.ex_block(node.orelse)
        except (ReturnSig, BreakSig, ContinueSig, RaiseSig):
            if node.finalbody:
                self.ex_block(node.finalbody)
            raise
        else:
            if node.finalbody:
                self.ex_block(node.finalbody)

    def ex_With(self, node):
        raise OutsideSubset("with statement", node)

    # ------------------------------------------------------------ loops
    def loop_spec(self, node):
        f = self.frame
        k = f.loop_ord.get(id(node))
        if k is None:
            return None, None
        return f.loopspecs.get(k), k

    def ex_While(self, node):
        spec, k = self.loop_spec(node)
        if spec is None:
            n = 0
            while True:
                t = self.truth(self.ev(node.test))
                if not isinstance(t, bool):
                    t2 = z3.simplify(t)
                    if z3.is_true(t2):
                        t = True
                    elif z3.is_false(t2):
                        t = False
                    else:
                        raise OutsideSubset("while loop #%s with symbolic guard needs an invariant" % k, node)
                if not t:
                    self.ex_block(node.orelse)
                    return
                try:
                    self.ex_block(node.body)
                except BreakSig:
                    return
                except ContinueSig:
                    pass
                n += 1
                if n > MAX_UNROLL:
                    raise OutsideSubset("concrete loop exceeds unroll limit", node)
        self.cut_loop(node, spec, k, guard=lambda: self.truth(self.ev(node.test)), pre_body=None)

    def ex_For(self, node):
        spec, k = self.loop_spec(node)
        if spec is None:
            it = self.ev(node.iter)
            items = self.iterate(it, node)
            if len(items) > MAX_UNROLL:
                raise OutsideSubset("concrete for loop exceeds unroll limit", node)
            for x in items:
                self.assign(node.target, x)
                try:
                    self.ex_block(node.body)
                except BreakSig:
                    return
                except ContinueSig:
                    continue
            self.ex_block(node.orelse)
            return
        # symbolic iteration: ghost index over a range or a symbolic list
        it = self.ev(node.iter)
        idxname = spec.index or "_i"
        env = self.frame.env
        if isinstance(it, Abstract) and hasattr(it, "as_range"):
            lo, hi, stepv = it.as_range(self)
            getter = lambda i: i
        elif isinstance(it, SymList):
            lo, hi, stepv = 0, it.n, 1
            seq = it
            arr0 = it.arr
            getter = lambda i: z3.Select(arr0, i)
        elif isinstance(it, Abstract) and hasattr(it, "iter_protocol"):
            lo, hi, stepv, getter = it.iter_protocol(self)
        elif isinstance(it, FilteredGen):
            lo, hi, stepv = it.lo, it.hi, 1
            fg = it

            def getter(i):
                # evaluated in the generator's own scope (late binding, as in Python): bind its variable to item i, skip
                # the loop body for an item that fails a filter, hand the element expression to the loop target
                fr = Frame(fg.frame.module, {}, parent=fg.frame, spec=fg.frame.spec)
                self.frames.append(fr)
                try:
                    self.assign(fg.target, fg.getter(i))
                    for c in fg.ifs:
                        t = self.truth(self.ev(c))
                        if not isinstance(t, bool):
                            t = self.decide(t, "generator-filter")
                        if not t:
                            raise ContinueSig()
                    return self.ev(fg.elt)
                finally:
                    self.frames.pop()
        else:
            raise OutsideSubset("for loop with invariant over %r" % (it,), node)
        if concrete_int(stepv) != 1:
            raise OutsideSubset("for loop with step != 1", node)
        env[idxname] = to_z3(lo)
        env["_hi"] = hi

        def guard():
            return self.compare(ast.Lt(), env[idxname], hi)

        def pre_body():
            self.assign(node.target, getter(env[idxname]))

        def post_body():
            env[idxname] = env[idxname] + 1
        lo_z = to_z3(lo)
        self.cut_loop(node, spec, k, guard, pre_body, post_body, extra_havoc=[idxname],
                      auto_inv=lambda: env[idxname] >= lo_z)

    def cut_loop(self, node, spec, k, guard, pre_body=None, post_body=None, extra_havoc=(), auto_inv=None):
        env = self.frame.env
        module = self.frame.module
        lab = spec.label or ("loop%d" % k)

        def inv_formula():
            fs = []
            for s in spec.inv:
                fs.append(self.spec_bool(s, self.spec_env(), self.old_env, module))
            return fs

        # 1. invariant holds on entry
        for i, f in enumerate(inv_formula()):
            self.oblige("inv-entry", "%s#%d" % (lab, i), f, note=str(spec.inv[i]))
        # 2. havoc everything the loop may change
        names, attrs, recvs = assigned_names(node.body + ([node] if False else []))
        if isinstance(node, ast.For):
            for n in ast.walk(node.target):
                if isinstance(n, ast.Name):
                    names.add(n.id)
        names |= set(spec.havoc) | set(extra_havoc)
        concrete = spec.concrete or {}
        mode = self.choose(2, "loop")      # 0: arbitrary iteration ; 1: exit
        conc_vals = {}
        for nm, gen in concrete.items():
            vals = list(gen(env))
            if not vals:
                raise Infeasible()
            conc_vals[nm] = vals[self.choose(len(vals), "loop-concrete")]
        for nm in sorted(k_ for k_ in spec.havoc_as if "." in k_):
            # dotted entry: an attribute whose value at an arbitrary iteration is a different object (e.g. a matcher that
            # the loop replaces); evaluated after the plain names so that both can share one fresh object
            pass
        for nm in sorted(names):
            if nm in spec.havoc_as:
                env[nm] = spec.havoc_as[nm](self)
            elif nm in conc_vals:
                env[nm] = conc_vals[nm]
            elif nm in env:
                try:
                    env[nm] = self.fresh_like(env[nm], nm)
                except OutsideSubset:
                    env[nm] = Opaque("havoc " + nm)
            # names first assigned inside the loop are not live at the head
        for nm in spec.havoc:
            if nm in self.ghost:
                self.ghost[nm] = self.fresh_like(self.ghost[nm], nm)
        for a in attrs:
            try:
                self.spec_depth += 1
                try:
                    base = self.ev(a.value)
                finally:
                    self.spec_depth -= 1
                cur = self.getattr(base, a.attr)
                nv = self.fresh_like(cur, a.attr)
                if nv is not cur:
                    self.setattr(base, a.attr, nv)
            except (OutsideSubset, RaiseSig):
                pass
        seen = set()
        for r in recvs:
            try:
                self.spec_depth += 1
                try:
                    o = self.ev(r)
                finally:
                    self.spec_depth -= 1
            except (OutsideSubset, RaiseSig):
                continue
            if isinstance(o, SymList) and id(o) not in seen:
                # a symbolic list mutated inside the loop (item store / method call): its content - and for method
                # calls its length - are unknown at the loop head; mutated in place so that aliases see it
                seen.add(id(o))
                o.arr = z3.Const(self.fresh_name("lst"), o.arr.sort())
                if not getattr(r, "_pyvc_store_only", False):
                    o.n = z3.Int(self.fresh_name("lst_n"))
                    self.assume(o.n >= 0)
                continue
            if isinstance(o, Abstract) and id(o) not in seen:
                seen.add(id(o))
                o.havoc(self)
        for m in spec.modifies:
            self.havoc_lvalue(m, env, module)
        for nm in sorted(k_ for k_ in spec.havoc_as if "." in k_):
            base_src, attr = nm.rsplit(".", 1)
            self.spec_depth += 1
            try:
                base = self.ev(ast.parse(base_src, mode="eval").body)
            finally:
                self.spec_depth -= 1
            self.setattr(base, attr, spec.havoc_as[nm](self))
        # 3. assume the invariant at the loop head
        if auto_inv is not None:
            self.assume(auto_inv())        # a range index never goes below its start (holds by construction)
        for f in inv_formula():
            self.assume(f)
        g = guard()
        if mode == 0:
            if not isinstance(g, bool):
                self.assume(g)
            elif not g:
                raise Infeasible()
            try:
                if pre_body:
                    pre_body()
                self.ex_block(node.body)
            except ContinueSig:
                pass
            except BreakSig:
                return      # leaves the loop from an arbitrary iteration
            if post_body:
                post_body()
            for i, f in enumerate(inv_formula()):
                self.oblige("inv-preserve", "%s#%d" % (lab, i), f, note=str(spec.inv[i]))
            raise PathEnd()
        else:
            if not isinstance(g, bool):
                self.assume(z3.Not(g))
            elif g:
                raise Infeasible()
            self.ex_block(node.orelse)

    def spec_env(self):
        """Environment specs see: locals of the current frame (+ entry args via old)."""
        return self.frame.env
