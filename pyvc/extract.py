"""Mechanical extraction of the real code from /repo's working tree.

Nothing here rewrites code by hand: a function is located by qualified name in
the module's AST and handed, unmodified, to the symbolic executor.  What is
dropped: comments, docstrings (a leading string-expression statement), and
decorators other than staticmethod/classmethod/property/cached_property
(abstractmethod is ignored).
"""
import ast
import hashlib
import os

REPO_SRC = os.environ.get("PYVC_REPO_SRC", "/repo/src")


class ExtractError(Exception):
    pass


class _Keep(object):
    """Wrapper mixin: objects that must not be deep-copied."""

    def __deepcopy__(self, memo):
        return self

    def __copy__(self):
        return self


class ModuleInfo(_Keep):
    def __init__(self, name, path, source):
        self.name = name
        self.path = path
        self.source = source
        self.tree = ast.parse(source, filename=path)
        self.names = {}
        self._scan(self.tree.body)

    def _scan(self, body):
        for node in body:
            if isinstance(node, ast.FunctionDef):
                self.names[node.name] = ("func", node)
            elif isinstance(node, ast.ClassDef):
                self.names[node.name] = ("class", node)
            elif isinstance(node, ast.Import):
                for a in node.names:
                    if a.asname:
                        self.names[a.asname] = ("module", a.name)
                    else:
                        top = a.name.split(".")[0]
                        self.names[top] = ("module", top)
            elif isinstance(node, ast.ImportFrom):
                for a in node.names:
                    if a.name == "*":
                        # `from m import *`: every public top-level name of m (resolved lazily, in import order)
                        self.star_imports = getattr(self, "star_imports", []) + [node.module]
                        continue
                    self.names[a.asname or a.name] = ("from", node.module, a.name)
            elif isinstance(node, ast.Assign):
                for t in node.targets:
                    if isinstance(t, ast.Name):
                        self.names[t.id] = ("assign", node.value)
                    elif isinstance(t, ast.Tuple) and isinstance(node.value, ast.Tuple) \
                            and len(t.elts) == len(node.value.elts):
                        for tt, vv in zip(t.elts, node.value.elts):
                            if isinstance(tt, ast.Name):
                                self.names[tt.id] = ("assign", vv)
                    elif isinstance(t, ast.Tuple):
                        for i, tt in enumerate(t.elts):
                            if isinstance(tt, ast.Name):
                                self.names[tt.id] = ("assign_idx", node.value, i)
            elif isinstance(node, (ast.If, ast.Try)):
                # module-level conditionals (compat shims): scan every branch,
                # later definitions win, as at import time on Python 3 for the
                # `else` of `if sys.version_info[0] < 3`
                if isinstance(node, ast.If):
                    taken = None
                    try:
                        # compat shims: decide tests that only depend on the interpreter (as at import time
                        # under the Python that runs the repository: CPython 3)
                        import sys as _sys, array as _array
                        taken = bool(eval(compile(ast.Expression(node.test), "<modtest>", "eval"),
                                          {"__builtins__": {"hasattr": hasattr, "len": len}},
                                          {"sys": _sys, "array": _array}))
                    except Exception:
                        taken = None
                    if taken is None:
                        self._scan(node.body)
                        self._scan(node.orelse)
                    elif taken:
                        self._scan(node.body)
                    else:
                        self._scan(node.orelse)
                else:
                    self._scan(node.body)


class ClassInfo(_Keep):
    def __init__(self, repo, module, qualname, node):
        self.repo = repo
        self.module = module
        self.qualname = qualname
        self.node = node
        self.methods = {}
        self.attrs = {}
        self.inner = {}
        for n in node.body:
            if isinstance(n, ast.FunctionDef):
                self.methods[n.name] = n
            elif isinstance(n, ast.Assign):
                for t in n.targets:
                    if isinstance(t, ast.Name):
                        self.attrs[t.id] = n.value
            elif isinstance(n, ast.ClassDef):
                self.inner[n.name] = n
        self._mro = None

    @property
    def key(self):
        return "%s:%s" % (self.module.name, self.qualname)

    def bases(self):
        out = []
        for b in self.node.bases:
            ci = self.repo.resolve_class_expr(self.module, b)
            if ci is not None:
                out.append(ci)
        return out

    def mro(self):
        if self._mro is None:
            seqs = [[self]]
            for b in self.bases():
                seqs.append(list(b.mro()))
            # simple linearisation: self, then bases' mros left to right,
            # keeping the LAST occurrence of duplicates (diamond-safe for the
            # single-inheritance-plus-mixin shapes whoosh uses)
            flat = [self]
            for b in self.bases():
                flat.extend(b.mro())
            seen = set()
            out = []
            for c in reversed(flat):
                if c.key not in seen:
                    seen.add(c.key)
                    out.append(c)
            out.reverse()
            if out[0] is not self:
                out.remove(self)
                out.insert(0, self)
            self._mro = out
        return self._mro

    def find_method(self, name, after=None):
        """-> (ClassInfo, FunctionDef) of the first class in the MRO (after
        class `after`, if given) that defines `name`; None if not in repo."""
        mro = self.mro()
        start = 0
        if after is not None:
            for i, c in enumerate(mro):
                if c.key == after.key:
                    start = i + 1
                    break
        for c in mro[start:]:
            if name in c.methods:
                return c, c.methods[name]
        return None

    def find_attr(self, name):
        for c in self.mro():
            if name in c.attrs:
                return c, c.attrs[name]
        return None

    def is_subclass_of(self, other):
        return any(c.key == other.key for c in self.mro())

    def __repr__(self):
        return "<class %s>" % self.key


class Repo(_Keep):
    def __init__(self, root=None):
        self.root = root or REPO_SRC
        self._mods = {}
        self._classes = {}

    def module_path(self, name):
        p = os.path.join(self.root, *name.split("."))
        if os.path.isdir(p):
            return os.path.join(p, "__init__.py")
        return p + ".py"

    def has_module(self, name):
        return os.path.exists(self.module_path(name))

    def module(self, name):
        if name not in self._mods:
            path = self.module_path(name)
            if not os.path.exists(path):
                raise ExtractError("module %s not found at %s" % (name, path))
            with open(path, "r", encoding="utf-8") as f:
                src = f.read()
            self._mods[name] = ModuleInfo(name, path, src)
        return self._mods[name]

    def klass(self, module, qualname):
        if isinstance(module, str):
            module = self.module(module)
        key = "%s:%s" % (module.name, qualname)
        if key not in self._classes:
            parts = qualname.split(".")
            ent = module.names.get(parts[0])
            if ent is None or ent[0] != "class":
                # re-exported class (from x import C)
                if ent is not None and ent[0] == "from" and self.has_module(ent[1]):
                    return self.klass(ent[1], ".".join([ent[2]] + parts[1:]))
                if ent is None:
                    # ... or through `from x import *`
                    for mn in reversed(getattr(module, "star_imports", [])):
                        if self.has_module(mn):
                            try:
                                return self.klass(mn, qualname)
                            except ExtractError:
                                continue
                raise ExtractError("class %s not found" % key)
            node = ent[1]
            for p in parts[1:]:
                for n in node.body:
                    if isinstance(n, ast.ClassDef) and n.name == p:
                        node = n
                        break
                else:
                    raise ExtractError("class %s not found" % key)
            self._classes[key] = ClassInfo(self, module, qualname, node)
        return self._classes[key]

    def resolve_class_expr(self, module, expr):
        try:
            if isinstance(expr, ast.Name):
                ent = module.names.get(expr.id)
                if ent is None:
                    return None
                if ent[0] == "class":
                    return self.klass(module, expr.id)
                if ent[0] == "from" and ent[1] and self.has_module(ent[1]):
                    return self.klass(ent[1], ent[2])
                return None
            if isinstance(expr, ast.Attribute) and isinstance(expr.value, ast.Name):
                ent = module.names.get(expr.value.id)
                if ent is None:
                    return None
                if ent[0] == "class":
                    # Outer.Inner: a class nested in a class of this module
                    try:
                        return self.klass(module, expr.value.id + "." + expr.attr)
                    except Exception:
                        return None
                if ent[0] == "from":
                    mn = ent[1] + "." + ent[2]
                    if self.has_module(mn):
                        return self.klass(mn, expr.attr)
                if ent[0] == "module" and self.has_module(ent[1]):
                    return self.klass(ent[1], expr.attr)
            if isinstance(expr, ast.Attribute):
                # a.b.C
                parts = []
                e = expr
                while isinstance(e, ast.Attribute):
                    parts.append(e.attr)
                    e = e.value
                if isinstance(e, ast.Name):
                    parts.append(e.id)
                    parts.reverse()
                    mn = ".".join(parts[:-1])
                    if self.has_module(mn):
                        return self.klass(mn, parts[-1])
        except ExtractError:
            return None
        return None

    def function(self, key):
        """key = 'pkg.mod:Qual.name' -> (ModuleInfo, ClassInfo|None, FunctionDef)"""
        modname, qual = key.split(":")
        mod = self.module(modname)
        parts = qual.split(".")
        if len(parts) == 1:
            ent = mod.names.get(parts[0])
            if ent is None or ent[0] != "func":
                raise ExtractError("function %s not found" % key)
            return mod, None, ent[1]
        ci = self.klass(mod, ".".join(parts[:-1]))
        if parts[-1] not in ci.methods:
            raise ExtractError("method %s not found" % key)
        return mod, ci, ci.methods[parts[-1]]


def strip_docstring(fn):
    body = fn.body
    if body and isinstance(body[0], ast.Expr) and isinstance(body[0].value, ast.Constant) \
            and isinstance(body[0].value.value, str):
        return body[1:] or [ast.Pass()]
    return body


def func_sha(fn):
    return hashlib.sha256(ast.unparse(fn).encode("utf-8")).hexdigest()[:16]


def mutate_function(fn, old, new, count=1):
    """Text mutation on the canonical unparse of the function (used by the
    canaries): `old` must occur exactly `count` times."""
    src = ast.unparse(fn)
    if src.count(old) != count:
        raise ExtractError("canary pattern %r occurs %d times (expected %d) in %s"
                           % (old, src.count(old), count, fn.name))
    src2 = src.replace(old, new)
    mod = ast.parse(src2)
    return mod.body[0]
