"""Symbolic executor: one path per run, re-executed per decision vector.

A path is identified by the list of choices made at symbolic decision points
(`forced`).  The driver (verify.py) re-runs the function from the start for
every unexplored choice vector; obligations are recorded only once the path is
beyond its forced prefix, so every obligation is recorded exactly once.
"""
import ast
import copy
import itertools
import z3

from .values import *
from .values import _Keep  # noqa
from .ops import Ops, to_z3, unify, concrete_int, is_num
from .extract import strip_docstring, ClassInfo
from . import builtins as B


class VC(object):
    __slots__ = ("fkey", "kind", "label", "pc", "goal", "path", "lineno", "note")

    def __init__(self, fkey, kind, label, pc, goal, path, lineno, note=""):
        self.fkey = fkey
        self.kind = kind
        self.label = label
        self.pc = pc
        self.goal = goal
        self.path = path
        self.lineno = lineno
        self.note = note

    @property
    def oid(self):
        return "%s/%s[%s]" % (self.fkey, self.kind, self.label)


class Frame(object):
    def __init__(self, module, env, func=None, cls=None, parent=None, spec=False, loopspecs=None,
                 loop_ord=None, gen_out=None, label=None):
        self.module = module
        self.env = env
        self.func = func        # FuncRef
        self.cls = cls          # ClassInfo of the defining class (for super())
        self.parent = parent    # lexically enclosing frame (closures)
        self.spec = spec
        self.loopspecs = loopspecs or {}
        self.loop_ord = loop_ord or {}
        self.gen_out = gen_out
        self.label = label

    def __deepcopy__(self, memo):
        return self


class Interp(Ops):
    FEAS_TIMEOUT_MS = 700

    def __init__(self, repo, registry, forced, vcs, root_label, opts=None):
        self.repo = repo
        self.registry = registry
        self.forced = list(forced)
        self.decisions = []
        self.pending = []           # new choice vectors discovered on this path
        self.pc = []
        self.vcs = vcs
        self.root_label = root_label
        self.opts = opts or {}
        self.frames = []
        self.names = itertools.count()
        self.spec_depth = 0
        self.cur_node = None
        self.old_env = None
        self.notes = set()          # inlined callees, assumptions used
        self.call_depth = 0
        self.int_mode = None
        self.globals_cache = {}
        self.ghost = {}             # contract-level ghost variables
        self.extra_spec = {}
        self.on_yield = None

    # ------------------------------------------------------------------ basics
    @property
    def frame(self):
        return self.frames[-1]

    @property
    def in_spec(self):
        return self.spec_depth > 0

    def fresh_name(self, base):
        return "%s!%d" % (base, next(self.names))

    def fresh_int(self, base="i"):
        if self.int_mode:
            return z3.BitVec(self.fresh_name(base), self.int_mode)
        return z3.Int(self.fresh_name(base))

    def fresh_real(self, base="r"):
        return z3.Real(self.fresh_name(base))

    def fresh_bool(self, base="b"):
        return z3.Bool(self.fresh_name(base))

    def fresh_like(self, v, base="h"):
        if isinstance(v, bool):
            return self.fresh_bool(base)
        if isinstance(v, int):
            return self.fresh_int(base)
        if isinstance(v, float):
            return self.fresh_real(base)
        if is_z3(v):
            return z3.Const(self.fresh_name(base), v.sort())
        if isinstance(v, Opt):
            return Opt(self.fresh_bool(base + "_none"), self.fresh_like(v.val, base))
        if isinstance(v, SymList):
            return SymList(z3.Const(self.fresh_name(base), v.arr.sort()), z3.Int(self.fresh_name(base + "_n")), v.kind)
        if isinstance(v, Abstract):
            v.havoc(self)
            return v
        if isinstance(v, Opaque) or v is None:
            return Opaque("havoc " + base)
        if isinstance(v, tuple):
            return tuple(self.fresh_like(x, base) for x in v)
        raise OutsideSubset("cannot havoc value %r" % (v,))

    def assume(self, f):
        if isinstance(f, bool):
            if not f:
                raise Infeasible()
            return
        f = z3.simplify(f) if False else f
        if z3.is_false(f):
            raise Infeasible()
        if not z3.is_true(f):
            self.pc.append(f)

    def recording(self):
        return len(self.decisions) >= len(self.forced)

    def oblige(self, kind, label, f, note=""):
        """Record VC  pc => f  (once), then continue under f."""
        if isinstance(f, bool):
            f = z3.BoolVal(f)
        if self.recording() and not z3.is_true(f):
            ln = getattr(self.cur_node, "lineno", None)
            self.vcs.append(VC(self.root_label, kind, label, list(self.pc), f, tuple(self.decisions), ln, note))
        elif self.recording():
            self.vcs.append(VC(self.root_label, kind, label, [], z3.BoolVal(True), tuple(self.decisions),
                               getattr(self.cur_node, "lineno", None), "trivial"))
        self.assume(f)

    def feasible(self, f):
        s = z3.Solver()
        s.set("timeout", self.FEAS_TIMEOUT_MS)
        for p in self.pc:
            s.add(p)
        s.add(f)
        return s.check() != z3.unsat

    def choose(self, n, why=""):
        """n-way nondeterministic choice (no feasibility pruning)."""
        k = len(self.decisions)
        if k < len(self.forced):
            c = self.forced[k]
        else:
            c = 0
            for alt in range(1, n):
                self.pending.append(self.decisions + [alt])
        self.decisions.append(c)
        return c

    def decide(self, cond, why=""):
        """Branch on a (possibly symbolic) condition; returns python bool and
        adds the taken side to the path condition."""
        if isinstance(cond, bool):
            return cond
        cond = z3.simplify(cond)
        if z3.is_true(cond):
            return True
        if z3.is_false(cond):
            return False
        k = len(self.decisions)
        if k < len(self.forced):
            c = self.forced[k]
        else:
            t_ok = self.feasible(cond)
            f_ok = self.feasible(z3.Not(cond))
            if t_ok and f_ok:
                self.pending.append(self.decisions + [1])
                c = 0
            elif t_ok:
                c = 0
            elif f_ok:
                c = 1
            else:
                raise Infeasible()
        self.decisions.append(c)
        if c == 0:
            self.pc.append(cond)
            return True
        self.pc.append(z3.Not(cond))
        return False

    POW2 = z3.Function("pow2", z3.IntSort(), z3.IntSort())

    def spec_pow2(self, e):
        """2**e for symbolic e >= 0: uninterpreted, axioms instantiated at use."""
        r = Interp.POW2(e)
        self.assume(z3.Implies(e >= 0, r >= 1))
        self.assume(z3.Implies(e == 0, r == 1))
        self.assume(z3.Implies(e >= 7, r == 128 * Interp.POW2(e - 7)))
        self.assume(z3.Implies(e >= 1, r == 2 * Interp.POW2(e - 1)))
        self.notes.add("assume:pow2 axioms (pow2(0)=1, pow2(n)=2*pow2(n-1), pow2(n)=128*pow2(n-7))")
        return r

    def raise_builtin(self, name, node=None, args=()):
        raise RaiseSig(ExcValue(name, args), node or self.cur_node)

    # ------------------------------------------------------------ name lookup
    def lookup(self, name, node=None):
        f = self.frame
        while f is not None:
            if name in f.env:
                return f.env[name]
            f = f.parent
        if self.in_spec:
            if name in self.ghost:
                return self.ghost[name]
            if name in self.extra_spec:
                return self.extra_spec[name]
            if name in B.SPEC_FUNCS:
                return B.SPEC_FUNCS[name]
        mod = self.frame.module
        if mod is not None and name in mod.names:
            return self.global_value(mod, name)
        ov = self.opts.get("builtin_override")
        if ov and name in ov and not self.in_spec:
            return ov[name]
        if name in B.BUILTINS:
            return B.BUILTINS[name]
        if name in self.ghost:
            return self.ghost[name]
        if name in self.extra_spec:
            return self.extra_spec[name]
        if name in B.SPEC_FUNCS:
            return B.SPEC_FUNCS[name]
        raise OutsideSubset("unresolved name %s" % name, node)

    def global_value(self, mod, name):
        key = (mod.name, name)
        if key in self.globals_cache:
            return self.globals_cache[key]
        ent = mod.names[name]
        kind = ent[0]
        if kind == "func":
            v = FuncRef(mod, name, ent[1])
        elif kind == "class":
            v = ClassRef(self.repo.klass(mod, name))
        elif kind == "module":
            v = ModuleRef(ent[1]) if self.repo.has_module(ent[1]) else ExternalRef(ent[1])
        elif kind == "from":
            modname, attr = ent[1], ent[2]
            if modname and self.repo.has_module(modname + "." + attr):
                v = ModuleRef(modname + "." + attr)
            elif modname and self.repo.has_module(modname):
                m2 = self.repo.module(modname)
                if attr in m2.names:
                    v = self.global_value(m2, attr)
                else:
                    raise OutsideSubset("name %s not found in %s" % (attr, modname))
            else:
                full = "%s.%s" % (modname, attr)
                v = B.EXTERNALS_ATTR[full]() if full in B.EXTERNALS_ATTR else ExternalRef(full)
        elif kind in ("assign", "assign_idx"):
            fr = Frame(mod, {}, label="<module %s>" % mod.name)
            self.frames.append(fr)
            try:
                v = self.ev(ent[1])
                if kind == "assign_idx":
                    v = self.getitem(v, ent[2])
            finally:
                self.frames.pop()
        else:
            raise OutsideSubset("global kind %s" % kind)
        absg = self.opts.get("abstract_globals") or {}
        if key in absg:
            # contract option: a module-level constant is replaced by an abstraction built from its real value
            v = absg[key](self, v)
        self.globals_cache[key] = v
        return v

    # ------------------------------------------------------------ expressions
    def ev(self, node):
        prev = self.cur_node
        if hasattr(node, "lineno"):
            self.cur_node = node
        try:
            m = getattr(self, "ev_" + type(node).__name__, None)
            if m is None:
                raise OutsideSubset("expression %s" % type(node).__name__, node)
            return m(node)
        finally:
            self.cur_node = prev

    def ev_Constant(self, node):
        return node.value

    def ev_Name(self, node):
        return self.lookup(node.id, node)

    def ev_Tuple(self, node):
        out = []
        for e in node.elts:
            if isinstance(e, ast.Starred):
                out.extend(self.iterate(self.ev(e.value), e))
            else:
                out.append(self.ev(e))
        return tuple(out)

    def ev_List(self, node):
        if not node.elts and self.opts.get("sym_empty_lists") and not self.in_spec:
            # contract option: an empty list literal of the verified function is a list of integers of symbolic
            # length (so that a loop appending to it can be cut at an invariant)
            return SymList(z3.K(z3.IntSort(), z3.IntVal(0)), z3.IntVal(0), "list")
        return PyList(self.ev_Tuple(node))

    def ev_Set(self, node):
        return PySet(self.ev_Tuple(node))

    def ev_Dict(self, node):
        if not node.keys and self.opts.get("empty_dict_factory") and not self.in_spec:
            # contract option: an empty dict literal of the verified function becomes the contract's ghost map
            return self.opts["empty_dict_factory"](self)
        d = {}
        for k, v in zip(node.keys, node.values):
            kk = self.ev(k)
            if not is_concrete(kk) and not isinstance(kk, (Builtin, ExternalRef, ClassRef)):
                raise OutsideSubset("dict literal with symbolic key", node)
            d[kk] = self.ev(v)
        return PyDict(d)

    def ev_Lambda(self, node):
        return Closure(node, self.frame)

    def ev_JoinedStr(self, node):
        return Opaque("f-string")

    def ev_UnaryOp(self, node):
        return self.unop(node.op, self.ev(node.operand))

    def ev_BinOp(self, node):
        a = self.ev(node.left)
        b = self.ev(node.right)
        return self.binop(node.op, a, b, node)

    def _simple(self, n):
        return isinstance(n, (ast.Name, ast.Constant)) or \
            (isinstance(n, ast.Attribute) and self._simple(n.value)) or \
            (isinstance(n, ast.UnaryOp) and self._simple(n.operand)) or \
            (isinstance(n, ast.Compare) and self._simple(n.left) and all(self._simple(c) for c in n.comparators))

    def ev_BoolOp(self, node):
        is_and = isinstance(node.op, ast.And)
        if self.in_spec:
            vals = [self.truth(self.ev(v)) for v in node.values]
            return self.conj(vals) if is_and else self.disj(vals)
        # value semantics with short circuit
        vals = node.values
        cur = self.ev(vals[0])
        for i in range(1, len(vals)):
            t = self.truth(cur)
            if isinstance(t, bool):
                if t != is_and:       # and: falsy stops ; or: truthy stops
                    return cur
                cur = self.ev(vals[i])
                continue
            rest_simple = all(self._simple(v) for v in vals[i:])
            if rest_simple:
                # no side effects possible: merge without forking; the right operand is only evaluated when the
                # left one lets it (short circuit), so obligations it raises are guarded by that condition
                guard = t if is_and else z3.Not(t)
                mark = len(self.pc)
                self.pc.append(guard)
                try:
                    nxt = self.ev(vals[i])
                finally:
                    added = self.pc[mark + 1:]
                    del self.pc[mark:]
                    for f_ in added:
                        self.pc.append(z3.Implies(guard, f_))
                cur = self.merge_boolop(is_and, cur, t, nxt)
                continue
            go_on = self.decide(t if is_and else z3.Not(t), "boolop")
            if not go_on:
                return cur
            cur = self.ev(vals[i])
        return cur

    def merge_boolop(self, is_and, left, tleft, right):
        tr = None
        if isinstance(right, (bool,)) or (is_z3(right) and z3.is_bool(right)):
            tr = right if not isinstance(right, bool) else z3.BoolVal(right)
        lb = is_z3(left) and z3.is_bool(left)
        if tr is not None and lb:
            return z3.And(left, tr) if is_and else z3.Or(left, tr)
        if isinstance(left, Opaque) or isinstance(right, Opaque):
            return Opaque("boolop")
        if is_num(left) and is_num(right):
            a, b = unify(to_z3(left), to_z3(right))
            return z3.If(tleft, b, a) if is_and else z3.If(tleft, a, b)
        if tr is not None:
            # mixed: only truthiness is meaningful
            tl = tleft
            return z3.And(tl, tr) if is_and else z3.Or(tl, tr)
        # fall back to forking
        go_on = self.decide(tleft if is_and else z3.Not(tleft), "boolop")
        return right if go_on else left

    def ev_Compare(self, node):
        left = self.ev(node.left)
        parts = []
        for op, comp in zip(node.ops, node.comparators):
            right = self.ev(comp)
            parts.append(self.compare(op, left, right, node))
            left = right
        return self.conj(parts) if len(parts) > 1 else parts[0]

    def ev_IfExp(self, node):
        t = self.truth(self.ev(node.test))
        if isinstance(t, bool):
            return self.ev(node.body if t else node.orelse)
        if self.in_spec or (self._simple(node.body) and self._simple(node.orelse)):
            a = self.ev(node.body)
            b = self.ev(node.orelse)
            return self.ite(t, a, b)
        if self.decide(t, "ifexp"):
            return self.ev(node.body)
        return self.ev(node.orelse)

    def ite(self, t, a, b):
        if isinstance(t, bool):
            return a if t else b
        if a is b:
            return a
        if is_num(a) and is_num(b):
            a, b = unify(to_z3(a), to_z3(b))
            return z3.If(t, a, b)
        if is_z3(a) and is_z3(b) and a.sort() == b.sort():
            return z3.If(t, a, b)
        if (isinstance(a, bool) or is_z3(a) and z3.is_bool(a)) and (isinstance(b, bool) or is_z3(b) and z3.is_bool(b)):
            return z3.If(t, to_z3(a), to_z3(b))
        if a is None and (is_num(b) or isinstance(b, Opt)):
            bb = b if isinstance(b, Opt) else Opt(z3.BoolVal(False), to_z3(b))
            return Opt(z3.If(t, z3.BoolVal(True), bb.isnone), bb.val)
        if b is None and (is_num(a) or isinstance(a, Opt)):
            aa = a if isinstance(a, Opt) else Opt(z3.BoolVal(False), to_z3(a))
            return Opt(z3.If(t, aa.isnone, z3.BoolVal(True)), aa.val)
        if isinstance(a, Opt) and is_num(b):
            return Opt(z3.If(t, a.isnone, z3.BoolVal(False)), z3.If(t, *unify(to_z3(a.val), to_z3(b))))
        if isinstance(b, Opt) and is_num(a):
            return Opt(z3.If(t, z3.BoolVal(False), b.isnone), z3.If(t, *unify(to_z3(a), to_z3(b.val))))
        if isinstance(a, tuple) and isinstance(b, tuple) and len(a) == len(b):
            return tuple(self.ite(t, x, y) for x, y in zip(a, b))
        if isinstance(a, Opaque) or isinstance(b, Opaque):
            return Opaque("ite")
        if self.decide(t, "ite"):
            return a
        return b

    def ev_Attribute(self, node):
        return self.getattr(self.ev(node.value), node.attr, node)

    def ev_Subscript(self, node):
        base = self.ev(node.value)
        if isinstance(node.slice, ast.Slice):
            lo = self.ev(node.slice.lower) if node.slice.lower else None
            hi = self.ev(node.slice.upper) if node.slice.upper else None
            st = self.ev(node.slice.step) if node.slice.step else None
            return self.getslice(base, lo, hi, st, node)
        return self.getitem(base, self.ev(node.slice), node)

    def ev_Starred(self, node):
        raise OutsideSubset("starred expression", node)

    def ev_ListComp(self, node):
        return PyList(self.comprehension(node.elt, node.generators, node))

    def ev_GeneratorExp(self, node):
        rep = self._repeat_comprehension(node)
        if rep is not None:
            return rep
        if len(node.generators) == 1 and node.generators[0].ifs and isinstance(node.generators[0].target, ast.Name):
            g0 = node.generators[0]
            it = self.ev(g0.iter)
            if isinstance(it, Abstract) and hasattr(it, "as_range"):
                lo, hi, stepv = it.as_range(self)
                if concrete_int(stepv) == 1 and (concrete_int(lo) is None or concrete_int(hi) is None):
                    return FilteredGen(lo, hi, (lambda i: i), g0.target, node.elt, list(g0.ifs), self.frame)
        if len(node.generators) == 1 and not node.generators[0].ifs and isinstance(node.generators[0].target, ast.Name):
            it = self.ev(node.generators[0].iter)
            if isinstance(it, Abstract) and hasattr(it, "iter_protocol"):
                lo, hi, stepv, getter = it.iter_protocol(self)
                if concrete_int(stepv) == 1 and (concrete_int(lo) is None or concrete_int(hi) is None):
                    return SymGen(lo, hi, getter, node.generators[0].target, node.elt, self.frame)
            if isinstance(it, SymList):
                arr0 = it.arr
                return SymGen(0, it.n, (lambda i: z3.Select(arr0, i)), node.generators[0].target, node.elt, self.frame)
        return PyList(self.comprehension(node.elt, node.generators, node))

    def _repeat_comprehension(self, node):
        """`x for _ in xrange(n)` with a symbolic n and an element that does not mention the loop variable: the list
        [x] * n (symbolic length)"""
        from .builtins import SymRange
        if len(node.generators) != 1:
            return None
        g = node.generators[0]
        if g.ifs or not isinstance(g.target, ast.Name):
            return None
        if any(isinstance(n, ast.Name) and n.id == g.target.id for n in ast.walk(node.elt)):
            return None
        if not (isinstance(g.iter, ast.Call) and isinstance(g.iter.func, ast.Name) and g.iter.func.id in ("xrange", "range")
                and len(g.iter.args) == 1):
            return None
        it = self.ev(g.iter)
        if not isinstance(it, SymRange):
            return None
        return self.list_repeat([self.ev(node.elt)], it.hi, node)

    def ev_SetComp(self, node):
        return PySet(self.comprehension(node.elt, node.generators, node))

    def comprehension(self, elt, gens, node):
        out = []
        fr = Frame(self.frame.module, {}, parent=self.frame, spec=self.frame.spec)

        def rec(i):
            if i == len(gens):
                out.append(self.ev(elt))
                return
            g = gens[i]
            it = self.iterate(self.ev(g.iter), node)
            for x in it:
                self.assign(g.target, x)
                ok = True
                for c in g.ifs:
                    t = self.truth(self.ev(c))
                    if not isinstance(t, bool):
                        t = self.decide(t, "comp-if")
                    if not t:
                        ok = False
                        break
                if ok:
                    rec(i + 1)
        self.frames.append(fr)
        try:
            rec(0)
        finally:
            self.frames.pop()
        return out

    def iterate(self, v, node=None):
        """Concrete-length iteration."""
        if isinstance(v, (tuple, list)):
            return list(v)
        if isinstance(v, PyList):
            return list(v.items)
        if isinstance(v, PySet):
            return list(v.items)
        if isinstance(v, PyDict):
            return list(v.d.keys())
        if isinstance(v, range):
            return list(v)
        if isinstance(v, (str,)):
            return list(v)
        if isinstance(v, bytes):
            return list(v)
        if isinstance(v, Abstract) and hasattr(v, "iterate"):
            return v.iterate(self)
        raise OutsideSubset("iteration over %r needs a loop invariant" % (v,), node)

    # ------------------------------------------------------------ attributes
    def getattr(self, obj, name, node=None):
        if isinstance(obj, Obj):
            if name in obj.fields:
                return obj.fields[name]
            if name == "__class__":
                return ClassRef(obj.cls)
            fm = obj.cls.find_method(name)
            if fm:
                ci, fn = fm
                fr = FuncRef(ci.module, "%s.%s" % (ci.qualname, name), fn, ci)
                decos = [ast.unparse(d) for d in fn.decorator_list]
                if "property" in decos or "cached_property" in decos:
                    return self.call_function(fr, [obj], {})
                if "staticmethod" in decos:
                    return fr
                if "classmethod" in decos:
                    return BoundMethod(fr, ClassRef(obj.cls))
                return BoundMethod(fr, obj)
            fa = obj.cls.find_attr(name)
            if fa:
                ci, valnode = fa
                fr = Frame(ci.module, {}, label="<class %s>" % ci.qualname)
                self.frames.append(fr)
                try:
                    return self.ev(valnode)
                finally:
                    self.frames.pop()
            if self.in_spec and name in ("_ghost",):
                return None
            self.raise_builtin("AttributeError", node, (name,))
        if isinstance(obj, Abstract):
            if hasattr(obj, "m_" + name):
                return AbstractMethod(obj, name)
            if hasattr(obj, "a_" + name):
                return getattr(obj, "a_" + name)(self)
            if self.in_spec and hasattr(obj, "g_" + name):
                g = getattr(obj, "g_" + name)
                return SpecFn(name, g) if callable(g) else g
            if hasattr(obj, "getattr"):
                return obj.getattr(self, name, node)
            self.raise_builtin("AttributeError", node, (name,))
        if isinstance(obj, ModuleRef):
            mod = self.repo.module(obj.name)
            if name in mod.names:
                return self.global_value(mod, name)
            if self.repo.has_module(obj.name + "." + name):
                return ModuleRef(obj.name + "." + name)
            raise OutsideSubset("module %s has no %s" % (obj.name, name), node)
        if isinstance(obj, ExternalRef):
            full = obj.name + "." + name
            if full in B.EXTERNALS_ATTR:
                return B.EXTERNALS_ATTR[full]()
            return ExternalRef(full)
        if isinstance(obj, ClassRef):
            if name == "__name__":
                return obj.info.node.name
            fm = obj.info.find_method(name)
            if fm:
                ci, fn = fm
                fr = FuncRef(ci.module, "%s.%s" % (ci.qualname, name), fn, ci)
                decos = [ast.unparse(d) for d in fn.decorator_list]
                if "classmethod" in decos:
                    return BoundMethod(fr, obj)
                return fr
            fa = obj.info.find_attr(name)
            if fa:
                ci, valnode = fa
                fr = Frame(ci.module, {}, label="<class %s>" % ci.qualname)
                self.frames.append(fr)
                try:
                    return self.ev(valnode)
                finally:
                    self.frames.pop()
            if name in obj.info.inner:
                return ClassRef(self.repo.klass(obj.info.module, obj.info.qualname + "." + name))
            raise OutsideSubset("class %s has no %s" % (obj.info.key, name), node)
        if isinstance(obj, (PyList, PyDict, PySet, SymList)):
            return NativeMethod(obj, name)
        if isinstance(obj, (str, bytes, tuple, int, float)):
            return NativeMethod(obj, name)
        if isinstance(obj, Builtin):
            return ExternalRef("builtins.%s.%s" % (obj.name, name))
        if isinstance(obj, Opt):
            if self.in_spec and name == "val":
                return obj.val
            if self.in_spec and name == "isnone":
                return obj.isnone
            return self.getattr(self.unwrap_opt(obj, "attribute " + name), name, node)
        if isinstance(obj, ExcValue):
            if name == "args":
                return obj.args
            if name in getattr(obj, "attrs", {}):
                return obj.attrs[name]
        if obj is None:
            self.raise_builtin("AttributeError", node, (name,))
        if isinstance(obj, Opaque):
            return Opaque("attr %s of opaque" % name)
        if is_z3(obj):
            return NativeMethod(obj, name)
        raise OutsideSubset("attribute %s of %r" % (name, obj), node)

    def setattr(self, obj, name, val, node=None):
        if isinstance(obj, Obj):
            obj.fields[name] = val
            return
        if isinstance(obj, Abstract) and hasattr(obj, "setattr"):
            return obj.setattr(self, name, val)
        raise OutsideSubset("attribute store on %r" % (obj,), node)

    # ------------------------------------------------------------ subscripts
    def getitem(self, base, idx, node=None):
        if isinstance(base, Opt):
            base = self.unwrap_opt(base, "subscript")
        if isinstance(base, (tuple, list, str, bytes)) or isinstance(base, PyList):
            items = base.items if isinstance(base, PyList) else base
            ci = concrete_int(idx)
            if ci is not None:
                if -len(items) <= ci < len(items):
                    return items[ci]
                self.raise_builtin("IndexError", node)
            if is_z3(idx) and not isinstance(base, (str,)):
                # symbolic index into a concrete-length sequence
                n = len(items)
                inb = z3.And(idx >= -n, idx < n)
                if not self.decide(inb, "index-in-bounds"):
                    self.raise_builtin("IndexError", node)
                if n == 0:
                    raise Infeasible()
                res = items[n - 1]
                for k in range(n - 2, -1, -1):
                    res = self.ite(z3.Or(idx == k, idx == k - n), items[k], res)
                return res
            raise OutsideSubset("subscript %r" % (idx,), node)
        if isinstance(base, PyDict):
            if is_concrete(idx) or isinstance(idx, (Builtin, ClassRef, ExternalRef)):
                if idx in base.d:
                    return base.d[idx]
                self.raise_builtin("KeyError", node)
            # symbolic key over concrete keys
            keys = list(base.d.keys())
            hit = self.disj([self.compare(ast.Eq(), idx, k) for k in keys])
            if not self.decide(hit, "key-present"):
                self.raise_builtin("KeyError", node)
            res = base.d[keys[-1]]
            for k in reversed(keys[:-1]):
                res = self.ite(self.compare(ast.Eq(), idx, k), base.d[k], res)
            return res
        if isinstance(base, SymList):
            return self.symlist_get(base, idx, node)
        if isinstance(base, Abstract) and hasattr(base, "getitem"):
            return base.getitem(self, idx, node)
        if isinstance(base, Obj) and base.cls.find_method("__getitem__"):
            return self.call_method(base, "__getitem__", [idx], {})
        if is_z3(base) and z3.is_array(base):
            return z3.Select(base, to_z3(idx))
        raise OutsideSubset("subscript on %r" % (base,), node)

    def symlist_get(self, base, idx, node=None):
        idx = to_z3(idx)
        inb = z3.And(idx >= -base.n, idx < base.n)
        if self.in_spec:
            return z3.Select(base.arr, z3.If(idx < 0, idx + base.n, idx))
        if not self.decide(inb, "index-in-bounds"):
            self.raise_builtin("IndexError", node)
        ci = concrete_int(idx)
        if ci is not None and ci >= 0:
            return z3.Select(base.arr, idx)
        if ci is not None and ci < 0:
            return z3.Select(base.arr, idx + base.n)
        return z3.Select(base.arr, z3.If(idx < 0, idx + base.n, idx))

    def getslice(self, base, lo, hi, st, node=None):
        if isinstance(base, (tuple, list, str, bytes)) or isinstance(base, PyList):
            items = base.items if isinstance(base, PyList) else base
            clo = None if lo is None else concrete_int(lo)
            chi = None if hi is None else concrete_int(hi)
            cst = None if st is None else concrete_int(st)
            if (lo is None or clo is not None) and (hi is None or chi is not None) and (st is None or cst is not None):
                r = items[slice(clo, chi, cst)]
                return PyList(r) if isinstance(base, PyList) else r
        if isinstance(base, Abstract) and hasattr(base, "getslice"):
            return base.getslice(self, lo, hi, st, node)
        if isinstance(base, SymList) and st is None:
            return self.symlist_slice(base, lo, hi, node)
        raise OutsideSubset("slice of %r" % (base,), node)

    def symlist_slice(self, base, lo, hi, node=None):
        raise OutsideSubset("slice of symbolic list", node)

    def setitem(self, base, idx, val, node=None):
        if isinstance(base, PyList):
            ci = concrete_int(idx)
            if ci is not None:
                if -len(base.items) <= ci < len(base.items):
                    base.items[ci] = val
                    return
                self.raise_builtin("IndexError", node)
            n = len(base.items)
            inb = z3.And(idx >= -n, idx < n)
            if not self.decide(inb, "index-in-bounds"):
                self.raise_builtin("IndexError", node)
            for k in range(n):
                base.items[k] = self.ite(z3.Or(idx == k, idx == k - n), val, base.items[k])
            return
        if isinstance(base, PyDict):
            if is_concrete(idx):
                base.d[idx] = val
                return
        if isinstance(base, SymList):
            idx = to_z3(idx)
            inb = z3.And(idx >= -base.n, idx < base.n)
            if not self.decide(inb, "index-in-bounds"):
                self.raise_builtin("IndexError", node)
            base.arr = z3.Store(base.arr, z3.If(idx < 0, idx + base.n, idx), to_z3(val, like=None) if not is_z3(val) else val)
            return
        if isinstance(base, Abstract) and hasattr(base, "setitem"):
            return base.setitem(self, idx, val, node)
        if isinstance(base, Obj) and base.cls.find_method("__setitem__"):
            self.call_method(base, "__setitem__", [idx, val], {})
            return
        raise OutsideSubset("subscript store on %r" % (base,), node)

    # ------------------------------------------------------------ assignment
    def assign(self, target, val):
        if isinstance(target, ast.Name):
            self.frame.env[target.id] = val
        elif isinstance(target, ast.Attribute):
            self.setattr(self.ev(target.value), target.attr, val, target)
        elif isinstance(target, ast.Subscript):
            base = self.ev(target.value)
            if isinstance(target.slice, ast.Slice):
                raise OutsideSubset("slice assignment", target)
            self.setitem(base, self.ev(target.slice), val, target)
        elif isinstance(target, (ast.Tuple, ast.List)):
            items = self.iterate(val, target)
            if len(items) != len(target.elts):
                self.raise_builtin("ValueError", target)
            for t, v in zip(target.elts, items):
                self.assign(t, v)
        else:
            raise OutsideSubset("assignment target %s" % type(target).__name__, target)
