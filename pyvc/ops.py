"""Arithmetic, comparison and truthiness on the value domain.

Semantics assumed (DESIGN 2.3): Python int = mathematical Int (exact);
float arithmetic in scoring code = Real (assumption T6) unless the value is a
z3 FP term (exact IEEE); bit operations on Int only with concrete masks/shifts
(exact) or in bounded-int mode on BitVec with no-overflow side obligations.
"""
import ast
import operator
import z3
from .values import (OutsideSubset, Opaque, Opt, PyList, SymList, Obj, Abstract,
                     is_z3, is_concrete, ClassRef, Builtin, ExternalRef, PyDict, PySet)

RNE = z3.RNE()


def pow2(k):
    return 1 << k


def to_z3(v, like=None):
    """Lift a concrete python number to z3, shaped like `like` if given."""
    if is_z3(v):
        return v
    if isinstance(v, bool):
        if like is not None and z3.is_int(like):
            return z3.IntVal(int(v))
        if like is not None and z3.is_real(like):
            return z3.RealVal(int(v))
        return z3.BoolVal(v)
    if isinstance(v, int):
        if like is not None:
            if z3.is_bv(like):
                return z3.BitVecVal(v, like.size())
            if z3.is_real(like):
                return z3.RealVal(v)
            if z3.is_fp(like):
                return z3.FPVal(float(v), like.sort())
        return z3.IntVal(v)
    if isinstance(v, float):
        if like is not None and z3.is_fp(like):
            return z3.FPVal(v, like.sort())
        return z3.RealVal(repr(v)) if v == v and v not in (float("inf"), float("-inf")) else _bad(v)
    raise OutsideSubset("cannot lift %r to z3" % (v,))


def _bad(v):
    raise OutsideSubset("non-finite float constant %r in real arithmetic" % (v,))


def unify(a, b):
    """Lift two numeric operands to a common z3 sort."""
    if not is_z3(a) and not is_z3(b):
        return a, b
    if not is_z3(a):
        a = to_z3(a, b)
    if not is_z3(b):
        b = to_z3(b, a)
    if z3.is_bool(a):
        a = z3.If(a, 1, 0)
    if z3.is_bool(b):
        b = z3.If(b, 1, 0)
    if z3.is_int(a) and z3.is_real(b):
        a = z3.ToReal(a)
    elif z3.is_real(a) and z3.is_int(b):
        b = z3.ToReal(b)
    elif z3.is_int(a) and z3.is_bv(b):
        raise OutsideSubset("mixing Int and BitVec")
    elif z3.is_bv(a) and z3.is_int(b):
        raise OutsideSubset("mixing BitVec and Int")
    return a, b


def is_num(v):
    return isinstance(v, (int, float)) and not isinstance(v, bool) or isinstance(v, bool) or \
        (is_z3(v) and (z3.is_int(v) or z3.is_real(v) or z3.is_bv(v) or z3.is_fp(v)))


def concrete_int(v):
    """-> python int if v is a concrete integer (python or z3 numeral)."""
    if isinstance(v, bool):
        return int(v)
    if isinstance(v, int):
        return v
    if is_z3(v):
        v = z3.simplify(v)
        if z3.is_int_value(v):
            return v.as_long()
        if z3.is_bv_value(v):
            return v.as_signed_long()
    return None


class Ops(object):
    """Mixin for Interp: needs self.oblige(kind,label,formula), self.fresh()."""

    # ---------------------------------------------------------------- truth
    def truth(self, v):
        if isinstance(v, bool):
            return v
        if v is None:
            return False
        if isinstance(v, (int, float, str, bytes, tuple)):
            return bool(v)
        if is_z3(v):
            if z3.is_bool(v):
                return v
            if z3.is_int(v) or z3.is_real(v):
                return v != 0
            if z3.is_bv(v):
                return v != z3.BitVecVal(0, v.size())
            if z3.is_fp(v):
                return z3.Not(z3.fpIsZero(v))
            if z3.is_seq(v):
                return z3.Length(v) != 0
            raise OutsideSubset("truthiness of sort %s" % v.sort())
        if isinstance(v, Opt):
            tv = self.truth(v.val)
            if isinstance(tv, bool):
                tv = z3.BoolVal(tv)
            return z3.And(z3.Not(v.isnone), tv)
        if isinstance(v, PyList):
            return len(v.items) > 0
        if isinstance(v, PyDict):
            return len(v.d) > 0
        if isinstance(v, PySet):
            return len(v.items) > 0
        if isinstance(v, SymList):
            return v.n != 0
        if isinstance(v, Obj):
            for nm in ("__bool__", "__nonzero__", "__len__"):
                if v.cls.find_method(nm):
                    r = self.call_method(v, nm, [], {})
                    return self.truth(r)
            return True
        if isinstance(v, Abstract):
            if hasattr(v, "truth"):
                return v.truth(self)
            return True
        if isinstance(v, Opaque):
            return self.fresh_bool("truth")
        if isinstance(v, (ClassRef, Builtin, ExternalRef)):
            return True
        return True

    # ---------------------------------------------------------------- unary
    def unop(self, op, v):
        if isinstance(op, ast.Not):
            t = self.truth(v)
            return (not t) if isinstance(t, bool) else z3.Not(t)
        if isinstance(v, Opt):
            v = self.unwrap_opt(v, "unary operand")
        if isinstance(op, ast.USub):
            if is_concrete(v):
                return -v
            if z3.is_fp(v):
                return z3.fpNeg(v)
            if z3.is_bv(v):
                self.oblige("no-wrap", "neg", v != z3.BitVecVal(1 << (v.size() - 1), v.size()))
            return -v
        if isinstance(op, ast.UAdd):
            return v
        if isinstance(op, ast.Invert):
            if isinstance(v, int):
                return ~v
            if z3.is_bv(v):
                return ~v
            if z3.is_int(v):
                return -v - 1
        raise OutsideSubset("unary %s on %r" % (type(op).__name__, v))

    # ---------------------------------------------------------------- binary
    def binop(self, op, a, b, node=None):
        if isinstance(a, Opt):
            a = self.unwrap_opt(a, "left operand")
        if isinstance(b, Opt):
            b = self.unwrap_opt(b, "right operand")
        if isinstance(op, (ast.Add, ast.Sub, ast.Mult)):
            # bool is a subclass of int: a symbolic truth value in arithmetic counts 1 / 0
            if is_z3(a) and z3.is_bool(a) and (is_num(b) or (is_z3(b) and z3.is_bool(b))):
                a = z3.If(a, 1, 0)
            if is_z3(b) and z3.is_bool(b) and is_num(a):
                b = z3.If(b, 1, 0)
        # fully concrete: python semantics directly
        if is_concrete(a) and is_concrete(b) and a is not None and b is not None:
            try:
                return _PYOPS[type(op)](a, b)
            except ZeroDivisionError:
                self.raise_builtin("ZeroDivisionError", node)
            except (TypeError, ValueError, OverflowError) as e:
                raise OutsideSubset("concrete op failed: %s" % e, node)
        if isinstance(a, Opaque) or isinstance(b, Opaque):
            if isinstance(op, ast.Mod) and isinstance(a, str):
                return Opaque("formatted string")
            return Opaque("arith on opaque")
        if isinstance(a, str) and isinstance(op, ast.Mod):
            return Opaque("formatted string")
        if isinstance(a, PyList) and isinstance(b, PyList) and isinstance(op, ast.Add):
            return PyList(a.items + b.items)
        if isinstance(a, PyList) and isinstance(op, ast.Mult) and concrete_int(b) is not None:
            return PyList(a.items * concrete_int(b))
        if isinstance(a, PyList) and isinstance(op, ast.Mult) and is_z3(b) and z3.is_int(b):
            return self.list_repeat(a.items, b, node)
        if isinstance(a, PyList) and isinstance(b, SymList) and isinstance(op, ast.Add):
            return self.seq_binop(op, a, b, node)
        if isinstance(a, tuple) and isinstance(b, tuple) and isinstance(op, ast.Add):
            return a + b
        if isinstance(a, tuple) and isinstance(op, ast.Mult) and concrete_int(b) is not None:
            return a * concrete_int(b)
        if isinstance(a, tuple) and len(a) == 1 and isinstance(op, ast.Mult) and is_z3(b) and z3.is_int(b):
            return self.list_repeat(list(a), b, node)        # (x,) * n with a symbolic n
        if isinstance(a, (SymList,)) or isinstance(b, (SymList,)):
            return self.seq_binop(op, a, b, node)
        if is_z3(a) and z3.is_seq(a) or is_z3(b) and z3.is_seq(b):
            return self.seq_binop(op, a, b, node)
        if isinstance(a, PySet) or isinstance(b, PySet):
            return self.set_binop(op, a, b, node)
        if not (is_num(a) and is_num(b)):
            if isinstance(a, Obj):
                nm = _DUNDER.get(type(op))
                if nm and a.cls.find_method(nm):
                    return self.call_method(a, nm, [b], {})
            if isinstance(a, Abstract) and hasattr(a, "binop"):
                return a.binop(self, op, b, False)
            if isinstance(b, Abstract) and hasattr(b, "binop"):
                return b.binop(self, op, a, True)
            raise OutsideSubset("binary %s on %r, %r" % (type(op).__name__, a, b), node)
        # shifts / bit ops with concrete operand on Int
        if isinstance(op, (ast.LShift, ast.RShift, ast.BitAnd, ast.BitOr, ast.BitXor)):
            return self.bitop(op, a, b, node)
        a, b = unify(a, b)
        if z3.is_fp(a) or z3.is_fp(b):
            return self.fpop(op, a, b, node)
        if z3.is_bv(a):
            return self.bvarith(op, a, b, node)
        if isinstance(op, ast.Add):
            return a + b
        if isinstance(op, ast.Sub):
            return a - b
        if isinstance(op, ast.Mult):
            return a * b
        if isinstance(op, ast.Div):
            self.div_guard(b, node)
            if z3.is_int(a):
                a = z3.ToReal(a)
            if z3.is_int(b):
                b = z3.ToReal(b)
            return a / b
        if isinstance(op, ast.FloorDiv):
            self.div_guard(b, node)
            if z3.is_int(a) and z3.is_int(b):
                return self.floordiv(a, b)
            raise OutsideSubset("floor division on reals", node)
        if isinstance(op, ast.Mod):
            self.div_guard(b, node)
            if z3.is_int(a) and z3.is_int(b):
                return self.pymod(a, b)
            raise OutsideSubset("modulo on reals", node)
        if isinstance(op, ast.Pow):
            cb = concrete_int(b)
            if cb is not None and cb >= 0 and cb <= 8:
                r = to_z3(1, a)
                for _ in range(cb):
                    r = r * a
                return r
            ca = concrete_int(a)
            if ca == 2 and z3.is_int(b):
                return self.spec_pow2(b)
            raise OutsideSubset("symbolic power", node)
        raise OutsideSubset("binary %s" % type(op).__name__, node)

    def div_guard(self, b, node):
        if is_z3(b):
            nz = b != 0
            t = self.decide(nz, "divisor-nonzero")
            if not t:
                self.raise_builtin("ZeroDivisionError", node)

    def floordiv(self, a, b):
        # python floor division; SMT `div` floors for positive divisor and
        # ceils for negative divisor
        cb = concrete_int(b)
        if cb is not None and cb > 0:
            return a / b
        return self._floordiv_general(a, b)

    def _floordiv_general(self, a, b):
        # floor(a/b) for any sign of b (b != 0): SMT-LIB div: a = b*q + r, 0<=r<|b|
        q = a / b
        r = a % b
        # for b>0, q is floor. for b<0: a = b*q + r with r>=0 -> a/b = q + r/b, r/b <= 0 ->
        # floor = q if r == 0 else q - 1
        return z3.If(b > 0, q, z3.If(r == 0, q, q - 1))

    def pymod(self, a, b):
        cb = concrete_int(b)
        if cb is not None and cb > 0:
            return a % b
        r = a % b  # SMT: 0 <= r < |b|
        return z3.If(b > 0, r, z3.If(r == 0, r, r + b))

    # ------------------------------------------------------------ bit level
    def bitop(self, op, a, b, node):
        ca, cb = concrete_int(a), concrete_int(b)
        if is_z3(a) and z3.is_bv(a) or is_z3(b) and z3.is_bv(b):
            a, b = unify(a, b)
            return self.bvarith(op, a, b, node)
        if is_z3(a) and not z3.is_int(a) or is_z3(b) and not z3.is_int(b):
            raise OutsideSubset("bit operation on non-integers", node)
        if isinstance(op, ast.LShift):
            if cb is not None:
                if cb < 0:
                    self.raise_builtin("ValueError", node)
                return to_z3(a) * pow2(cb)
            if self.opts.get("split_small_shifts") and not self.in_spec:
                # contract option: a shift amount known to lie in [0, 8) (typically `i & 7`) is decided case by case, so
                # that the mask is a concrete power of two on each path
                bz = to_z3(b)
                if not self.feasible(z3.Not(z3.And(bz >= 0, bz < 8))):
                    for j in range(8):
                        if self.decide(bz == j, "shift-amount"):
                            return to_z3(a) * pow2(j) if ca is None else ca * (1 << j)
            # symbolic shift: x * pow2(s) with pow2 axiomatised (varints)
            self.oblige("no-raise", "shift-nonneg", b >= 0)
            return to_z3(a) * self.spec_pow2(to_z3(b))
        if isinstance(op, ast.RShift):
            if cb is not None:
                if cb < 0:
                    self.raise_builtin("ValueError", node)
                return to_z3(a) / pow2(cb)
            raise OutsideSubset("symbolic right shift", node)
        if isinstance(op, ast.BitAnd):
            if ca is not None and cb is None:
                a, b, ca, cb = b, a, cb, ca
            if cb is not None:
                m = cb
                if m >= 0 and (m & (m + 1)) == 0:      # 2^k - 1
                    return a % (m + 1)
                if m >= 0:
                    # contiguous run of ones: ((1<<w)-1) << s
                    s = (m & -m).bit_length() - 1 if m else 0
                    mm = m >> s
                    if m and (mm & (mm + 1)) == 0:
                        w = mm.bit_length()
                        return ((a / pow2(s)) % pow2(w)) * pow2(s)
                if m < 0:
                    nm = ~m
                    if (nm & (nm + 1)) == 0:           # ~(2^k-1): clear low bits
                        return a - (a % (nm + 1))
                    if nm > 0 and (nm & (nm - 1)) == 0:  # ~(2^k): clear bit k (exact for any integer a)
                        a = to_z3(a)
                        return a - ((a / nm) % 2) * nm
            raise OutsideSubset("bitwise and with non-mask operand", node)
        if isinstance(op, ast.BitOr):
            if ca is not None and cb is None:
                a, b, ca, cb = b, a, cb, ca
            if cb is not None and cb >= 0 and (cb & (cb + 1)) == 0:
                return a - (a % (cb + 1)) + cb
            if cb is not None and cb > 0 and (cb & (cb - 1)) == 0:
                # a | 2^k : set bit k (exact for any integer a)
                a = to_z3(a)
                return z3.If((a / cb) % 2 == 0, a + cb, a)
            # disjoint-bits or: x | (c << s) == x + c*2^s when x < 2^s ; requested explicitly
            r = self.try_disjoint_or(a, b, node)
            if r is not None:
                return r
            raise OutsideSubset("bitwise or with non-mask operand", node)
        if isinstance(op, ast.BitXor):
            if cb == -1:
                return -to_z3(a) - 1          # x ^ ~0 == ~x
            if ca == -1:
                return -to_z3(b) - 1
            raise OutsideSubset("xor on mathematical ints (use bounded-int mode)", node)
        raise OutsideSubset("bit operation", node)

    def try_disjoint_or(self, a, b, node):
        """x | (c * 2^s) == x + c * 2^s when 0 <= x < 2^s (bits disjoint); the
        side condition becomes an obligation."""
        from .interp import Interp
        for x, y in ((a, b), (b, a)):
            if is_z3(y) and z3.is_mul(y):
                for ch in y.children():
                    if z3.is_app(ch) and ch.decl().name() == "pow2":
                        p = ch
                        self.oblige("no-wrap", "or-disjoint", z3.And(to_z3(x) >= 0, to_z3(x) < p),
                                    note="x | (c << s) encoded as x + c*2^s needs 0 <= x < 2^s")
                        return to_z3(x) + y
        return None

    def bvarith(self, op, a, b, node):
        W = a.size()
        if isinstance(op, ast.Add):
            self.oblige("no-wrap", "add", z3.And(z3.BVAddNoOverflow(a, b, True), z3.BVAddNoUnderflow(a, b)))
            return a + b
        if isinstance(op, ast.Sub):
            self.oblige("no-wrap", "sub", z3.And(z3.BVSubNoOverflow(a, b), z3.BVSubNoUnderflow(a, b, True)))
            return a - b
        if isinstance(op, ast.Mult):
            self.oblige("no-wrap", "mul", z3.And(z3.BVMulNoOverflow(a, b, True), z3.BVMulNoUnderflow(a, b)))
            return a * b
        if isinstance(op, ast.BitAnd):
            return a & b
        if isinstance(op, ast.BitOr):
            return a | b
        if isinstance(op, ast.BitXor):
            return a ^ b
        if isinstance(op, ast.LShift):
            cb = concrete_int(b)
            if cb is None:
                raise OutsideSubset("symbolic shift in bounded-int mode", node)
            if cb >= W:
                self.oblige("no-wrap", "shl", a == z3.BitVecVal(0, W))
                return z3.BitVecVal(0, W)
            r = a << cb
            # no bits lost: arithmetic shift back gives the operand
            self.oblige("no-wrap", "shl", (r >> cb) == a)
            return r
        if isinstance(op, ast.RShift):
            cb = concrete_int(b)
            if cb is None:
                raise OutsideSubset("symbolic shift in bounded-int mode", node)
            if cb >= W:
                cb = W - 1
            return a >> cb      # arithmetic, as python
        if isinstance(op, ast.FloorDiv) or isinstance(op, ast.Mod):
            raise OutsideSubset("division in bounded-int mode", node)
        raise OutsideSubset("bv op %s" % type(op).__name__, node)

    def fpop(self, op, a, b, node):
        if isinstance(op, ast.Add):
            return z3.fpAdd(RNE, a, b)
        if isinstance(op, ast.Sub):
            return z3.fpSub(RNE, a, b)
        if isinstance(op, ast.Mult):
            return z3.fpMul(RNE, a, b)
        if isinstance(op, ast.Div):
            return z3.fpDiv(RNE, a, b)
        raise OutsideSubset("fp op", node)

    # ---------------------------------------------------------------- compare
    def compare(self, op, a, b, node=None):
        if isinstance(op, (ast.Is, ast.IsNot)):
            r = self.identical(a, b)
            if isinstance(op, ast.IsNot):
                r = (not r) if isinstance(r, bool) else z3.Not(r)
            return r
        if isinstance(op, (ast.In, ast.NotIn)):
            r = self.contains(b, a, node)
            if isinstance(op, ast.NotIn):
                r = (not r) if isinstance(r, bool) else z3.Not(r)
            return r
        if isinstance(a, Opt) or isinstance(b, Opt):
            if isinstance(op, (ast.Eq, ast.NotEq)):
                r = self.opt_eq(a, b)
                return r if isinstance(op, ast.Eq) else (not r if isinstance(r, bool) else z3.Not(r))
            if isinstance(a, Opt):
                a = self.unwrap_opt(a, "comparison")
            if isinstance(b, Opt):
                b = self.unwrap_opt(b, "comparison")
        if is_concrete(a) and is_concrete(b):
            if isinstance(op, (ast.Eq, ast.NotEq)) or (a is not None and b is not None):
                try:
                    return _PYCMP[type(op)](a, b)
                except TypeError:
                    self.raise_builtin("TypeError", node)
        if isinstance(a, Obj) and not isinstance(op, (ast.Is, ast.IsNot)):
            nm = _CMPDUNDER[type(op)]
            if a.cls.find_method(nm):
                return self.truth(self.call_method(a, nm, [b], {}))
            if isinstance(op, ast.NotEq) and a.cls.find_method("__eq__"):
                t = self.truth(self.call_method(a, "__eq__", [b], {}))
                return (not t) if isinstance(t, bool) else z3.Not(t)
            if isinstance(op, ast.Eq):
                return a is b
            if isinstance(op, ast.NotEq):
                return a is not b
        if isinstance(op, (ast.Eq, ast.NotEq)) and (isinstance(a, bool) or (is_z3(a) and z3.is_bool(a))) \
                and (isinstance(b, bool) or (is_z3(b) and z3.is_bool(b))):
            r = to_z3(a) == to_z3(b)
            return r if isinstance(op, ast.Eq) else z3.Not(r)
        if isinstance(a, Abstract) and hasattr(a, "compare"):
            return a.compare(self, op, b, False)
        if isinstance(b, Abstract) and hasattr(b, "compare"):
            return b.compare(self, op, a, True)
        if isinstance(op, (ast.Eq, ast.NotEq)) and (a is None or b is None):
            # None against a non-optional value
            other = b if a is None else a
            if isinstance(other, Opaque):
                r = self.fresh_bool("eqnone")
            else:
                r = False
            return r if isinstance(op, ast.Eq) else (not r if isinstance(r, bool) else z3.Not(r))
        if isinstance(a, tuple) and isinstance(b, tuple):
            return self.tuple_compare(op, a, b, node)
        if isinstance(a, (ClassRef, Builtin, ExternalRef)) or isinstance(b, (ClassRef, Builtin, ExternalRef)):
            if isinstance(op, ast.Eq):
                return a == b
            if isinstance(op, ast.NotEq):
                return not (a == b)
        if isinstance(a, Opaque) or isinstance(b, Opaque):
            return self.fresh_bool("cmp-opaque")
        if (isinstance(a, (str, bytes)) and is_num(b)) or (isinstance(b, (str, bytes)) and is_num(a)):
            if isinstance(op, ast.Eq):
                return False
            if isinstance(op, ast.NotEq):
                return True
            self.raise_builtin("TypeError", node)
        if isinstance(a, (str, bytes)) or isinstance(b, (str, bytes)):
            a2, b2 = self.lift_str(a), self.lift_str(b)
            if a2 is not None and b2 is not None:
                if isinstance(op, ast.Eq):
                    return a2 == b2
                if isinstance(op, ast.NotEq):
                    return a2 != b2
            raise OutsideSubset("string comparison", node)
        if isinstance(a, SymList) or isinstance(b, SymList) or isinstance(a, PyList) or isinstance(b, PyList):
            return self.seq_compare(op, a, b, node)
        if not (is_num(a) and is_num(b)):
            if is_z3(a) and is_z3(b) and a.sort() == b.sort():
                if isinstance(op, ast.Eq):
                    return a == b
                if isinstance(op, ast.NotEq):
                    return a != b
            raise OutsideSubset("comparison %s of %r, %r" % (type(op).__name__, a, b), node)
        a, b = unify(a, b)
        if z3.is_fp(a):
            return {ast.Eq: z3.fpEQ, ast.NotEq: z3.fpNEQ, ast.Lt: z3.fpLT, ast.LtE: z3.fpLEQ,
                    ast.Gt: z3.fpGT, ast.GtE: z3.fpGEQ}[type(op)](a, b)
        if isinstance(op, ast.Eq):
            return a == b
        if isinstance(op, ast.NotEq):
            return a != b
        if isinstance(op, ast.Lt):
            return a < b
        if isinstance(op, ast.LtE):
            return a <= b
        if isinstance(op, ast.Gt):
            return a > b
        if isinstance(op, ast.GtE):
            return a >= b
        raise OutsideSubset("comparison", node)

    def lift_str(self, v):
        return None

    def tuple_compare(self, op, a, b, node):
        if isinstance(op, (ast.Eq, ast.NotEq)):
            if len(a) != len(b):
                r = False
            else:
                parts = [self.compare(ast.Eq(), x, y, node) for x, y in zip(a, b)]
                r = self.conj(parts)
            if isinstance(op, ast.NotEq):
                r = (not r) if isinstance(r, bool) else z3.Not(r)
            return r
        # lexicographic
        strict = isinstance(op, (ast.Lt, ast.Gt))
        lt = ast.Lt() if isinstance(op, (ast.Lt, ast.LtE)) else ast.Gt()
        res = (len(a) < len(b)) if isinstance(op, ast.Lt) else (len(a) <= len(b)) if isinstance(op, ast.LtE) \
            else (len(a) > len(b)) if isinstance(op, ast.Gt) else (len(a) >= len(b))
        for x, y in reversed(list(zip(a, b))):
            l = self.compare(lt, x, y, node)
            e = self.compare(ast.Eq(), x, y, node)
            res = self.disj([l, self.conj([e, res])])
        return res

    def conj(self, parts):
        out = []
        for p in parts:
            if isinstance(p, bool):
                if not p:
                    return False
            else:
                out.append(p)
        if not out:
            return True
        return z3.And(*out) if len(out) > 1 else out[0]

    def disj(self, parts):
        out = []
        for p in parts:
            if isinstance(p, bool):
                if p:
                    return True
            else:
                out.append(p)
        if not out:
            return False
        return z3.Or(*out) if len(out) > 1 else out[0]

    def neg(self, p):
        return (not p) if isinstance(p, bool) else z3.Not(p)

    def identical(self, a, b):
        if isinstance(a, Opt) and b is None:
            return a.isnone
        if isinstance(b, Opt) and a is None:
            return b.isnone
        if a is None or b is None:
            if isinstance(a, Opaque) or isinstance(b, Opaque):
                return self.fresh_bool("isnone")
            if isinstance(a, Abstract) and hasattr(a, "is_none"):
                return a.is_none(self)
            if isinstance(b, Abstract) and hasattr(b, "is_none"):
                return b.is_none(self)
            return a is b
        if isinstance(a, (Obj, Abstract, PyList, PyDict, SymList)) or isinstance(b, (Obj, Abstract, PyList, PyDict, SymList)):
            return a is b
        if isinstance(a, (ClassRef, Builtin, ExternalRef)) or isinstance(b, (ClassRef, Builtin, ExternalRef)):
            return a == b
        if isinstance(a, bool) and isinstance(b, bool):
            return a is b
        if is_z3(a) and is_z3(b) and z3.is_bool(a) and z3.is_bool(b):
            return a == b
        if isinstance(a, bool) and is_z3(b) and z3.is_bool(b):
            return b if a else z3.Not(b)
        if isinstance(b, bool) and is_z3(a) and z3.is_bool(a):
            return a if b else z3.Not(a)
        raise OutsideSubset("identity test on %r, %r" % (a, b))

    def opt_eq(self, a, b):
        if a is None:
            return b.isnone
        if b is None:
            return a.isnone
        if isinstance(a, Opt) and isinstance(b, Opt):
            return z3.Or(z3.And(a.isnone, b.isnone),
                         z3.And(z3.Not(a.isnone), z3.Not(b.isnone), self.compare(ast.Eq(), a.val, b.val)))
        if isinstance(a, Opt):
            e = self.compare(ast.Eq(), a.val, b)
            return z3.And(z3.Not(a.isnone), e if not isinstance(e, bool) else z3.BoolVal(e))
        e = self.compare(ast.Eq(), a, b.val)
        return z3.And(z3.Not(b.isnone), e if not isinstance(e, bool) else z3.BoolVal(e))

    def unwrap_opt(self, v, what):
        """Using an optional where a value is needed: None would be a
        TypeError -> obligation."""
        self.oblige("no-raise", "not-None(%s)" % what, z3.Not(v.isnone))
        return v.val

    def contains(self, container, item, node=None):
        if isinstance(container, (tuple, list)):
            return self.disj([self.compare(ast.Eq(), item, x, node) for x in container])
        if isinstance(container, PyList):
            return self.disj([self.compare(ast.Eq(), item, x, node) for x in container.items])
        if isinstance(container, PySet):
            return self.disj([self.compare(ast.Eq(), item, x, node) for x in container.items])
        if isinstance(container, PyDict):
            if is_concrete(item):
                return item in container.d
            return self.disj([self.compare(ast.Eq(), item, k, node) for k in container.d])
        if isinstance(container, (str, bytes)) and isinstance(item, (str, bytes)):
            return item in container
        if isinstance(container, Abstract) and hasattr(container, "contains"):
            return container.contains(self, item)
        if isinstance(container, Obj) and container.cls.find_method("__contains__"):
            return self.truth(self.call_method(container, "__contains__", [item], {}))
        if is_z3(container) and z3.is_array(container):
            return z3.Select(container, to_z3(item))
        raise OutsideSubset("membership test in %r" % (container,), node)

    def seq_binop(self, op, a, b, node):
        """list concatenation with a symbolic-length operand: a fresh list whose elements are constrained pointwise"""
        if not isinstance(op, ast.Add):
            raise OutsideSubset("sequence operation %s" % type(op).__name__, node)

        def parts(v):
            if isinstance(v, SymList):
                return v.arr.sort().range(), v.n, (lambda k: z3.Select(v.arr, k)), None
            if isinstance(v, PyList):
                return None, z3.IntVal(len(v.items)), None, [to_z3(x) for x in v.items]
            raise OutsideSubset("sequence operation on %r" % (v,), node)
        sa, na, fa, ia = parts(a)
        sb, nb, fb, ib = parts(b)
        srt = sa if sa is not None else sb
        R = z3.Array(self.fresh_name("cat"), z3.IntSort(), srt)
        k = z3.Int(self.fresh_name("k"))
        if fa is not None:
            self.assume(z3.ForAll([k], z3.Implies(z3.And(0 <= k, k < na), z3.Select(R, k) == fa(k))))
        else:
            for j, x in enumerate(ia):
                self.assume(z3.Select(R, j) == x)
        if fb is not None:
            self.assume(z3.ForAll([k], z3.Implies(z3.And(0 <= k, k < nb), z3.Select(R, na + k) == fb(k))))
        else:
            for j, x in enumerate(ib):
                self.assume(z3.Select(R, na + j) == x)
        kind = a.kind if isinstance(a, SymList) else b.kind
        return SymList(R, na + nb, kind)

    def list_repeat(self, items, count, node=None):
        """[x] * n with a symbolic n"""
        if len(items) != 1:
            raise OutsideSubset("repetition of a list of %d items a symbolic number of times" % len(items), node)
        x = to_z3(items[0])
        count = to_z3(count)
        R = z3.Array(self.fresh_name("rep"), z3.IntSort(), x.sort())
        k = z3.Int(self.fresh_name("k"))
        n = z3.If(count > 0, count, 0)
        self.assume(z3.ForAll([k], z3.Implies(z3.And(0 <= k, k < n), z3.Select(R, k) == x)))
        return SymList(R, n, "list")

    def seq_compare(self, op, a, b, node):
        raise OutsideSubset("sequence comparison", node)

    def set_binop(self, op, a, b, node):
        raise OutsideSubset("set operation", node)


_PYOPS = {ast.Add: operator.add, ast.Sub: operator.sub, ast.Mult: operator.mul, ast.Div: operator.truediv,
          ast.FloorDiv: operator.floordiv, ast.Mod: operator.mod, ast.Pow: operator.pow,
          ast.LShift: operator.lshift, ast.RShift: operator.rshift, ast.BitAnd: operator.and_,
          ast.BitOr: operator.or_, ast.BitXor: operator.xor}
_PYCMP = {ast.Eq: operator.eq, ast.NotEq: operator.ne, ast.Lt: operator.lt, ast.LtE: operator.le,
          ast.Gt: operator.gt, ast.GtE: operator.ge}
_DUNDER = {ast.Add: "__add__", ast.Sub: "__sub__", ast.Mult: "__mul__", ast.BitAnd: "__and__",
           ast.BitOr: "__or__", ast.BitXor: "__xor__"}
_CMPDUNDER = {ast.Eq: "__eq__", ast.NotEq: "__ne__", ast.Lt: "__lt__", ast.LtE: "__le__",
              ast.Gt: "__gt__", ast.GtE: "__ge__"}
