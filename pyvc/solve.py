"""Discharging verification conditions: z3 (API) first, cvc5 (CLI) on unknown."""
import os
import subprocess
import tempfile
import time
import z3

CVC5 = "/usr/bin/cvc5"


def model_to_dict(m, limit=80):
    out = {}
    for d in m.decls()[:limit]:
        try:
            v = m[d]
            if d.arity() == 0:
                if z3.is_int_value(v):
                    out[d.name()] = v.as_long()
                elif z3.is_bv_value(v):
                    out[d.name()] = v.as_long()
                elif z3.is_true(v) or z3.is_false(v):
                    out[d.name()] = z3.is_true(v)
                elif z3.is_rational_value(v):
                    out[d.name()] = str(v)
                else:
                    out[d.name()] = str(v)
            else:
                out[d.name()] = str(v)[:400]
        except Exception as e:  # pragma: no cover
            out[d.name()] = "<%s>" % e
    return out


def run_cvc5(smt2, timeout_s, strings=False):
    with tempfile.NamedTemporaryFile("w", suffix=".smt2", delete=False) as f:
        f.write(smt2)
        path = f.name
    try:
        cmd = [CVC5, "--tlimit=%d" % int(timeout_s * 1000)]
        if strings:
            cmd.append("--strings-exp")
        cmd.append(path)
        try:
            p = subprocess.run(cmd, capture_output=True, text=True, timeout=timeout_s + 5)
        except subprocess.TimeoutExpired:
            return "unknown"
        out = p.stdout.strip().splitlines()
        if out and out[0] in ("sat", "unsat", "unknown"):
            return out[0]
        return "unknown"
    finally:
        os.unlink(path)


CROSS = {"on": False, "tlimit_s": 10.0}     # thorough tier: every VC z3 discharges is also given to cvc5


def check_valid(pc, goal, timeout_ms=20000, use_cvc5=True, extra=None):
    """Is (and pc) => goal valid?  -> dict(result='unsat'|'sat'|'unknown', solver, seconds, model)"""
    s = z3.Solver()
    s.set("timeout", timeout_ms)
    for p in pc:
        s.add(p)
    if extra:
        for p in extra:
            s.add(p)
    s.add(z3.Not(goal))
    t = time.time()
    r = s.check()
    dt = time.time() - t
    res = {"result": str(r), "solver": "z3-%s" % z3.get_version_string(), "seconds": round(dt, 4), "model": None}
    if r == z3.sat:
        try:
            res["model"] = model_to_dict(s.model())
        except Exception:
            res["model"] = {}
        return res
    if r == z3.unknown and use_cvc5 and os.path.exists(CVC5):
        t = time.time()
        try:
            smt2 = s.to_smt2()
            smt2 = "(set-logic ALL)\n" + smt2
            r2 = run_cvc5(smt2, max(5.0, timeout_ms / 1000.0))
        except Exception:
            r2 = "unknown"
        res["seconds"] = round(res["seconds"] + time.time() - t, 4)
        if r2 == "unsat":
            res["result"] = "unsat"
            res["solver"] = "cvc5-1.0.3 (after z3 unknown)"
        elif r2 == "sat":
            res["result"] = "sat"
            res["solver"] = "cvc5-1.0.3 (after z3 unknown; no model extracted)"
            res["model"] = {}
    if res["result"] == "unknown" and use_cvc5:
        # both solvers gave up: their quantifier heuristics are sensitive to the order of the assertions and to machine
        # load, so an `unknown` is retried with two other z3 seeds and twice the budget before the obligation is reported
        # as undischarged (a `sat` is never retried; nothing is ever upgraded to a violation by this)
        for seed in (7, 23):
            s2 = z3.Solver()
            s2.set("timeout", int(timeout_ms * 2))
            s2.set("random_seed", seed)
            for a in s.assertions():
                s2.add(a)
            t = time.time()
            r3 = s2.check()
            res["seconds"] = round(res["seconds"] + time.time() - t, 4)
            if r3 == z3.unsat:
                res["result"] = "unsat"
                res["solver"] = "z3-%s (retry, seed %d)" % (z3.get_version_string(), seed)
                break
            if r3 == z3.sat:
                res["result"] = "sat"
                res["solver"] = "z3-%s (retry, seed %d)" % (z3.get_version_string(), seed)
                try:
                    res["model"] = model_to_dict(s2.model())
                except Exception:
                    res["model"] = {}
                break
    if r == z3.unsat and CROSS["on"] and use_cvc5 and os.path.exists(CVC5):
        try:
            res["cross"] = run_cvc5("(set-logic ALL)\n" + s.to_smt2(), CROSS["tlimit_s"])
        except Exception:
            res["cross"] = "unknown"
    return res


def satisfiable(pc, timeout_ms=5000):
    s = z3.Solver()
    s.set("timeout", timeout_ms)
    for p in pc:
        s.add(p)
    return str(s.check())
