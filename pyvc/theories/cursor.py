"""Cursor theory (DESIGN 3.1): the `Matcher` interface contract in the id domain.

A matcher is an immutable entry set S (ids), per-entry score/weight/value and a
position `cur` in S u {INF}.  Every method the real code may call on a child
matcher is specified here; composites are proved to implement the same
contract through the abstraction relations registered in VIEWS.
"""
import ast
import z3

from ..values import Abstract, Opaque, Obj, OutsideSubset, SpecFn, CheckerError, AbstractMethod
from ..ops import to_z3
from .. import builtins as B

INF = z3.Int("INF")
IntS, RealS, BoolS = z3.IntSort(), z3.RealSort(), z3.BoolSort()


def _real(v):
    v = to_z3(v)
    return z3.ToReal(v) if z3.is_int(v) else v


class Cursor(Abstract):
    """Abstract child matcher satisfying the interface contract."""
    n = 0

    def __init__(self, I, name, like=None, nonneg=True, strict_skip=False):
        self.name = name
        self.strict_skip = strict_skip if like is None else like.strict_skip
        if like is None:
            u = I.fresh_name(name)
            self.S = z3.Function(u + "_S", IntS, BoolS)
            self.sc = z3.Function(u + "_sc", IntS, RealS)
            self.wt = z3.Function(u + "_wt", IntS, RealS)
            self.val = z3.Function(u + "_val", IntS, IntS)
            self.sp = z3.Function(u + "_spans", IntS, IntS)
            self.mq = z3.Function(u + "_mq", IntS, RealS)   # max_quality at a position
            self.bq = z3.Function(u + "_bq", IntS, RealS)   # block_quality at a position
            self.sbq = z3.Bool(u + "_sbq")
            self.cur = z3.Int(I.fresh_name(name + "_cur"))
            self.nonneg = nonneg
            self.axioms(I)
        else:
            for k in ("S", "sc", "wt", "val", "sp", "mq", "bq", "sbq", "cur", "nonneg"):
                setattr(self, k, getattr(like, k))

    def axioms(self, I):
        s = z3.Int(I.fresh_name("s"))
        I.assume(INF > 0)
        I.assume(z3.ForAll([s], z3.Implies(self.S(s), z3.And(s >= 0, s < INF))))
        if self.nonneg:
            I.assume(z3.ForAll([s], z3.Implies(self.S(s), self.sc(s) >= 0)))
        # quality functions are upper bounds (interface contract, C12)
        t = z3.Int(I.fresh_name("t"))
        I.assume(z3.ForAll([s, t], z3.Implies(z3.And(self.S(s), s >= t), self.sc(s) <= self.mq(t))))
        I.assume(z3.ForAll([s], z3.Implies(self.S(s), self.sc(s) <= self.bq(s))))
        I.assume(self.wf(self.cur))

    def wf(self, p):
        return z3.And(p >= 0, p <= INF, z3.Or(p == INF, self.S(p)))

    def havoc(self, I):
        self.cur = z3.Int(I.fresh_name(self.name + "_cur"))
        I.assume(self.wf(self.cur))

    # ghost accessors for specs
    def a_cur(self, I):
        return self.cur

    def g_S(self, I, s):
        return self.S(to_z3(s))

    def g_sc(self, I, s):
        return self.sc(to_z3(s))

    def g_bq(self, I, s):
        return self.bq(to_z3(s))

    # ---- methods the real code calls
    def active(self):
        return self.cur < INF

    def m_is_active(self, I):
        return self.active()

    def need_active(self, I, what):
        if I.in_spec:
            return
        I.oblige("call-pre", "%s:active" % what, self.active(),
                 note="%s() on child `%s` requires it to be active" % (what, self.name))

    def m_id(self, I):
        self.need_active(I, "id")
        return self.cur

    def m_next(self, I):
        self.need_active(I, "next")
        c2 = z3.Int(I.fresh_name(self.name + "_cur"))
        s = z3.Int(I.fresh_name("s"))
        I.assume(z3.And(self.wf(c2), c2 > self.cur,
                        z3.ForAll([s], z3.Implies(z3.And(self.S(s), s > self.cur), s >= c2))))
        self.cur = c2
        return Opaque("next()")

    def m_skip_to(self, I, t):
        self.need_active(I, "skip_to")
        t = to_z3(t)
        c2 = z3.Int(I.fresh_name(self.name + "_cur"))
        s = z3.Int(I.fresh_name("s"))
        I.assume(z3.And(self.wf(c2),
                        z3.If(t <= self.cur, c2 == self.cur,
                              z3.And(z3.Or(c2 >= t, c2 == INF),
                                     z3.ForAll([s], z3.Implies(z3.And(self.S(s), s >= t), s >= c2))))))
        self.cur = c2
        return Opaque("skip_to()")

    def m_reset(self, I):
        c2 = z3.Int(I.fresh_name(self.name + "_cur"))
        s = z3.Int(I.fresh_name("s"))
        I.assume(z3.And(self.wf(c2), z3.ForAll([s], z3.Implies(self.S(s), s >= c2))))
        self.cur = c2
        return None

    def m_copy(self, I):
        return Cursor(I, self.name + "'", like=self)

    def m_score(self, I):
        self.need_active(I, "score")
        return self.sc(self.cur)

    def m_weight(self, I):
        self.need_active(I, "weight")
        return self.wt(self.cur)

    def m_value(self, I):
        self.need_active(I, "value")
        return self.val(self.cur)

    def m_spans(self, I):
        self.need_active(I, "spans")
        return Opaque("spans")

    def m_value_as(self, I, astype):
        self.need_active(I, "value_as")
        return Opaque("value_as")

    def m_supports(self, I, astype):
        return z3.Bool("%s_supports_%s" % (self.name, astype))

    def m_supports_block_quality(self, I):
        return self.sbq

    def need_quality(self, I, what):
        if I.in_spec:
            return
        I.oblige("call-pre", "%s:supports_block_quality" % what, self.sbq,
                 note="%s() on child `%s` raises NoQualityAvailable unless quality is supported" % (what, self.name))

    def m_max_quality(self, I):
        self.need_quality(I, "max_quality")
        return self.mq(self.cur)

    def m_block_quality(self, I):
        # on an exhausted posting reader block_quality() still answers (stale block header):
        # no `active` precondition, the value is only meaningful (bq >= sc) at an entry
        self.need_quality(I, "block_quality")
        return self.bq(self.cur)

    def m_skip_to_quality(self, I, q):
        self.need_quality(I, "skip_to_quality")
        self.need_active(I, "skip_to_quality")
        q = _real(q)
        old_cur = self.cur
        c2 = z3.Int(I.fresh_name(self.name + "_cur"))
        s = z3.Int(I.fresh_name("s"))
        I.assume(z3.And(self.wf(c2), c2 >= self.cur,
                        z3.ForAll([s], z3.Implies(z3.And(self.S(s), s >= self.cur, s < c2), self.sc(s) <= q))))
        self.cur = c2
        n = z3.Int(I.fresh_name("skipped"))
        I.assume(n >= 0)
        if self.strict_skip:
            # leaf-like child: "0 blocks skipped" means it did not move
            I.assume(z3.Implies(n == 0, c2 == old_cur))
        return n

    def m_replace(self, I, minquality=0):
        """Returns self or a new cursor over a sub-list of the remaining list that
        keeps every entry scoring more than minquality (all of them if 0)."""
        q = _real(minquality)
        if not I.in_spec and not (z3.is_rational_value(z3.simplify(q)) and z3.simplify(q).as_fraction() == 0):
            I.oblige("call-pre", "replace:quality-supported", z3.Or(q == 0, self.sbq),
                     note="replace(minquality != 0) needs quality support")
        if I.choose(2, "replace-same-or-new") == 0:
            return self
        m = Cursor(I, self.name + "_r")
        s = z3.Int(I.fresh_name("s"))
        I.assume(z3.ForAll([s], z3.Implies(m.S(s), z3.And(self.S(s), s >= self.cur))))
        I.assume(z3.ForAll([s], z3.Implies(z3.And(self.S(s), s >= self.cur, z3.Or(q == 0, self.sc(s) > q)), m.S(s))))
        I.assume(z3.ForAll([s], z3.Implies(m.S(s), z3.And(
            z3.Or(m.sc(s) == self.sc(s), z3.And(q != 0, self.sc(s) <= q, m.sc(s) <= q)),
            m.wt(s) == self.wt(s), m.val(s) == self.val(s)))))
        I.assume(z3.ForAll([s], z3.Implies(m.S(s), s >= m.cur)))
        I.assume(z3.Implies(self.sbq, m.sbq))
        return m

    def m_children(self, I):
        return Opaque("children")

    def m_term(self, I):
        return Opaque("term")

    def m_depth(self, I):
        d = z3.Int(I.fresh_name("depth"))
        I.assume(d >= 0)
        return d

    def m_all_ids(self, I):
        raise OutsideSubset("all_ids() of an abstract child")

    def isinstance_of(self, I, ci):
        return ci.qualname in ("Matcher",)


# ----------------------------------------------------------------- views

VIEWS = {"whoosh.matching.mcore:NullMatcherClass": dict(
    mem=lambda I, o, s: z3.BoolVal(False), sc=lambda I, o, s: z3.RealVal(0), pos=lambda I, o: INF,
    inv=lambda I, o: z3.BoolVal(True), sbq=lambda I, o: z3.BoolVal(True))}   # class key -> dict(mem=fn(I,obj,s), sc=fn(I,obj,s), pos=fn(I,obj), inv=fn(I,obj))


def view_of(obj):
    if isinstance(obj, Obj):
        for c in obj.cls.mro():
            if c.key in VIEWS:
                return VIEWS[c.key]
    raise CheckerError("no cursor view for %r" % (obj,))


def mem(I, m, s):
    s = to_z3(s)
    if isinstance(m, Cursor):
        return m.S(s)
    return view_of(m)["mem"](I, m, s)


def score_at(I, m, s):
    s = to_z3(s)
    if isinstance(m, Cursor):
        return m.sc(s)
    return view_of(m)["sc"](I, m, s)


def pos(I, m):
    if isinstance(m, Cursor):
        return m.cur
    return view_of(m)["pos"](I, m)


def minv(I, m):
    if isinstance(m, Cursor):
        return m.wf(m.cur)
    return view_of(m)["inv"](I, m)


def active(I, m):
    return pos(I, m) < INF


def wfpos(I, m):
    p = pos(I, m)
    return z3.And(p >= 0, p <= INF, z3.Or(p == INF, mem(I, m, p)))


def behind_free(I, m):
    """No entry of m lies before its position (fresh or replaced matcher)."""
    s = z3.Int(I.fresh_name("s"))
    return z3.ForAll([s], z3.Implies(mem(I, m, s), s >= pos(I, m)))


def none_in(I, m, lo, hi):
    """m has no entry in [lo, hi)."""
    s = z3.Int(I.fresh_name("s"))
    return z3.ForAll([s], z3.Implies(z3.And(mem(I, m, s), s >= to_z3(lo)), s >= to_z3(hi)))


def rem(I, m, s):
    """s is in the remaining list of m (member at or after the position)."""
    s = to_z3(s)
    return z3.And(mem(I, m, s), s >= pos(I, m))


def replaces(I, res, old, q):
    """res is a valid replace(q) of old (old = pre-state object): remaining
    list is a sub-list keeping every entry scoring > q (all if q == 0), with
    equal scores (an entry that cannot beat q may be kept with any score <= q)."""
    s = z3.Int(I.fresh_name("s"))
    q = _real(q)
    return z3.And(
        z3.ForAll([s], z3.Implies(rem(I, res, s), rem(I, old, s))),
        z3.ForAll([s], z3.Implies(z3.And(rem(I, old, s), z3.Or(q == 0, score_at(I, old, s) > q)), rem(I, res, s))),
        z3.ForAll([s], z3.Implies(rem(I, res, s), z3.Or(
            score_at(I, res, s) == score_at(I, old, s),
            z3.And(q != 0, score_at(I, old, s) <= q, score_at(I, res, s) <= q)))))


def supports_quality(I, m):
    if isinstance(m, Cursor):
        return m.sbq
    v = view_of(m)
    if "sbq" in v:
        return v["sbq"](I, m)
    raise CheckerError("no sbq view")


for _n, _f in [("mem", mem), ("score_at", score_at), ("pos", pos), ("position", pos), ("minv", minv), ("active", active),
               ("wfpos", wfpos), ("behind_free", behind_free), ("none_in", none_in),
               ("supports_quality", supports_quality), ("rem", rem), ("replaces", replaces)]:
    B.SPEC_FUNCS[_n] = SpecFn(_n, _f)
B.SPEC_FUNCS["INF"] = INF


class IdSet(Abstract):
    """Abstract set of doc ids (filter / deleted set): membership only."""

    def __init__(self, I, name="ids"):
        self.F = z3.Function(I.fresh_name(name), IntS, BoolS)

    def havoc(self, I):
        pass

    def contains(self, I, item):
        return self.F(to_z3(item))

    def g_has(self, I, s):
        return self.F(to_z3(s))


class Pred(Abstract):
    """Abstract pure callable id -> bool (InverseMatcher.missing)."""

    def __init__(self, I, name="pred"):
        self.F = z3.Function(I.fresh_name(name), IntS, BoolS)

    def havoc(self, I):
        pass

    def call(self, I, args, kwargs, node=None):
        return self.F(to_z3(args[0]))

    def g_holds(self, I, s):
        return self.F(to_z3(s))


# ----------------------------------------------------------------- indexed families of cursors

class CursorFamily(Abstract):
    """A python list of child matchers of symbolic length n (e.g. the per-segment matchers of a MultiMatcher).
    Entry sets, scores and quality bounds are functions with the list index as extra argument; the positions are
    one array (index -> position) that the members' methods update."""

    def __init__(self, I, name="ms"):
        self.name = name
        u = I.fresh_name(name)
        self.n = z3.Int(u + "_n")
        self.SS = z3.Function(u + "_S", IntS, IntS, BoolS)
        self.SC = z3.Function(u + "_sc", IntS, IntS, RealS)
        self.WT = z3.Function(u + "_wt", IntS, IntS, RealS)
        self.VAL = z3.Function(u + "_val", IntS, IntS, IntS)
        self.MQ = z3.Function(u + "_mq", IntS, IntS, RealS)
        self.BQ = z3.Function(u + "_bq", IntS, IntS, RealS)
        self.SBQ = z3.Function(u + "_sbq", IntS, BoolS)
        self.curs = z3.Array(I.fresh_name(u + "_cur"), IntS, IntS)
        i, s, t = z3.Int(I.fresh_name("i")), z3.Int(I.fresh_name("s")), z3.Int(I.fresh_name("t"))
        I.assume(self.n >= 0)
        I.assume(INF > 0)
        I.assume(z3.ForAll([i, s], z3.Implies(self.SS(i, s), z3.And(s >= 0, s < INF))))
        I.assume(z3.ForAll([i, s], z3.Implies(self.SS(i, s), self.SC(i, s) >= 0)))
        I.assume(z3.ForAll([i, s, t], z3.Implies(z3.And(self.SS(i, s), s >= t), self.SC(i, s) <= self.MQ(i, t))))
        I.assume(z3.ForAll([i, s], z3.Implies(self.SS(i, s), self.SC(i, s) <= self.BQ(i, s))))
        I.assume(self.all_wf())

    def all_wf(self):
        i = z3.Int("fam_i")
        c = z3.Select(self.curs, i)
        return z3.ForAll([i], z3.And(c >= 0, c <= INF, z3.Or(c == INF, self.SS(i, c))))

    def havoc(self, I):
        self.curs = z3.Array(I.fresh_name(self.name + "_cur"), IntS, IntS)
        I.assume(self.all_wf())

    def __deepcopy__(self, memo):
        c = CursorFamily.__new__(CursorFamily)
        c.__dict__.update(self.__dict__)
        return c

    def truth(self, I):
        return self.n > 0

    def is_none(self, I):
        return False

    def length(self, I):
        return self.n

    def a_n(self, I):
        return self.n

    def cur_of(self, i):
        return z3.Select(self.curs, to_z3(i))

    def getitem(self, I, idx, node=None):
        idx = to_z3(idx)
        if not I.in_spec and not I.decide(z3.And(idx >= 0, idx < self.n), "index-in-bounds"):
            # (negative indices are not used on matcher lists by the verified code)
            I.raise_builtin("IndexError", node)
        return FamCursor(self, idx)

    def iter_protocol(self, I):
        return 0, self.n, 1, (lambda i: FamCursor(self, i))

    def getslice(self, I, lo, hi, st, node=None):
        if st is not None:
            raise OutsideSubset("stepped slice of a matcher list", node)
        lo = to_z3(0 if lo is None else lo)
        hi = self.n if hi is None else to_z3(hi)
        # (the verified code slices with 0 <= lo <= n only; negative / clamped bounds are not modelled)
        if not I.in_spec:
            I.oblige("call-pre", "slice-bounds-in-range", z3.And(lo >= 0, lo <= self.n, hi >= lo, hi <= self.n))
        return FamSlice(self, lo, hi)


class FamSlice(Abstract):
    """matchers[lo:hi] of a CursorFamily: the members are the family's own (aliases, as in Python)"""

    def __init__(self, fam, lo, hi):
        self.fam, self.lo, self.hi = fam, lo, hi

    def havoc(self, I):
        pass

    def length(self, I):
        return self.hi - self.lo

    def iter_protocol(self, I):
        return self.lo, self.hi, 1, (lambda i: FamCursor(self.fam, i))


class FamCursor(Cursor):
    """Member idx of a CursorFamily: the Cursor interface over the family's functions; its position lives in the
    family's array, so advancing it is visible through every alias."""

    def __init__(self, fam, idx):
        self.fam = fam
        self.idx = to_z3(idx)
        self.name = "%s[%s]" % (fam.name, self.idx)
        self.strict_skip = False
        self.nonneg = True
        f, i = fam, self.idx
        self.S = lambda s: f.SS(i, s)
        self.sc = lambda s: f.SC(i, s)
        self.wt = lambda s: f.WT(i, s)
        self.val = lambda s: f.VAL(i, s)
        self.sp = lambda s: z3.IntVal(0)
        self.mq = lambda s: f.MQ(i, s)
        self.bq = lambda s: f.BQ(i, s)
        self.sbq = f.SBQ(i)

    @property
    def cur(self):
        return z3.Select(self.fam.curs, self.idx)

    @cur.setter
    def cur(self, v):
        self.fam.curs = z3.Store(self.fam.curs, self.idx, to_z3(v))

    def havoc(self, I):
        c2 = z3.Int(I.fresh_name("famcur"))
        I.assume(self.wf(c2))
        self.cur = c2

    def __deepcopy__(self, memo):
        import copy as _copy
        fam2 = memo.get(id(self.fam))
        if fam2 is None:
            fam2 = _copy.deepcopy(self.fam, memo)
            memo[id(self.fam)] = fam2
        return FamCursor(fam2, self.idx)

    def m_copy(self, I):
        raise OutsideSubset("copy() of a family member")

    def m_replace(self, I, minquality=0):
        raise OutsideSubset("replace() of a family member")
