"""Heap-list theory for the collectors (C05/C14): a python list of (score, key) tuples used with heapq.

State: length n, content functions sc(k): Real, nd(k): Int for 0 <= k < n, and the ghost flag `is_heap`
(the heapq invariant holds, of which only `element 0 is a minimum` is ever relied upon).
heapq functions are library contracts (class A): they keep the multiset of elements and (re)establish the
heap invariant.  Elements are pairwise distinct by their key (document numbers are unique) - stated as part of
the well-formedness predicate, so set equality of elements is multiset equality.
"""
import z3

from ..values import Abstract, OutsideSubset
from ..ops import to_z3, concrete_int
from .. import builtins as B

IntS, RealS, BoolS = z3.IntSort(), z3.RealSort(), z3.BoolSort()


def lex_le(s1, d1, s2, d2):
    return z3.Or(s1 < s2, z3.And(s1 == s2, d1 <= d2))


class HeapList(Abstract):
    def __init__(self, I, name="items"):
        self.name = name
        self.fresh(I)

    def fresh(self, I):
        u = I.fresh_name(self.name)
        self.sc = z3.Function(u + "_sc", IntS, RealS)
        self.nd = z3.Function(u + "_nd", IntS, IntS)
        self.n = z3.Int(u + "_n")
        self.is_heap = z3.Bool(u + "_isheap")
        I.assume(self.n >= 0)
        I.assume(self.wf())

    def wf(self):
        i, j = z3.Ints("hi hj")
        distinct = z3.ForAll([i, j], z3.Implies(z3.And(0 <= i, i < j, j < self.n), self.nd(i) != self.nd(j)))
        minfirst = z3.Implies(self.is_heap, z3.ForAll([i], z3.Implies(z3.And(0 <= i, i < self.n),
                                                                        lex_le(self.sc(0), self.nd(0), self.sc(i), self.nd(i)))))
        return z3.And(distinct, minfirst)

    def havoc(self, I):
        self.fresh(I)

    def mem(self, s, d):
        k = z3.Int("hk_%s" % self.name)
        return z3.Exists([k], z3.And(0 <= k, k < self.n, self.sc(k) == s, self.nd(k) == d))

    def snapshot_mem(self):
        sc, nd, n = self.sc, self.nd, self.n

        def m(s, d):
            k = z3.Int("hk_old")
            return z3.Exists([k], z3.And(0 <= k, k < n, sc(k) == s, nd(k) == d))
        return m

    def a_n(self, I):
        return self.n

    def a_is_heap(self, I):
        return self.is_heap

    # ---- python list protocol used by the collectors
    def length(self, I):
        return self.n

    def truth(self, I):
        return self.n > 0

    def getitem(self, I, idx, node=None):
        idx = to_z3(idx)
        inb = z3.And(idx >= 0, idx < self.n)
        if not I.in_spec and not I.decide(inb, "index-in-bounds"):
            I.raise_builtin("IndexError", node)
        return (self.sc(idx), self.nd(idx))

    def m_pop(self, I, idx=None):
        if idx is None:
            raise OutsideSubset("heap list pop() without index")
        idx = to_z3(idx)
        I.oblige("call-pre", "pop:index-in-bounds", z3.And(idx >= 0, idx < self.n))
        old_sc, old_nd, old_n = self.sc, self.nd, self.n
        res = (old_sc(idx), old_nd(idx))
        u = I.fresh_name(self.name)
        self.sc = z3.Function(u + "_sc", IntS, RealS)
        self.nd = z3.Function(u + "_nd", IntS, IntS)
        self.n = old_n - 1
        k = z3.Int(I.fresh_name("k"))
        I.assume(z3.ForAll([k], z3.Implies(z3.And(0 <= k, k < idx), z3.And(self.sc(k) == old_sc(k), self.nd(k) == old_nd(k)))))
        I.assume(z3.ForAll([k], z3.Implies(z3.And(idx <= k, k < old_n - 1),
                                           z3.And(self.sc(k) == old_sc(k + 1), self.nd(k) == old_nd(k + 1)))))
        self.is_heap = z3.BoolVal(False)      # removing from the middle breaks the invariant in general
        return res

    def m_append(self, I, item):
        raise OutsideSubset("append on heap list")

    def permute(self, I, heap):
        """Replace content by an arbitrary permutation; optionally a heap."""
        old_sc, old_nd, old_n = self.sc, self.nd, self.n
        u = I.fresh_name(self.name)
        self.sc = z3.Function(u + "_sc", IntS, RealS)
        self.nd = z3.Function(u + "_nd", IntS, IntS)
        k, j = z3.Int(I.fresh_name("k")), z3.Int(I.fresh_name("j"))
        I.assume(z3.ForAll([k], z3.Implies(z3.And(0 <= k, k < old_n),
                                           z3.Exists([j], z3.And(0 <= j, j < old_n, self.sc(j) == old_sc(k), self.nd(j) == old_nd(k))))))
        I.assume(z3.ForAll([k], z3.Implies(z3.And(0 <= k, k < old_n),
                                           z3.Exists([j], z3.And(0 <= j, j < old_n, old_sc(j) == self.sc(k), old_nd(j) == self.nd(k))))))
        self.is_heap = z3.BoolVal(heap)
        I.assume(self.wf())


def _tuple2(I, item):
    if not (isinstance(item, tuple) and len(item) == 2):
        raise OutsideSubset("heap element is not a pair")
    s = to_z3(item[0])
    if z3.is_int(s):
        s = z3.ToReal(s)
    return s, to_z3(item[1])


@B.external("heapq.heapify")
def x_heapify(I, args, kw, node):
    h = args[0]
    if not isinstance(h, HeapList):
        raise OutsideSubset("heapify of %r" % (h,), node)
    I.notes.add("assume:heapq.heapify keeps the multiset and establishes the heap invariant (class A)")
    h.permute(I, True)
    return None


@B.external("heapq.heappush")
def x_heappush(I, args, kw, node):
    h, item = args
    if not isinstance(h, HeapList):
        raise OutsideSubset("heappush on %r" % (h,), node)
    s, d = _tuple2(I, item)
    I.notes.add("assume:heapq.heappush/heapreplace keep the multiset (plus/minus the stated element) and the heap invariant (class A)")
    I.oblige("call-pre", "heappush:is-heap", h.is_heap, note="heappush on a list that is not a heap")
    kk = z3.Int(I.fresh_name("k"))
    I.oblige("call-pre", "heappush:new-key", z3.ForAll([kk], z3.Implies(z3.And(0 <= kk, kk < h.n), h.nd(kk) != d)),
             note="the pushed (score, key) must carry a key not yet in the heap")
    old_sc, old_nd, old_n = h.sc, h.nd, h.n
    u = I.fresh_name(h.name)
    h.sc = z3.Function(u + "_sc", IntS, RealS)
    h.nd = z3.Function(u + "_nd", IntS, IntS)
    h.n = old_n + 1
    k, j = z3.Int(I.fresh_name("k")), z3.Int(I.fresh_name("j"))
    I.assume(z3.ForAll([k], z3.Implies(z3.And(0 <= k, k < old_n),
                                       z3.Exists([j], z3.And(0 <= j, j < old_n + 1, h.sc(j) == old_sc(k), h.nd(j) == old_nd(k))))))
    I.assume(z3.Exists([j], z3.And(0 <= j, j < old_n + 1, h.sc(j) == s, h.nd(j) == d)))
    I.assume(z3.ForAll([k], z3.Implies(z3.And(0 <= k, k < old_n + 1),
                                       z3.Or(z3.And(h.sc(k) == s, h.nd(k) == d),
                                             z3.Exists([j], z3.And(0 <= j, j < old_n, old_sc(j) == h.sc(k), old_nd(j) == h.nd(k)))))))
    h.is_heap = z3.BoolVal(True)
    I.assume(h.wf())
    return None


@B.external("heapq.heapreplace")
def x_heapreplace(I, args, kw, node):
    h, item = args
    if not isinstance(h, HeapList):
        raise OutsideSubset("heapreplace on %r" % (h,), node)
    s, d = _tuple2(I, item)
    I.oblige("call-pre", "heapreplace:is-heap", h.is_heap, note="heapreplace on a list that is not a heap")
    I.oblige("call-pre", "heapreplace:non-empty", h.n > 0)
    kk = z3.Int(I.fresh_name("k"))
    I.oblige("call-pre", "heapreplace:new-key", z3.ForAll([kk], z3.Implies(z3.And(0 <= kk, kk < h.n), h.nd(kk) != d)))
    old_sc, old_nd, old_n = h.sc, h.nd, h.n
    res = (old_sc(0), old_nd(0))
    u = I.fresh_name(h.name)
    h.sc = z3.Function(u + "_sc", IntS, RealS)
    h.nd = z3.Function(u + "_nd", IntS, IntS)
    k, j = z3.Int(I.fresh_name("k")), z3.Int(I.fresh_name("j"))
    # every old element except the old minimum (index 0) survives; the new element is added
    I.assume(z3.ForAll([k], z3.Implies(z3.And(1 <= k, k < old_n),
                                       z3.Exists([j], z3.And(0 <= j, j < old_n, h.sc(j) == old_sc(k), h.nd(j) == old_nd(k))))))
    I.assume(z3.Exists([j], z3.And(0 <= j, j < old_n, h.sc(j) == s, h.nd(j) == d)))
    I.assume(z3.ForAll([k], z3.Implies(z3.And(0 <= k, k < old_n),
                                       z3.Or(z3.And(h.sc(k) == s, h.nd(k) == d),
                                             z3.Exists([j], z3.And(1 <= j, j < old_n, old_sc(j) == h.sc(k), old_nd(j) == h.nd(k)))))))
    h.is_heap = z3.BoolVal(True)
    I.assume(h.wf())
    return res
