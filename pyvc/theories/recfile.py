"""Record-file theory (DESIGN 3.3) for the column writers/readers (C08).

A StructFile used append-only by a column writer and position-addressed by a column reader.  Byte strings are
abstract values: an identity (`vid`: Int) with a length LEN(vid) >= 0; two byte strings are equal iff their ids are.
The file is the ghost map  content: position -> id of the byte string whose first byte is written there,
`wpos` the position of the next write, `base` the position at which the column started.

    write(v)        content[wpos] := v ; wpos += LEN(v)
    get(pos, n)     the string stored at pos if it has length n, otherwise an arbitrary string
    tell()          wpos

Reading at a position where no write started, or with another length, yields an unconstrained value: the model never
claims more than the real file gives (a slice of bytes that belong to other records)."""
import z3

from ..values import Abstract, OutsideSubset, SpecFn
from ..ops import to_z3
from .. import builtins as B

IntS = z3.IntSort()
LEN = z3.Function("bytes_len", IntS, IntS)


class BytesVal(Abstract):
    pytype = "bytes"

    def __init__(self, vid):
        self.vid = vid

    @classmethod
    def fresh(cls, I, name="bytes"):
        v = z3.Int(I.fresh_name(name))
        I.assume(LEN(v) >= 0)
        return cls(v)

    def havoc(self, I):
        pass

    def length(self, I):
        return LEN(self.vid)

    def truth(self, I):
        return LEN(self.vid) > 0

    def is_none(self, I):
        return False

    def a_vid(self, I):
        return self.vid

    def compare(self, I, op, other, reflected):
        import ast
        if isinstance(op, (ast.Eq, ast.NotEq)):
            if isinstance(other, BytesVal):
                r = self.vid == other.vid
            elif other is None:
                r = False
            else:
                raise OutsideSubset("byte string compared with %r" % (other,))
            if isinstance(op, ast.Eq):
                return r
            return I.neg(r)
        raise OutsideSubset("ordering of abstract byte strings")


class RecFile(Abstract):
    def __init__(self, I, name="dbfile"):
        self.name = name
        self.base = z3.Int(I.fresh_name(name + "_base"))
        self.fresh(I)
        I.assume(self.base >= 0)
        I.assume(self.wpos >= self.base)

    def fresh(self, I):
        self.wpos = z3.Int(I.fresh_name(self.name + "_wpos"))
        self.content = z3.Array(I.fresh_name(self.name + "_content"), IntS, IntS)

    def havoc(self, I):
        self.fresh(I)

    def __deepcopy__(self, memo):
        c = RecFile.__new__(RecFile)
        c.name, c.base, c.wpos, c.content = self.name, self.base, self.wpos, self.content
        return c

    def truth(self, I):
        return True

    def is_none(self, I):
        return False

    # ---- ghost attributes for specifications
    def a_base(self, I):
        return self.base

    def a_wpos(self, I):
        return self.wpos

    def at(self, pos):
        return z3.Select(self.content, to_z3(pos))

    # ---- StructFile methods used by the column code
    def m_write(self, I, v):
        if not isinstance(v, BytesVal):
            raise OutsideSubset("write of %r to a record file" % (v,))
        self.content = z3.Store(self.content, self.wpos, v.vid)
        self.wpos = self.wpos + LEN(v.vid)
        return None

    def m_tell(self, I):
        return self.wpos

    def m_get(self, I, pos, length):
        pos, length = to_z3(pos), to_z3(length)
        got = z3.Select(self.content, pos)
        r = BytesVal.fresh(I, "got")
        I.assume(z3.Implies(LEN(got) == length, r.vid == got))
        I.assume(LEN(r.vid) == length)
        return r


def s_at(I, f, pos):
    """id of the byte string written at position pos of record file f"""
    return f.at(pos)


def s_blen(I, v):
    if isinstance(v, BytesVal):
        return LEN(v.vid)
    return LEN(to_z3(v))


def s_vid(I, v):
    return v.vid


for _n, _f in (("at", s_at), ("blen", s_blen), ("vid", s_vid)):
    B.SPEC_FUNCS[_n] = SpecFn(_n, _f)
