"""Storage-trace theory (DESIGN 3.2): collaborators of the writer (storage, files, locks, the index object,
codec writers) are `Recorder` objects; every method the real code calls on them appends an event
(owner, method, args) to the ghost trace of the path.  The writer's functions are straight-line call sequences,
so on each path the trace is a concrete list and ordering contracts are decided by the simplifier."""
import z3

from ..values import Abstract, Opaque, OutsideSubset, SpecFn, AbstractMethod
from .. import builtins as B


def trace_of(I):
    return I.ghost.setdefault("trace", [])


class Recorder(Abstract):
    def __init__(self, name, attrs=None, returns=None, truthy=True, quiet=()):
        self.name = name
        self.attrs = dict(attrs or {})
        self.returns = dict(returns or {})     # method -> value or callable(I, recorder, args, kwargs)
        self.truthy = truthy
        self.quiet = set(quiet)                # methods that are pure (not recorded)

    def havoc(self, I):
        pass

    def __deepcopy__(self, memo):
        return self

    def truth(self, I):
        return self.truthy

    def is_none(self, I):
        return False

    def getattr(self, I, name, node=None):
        if name in self.attrs:
            return self.attrs[name]
        return RecMethod(self, name)

    def setattr(self, I, name, val):
        self.attrs[name] = val
        trace_of(I).append((self.name, "set:" + name, (val,)))

    def hasattr(self, I, name):
        return True


class RecMethod(Abstract):
    def __init__(self, owner, name):
        self.owner = owner
        self.mname = name

    def havoc(self, I):
        pass

    def call(self, I, args, kwargs, node=None):
        o = self.owner
        if self.mname not in o.quiet:
            trace_of(I).append((o.name, self.mname, tuple(args) + tuple(sorted(kwargs.items()))))
        r = o.returns.get(self.mname, "__child__")
        if callable(r):
            return r(I, o, args, kwargs)
        if isinstance(r, str) and r == "__child__":
            return Recorder("%s.%s()" % (o.name, self.mname))
        return r


def events(I, owner=None, method=None):
    out = []
    for i, (o, m, a) in enumerate(trace_of(I)):
        if (owner is None or o == owner) and (method is None or m == method):
            out.append((i, o, m, a))
    return out


def first_index(I, owner, method):
    ev = events(I, owner, method)
    return ev[0][0] if ev else None


def s_trace(I):
    return list(trace_of(I))


def s_methods(I):
    """The trace as a tuple of 'owner.method' strings (what ordering contracts compare)."""
    return tuple("%s.%s" % (o, m) for (o, m, a) in trace_of(I))


def s_before(I, a, b):
    """Every event named a precedes every event named b, and both occur."""
    ms = s_methods(I)
    ia = [i for i, m in enumerate(ms) if m == a]
    ib = [i for i, m in enumerate(ms) if m == b]
    return bool(ia) and bool(ib) and max(ia) < min(ib)


def s_count(I, a):
    return sum(1 for m in s_methods(I) if m == a)


def s_last(I):
    ms = s_methods(I)
    return ms[-1] if ms else None


def s_arg(I, name, k, nth=0):
    ev = [a for (o, m, a) in trace_of(I) if "%s.%s" % (o, m) == name]
    return ev[nth][k]


for _n, _f in (("trace_methods", s_methods), ("before", s_before), ("count_events", s_count), ("last_event", s_last),
               ("event_arg", s_arg)):
    B.SPEC_FUNCS[_n] = SpecFn(_n, _f)
