"""Value domain of the symbolic executor."""
import z3
from .extract import _Keep


class OutsideSubset(Exception):
    """The real code uses a construct the encoder does not model."""

    def __init__(self, what, node=None):
        self.what = what
        self.lineno = getattr(node, "lineno", None)
        Exception.__init__(self, "%s (line %s)" % (what, self.lineno))


class CheckerError(Exception):
    """A defect of the checker/contract (never a property verdict)."""


class PathEnd(Exception):
    pass


class Infeasible(Exception):
    pass


class ReturnSig(Exception):
    def __init__(self, value):
        self.value = value


class BreakSig(Exception):
    pass


class ContinueSig(Exception):
    pass


class RaiseSig(Exception):
    def __init__(self, exc, node=None):
        self.exc = exc   # ClassRef | Obj | Opaque
        self.node = node

    def name(self):
        e = self.exc
        if isinstance(e, ClassRef):
            return e.info.qualname
        if isinstance(e, Obj):
            return e.cls.qualname
        if isinstance(e, ExcValue):
            return e.name
        return "Exception"


class Opaque(object):
    """A value about which nothing is known (return value of skip_to, error
    message strings ...).  Any use that would need its content is OUTSIDE-SUBSET
    except truthiness in value position, which stays opaque."""
    _n = 0

    def __init__(self, why=""):
        Opaque._n += 1
        self.why = why

    def __repr__(self):
        return "<opaque %s>" % self.why


class ExcValue(object):
    """Instance of a builtin / external exception class."""

    def __init__(self, name, args=()):
        self.name = name
        self.args = args

    def __repr__(self):
        return "<exc %s>" % self.name


class Builtin(_Keep):
    def __init__(self, name, fn=None, pytype=None):
        self.name = name
        self.fn = fn
        self.pytype = pytype

    def __repr__(self):
        return "<builtin %s>" % self.name


class ExternalRef(_Keep):
    def __init__(self, name):
        self.name = name

    def __repr__(self):
        return "<external %s>" % self.name

    def __eq__(self, other):
        return isinstance(other, ExternalRef) and other.name == self.name

    def __hash__(self):
        return hash(self.name)


class ModuleRef(_Keep):
    def __init__(self, name):
        self.name = name

    def __repr__(self):
        return "<module %s>" % self.name


class ClassRef(_Keep):
    def __init__(self, info):
        self.info = info

    def __repr__(self):
        return "<classref %s>" % self.info.key

    def __eq__(self, other):
        return isinstance(other, ClassRef) and other.info.key == self.info.key

    def __hash__(self):
        return hash(self.info.key)


class FuncRef(_Keep):
    def __init__(self, module, qualname, node, cls=None):
        self.module = module
        self.qualname = qualname
        self.node = node
        self.cls = cls      # ClassInfo defining it

    @property
    def key(self):
        return "%s:%s" % (self.module.name, self.qualname)

    def __repr__(self):
        return "<func %s>" % self.key


class BoundMethod(object):
    def __init__(self, func, self_obj):
        self.func = func
        self.self_obj = self_obj


class AbstractMethod(object):
    def __init__(self, obj, name):
        self.obj = obj
        self.name = name


class NativeMethod(object):
    def __init__(self, recv, name):
        self.recv = recv
        self.name = name


class SpecFn(_Keep):
    """Spec-level function: fn(interp, *args, **kw)."""

    def __init__(self, name, fn, needs_interp=True):
        self.name = name
        self.fn = fn
        self.needs_interp = needs_interp


class Closure(object):
    def __init__(self, node, frame, name=None):
        self.node = node    # ast.Lambda | ast.FunctionDef
        self.frame = frame  # defining frame (late binding, as in Python)
        self.name = name

    def __deepcopy__(self, memo):
        # closures are shared; frames they capture are per-path anyway
        return self


class Obj(object):
    """Instance of a class whose source is in the repository."""
    _n = 0

    def __init__(self, cls, fields=None, tag=None):
        Obj._n += 1
        self.oid = Obj._n
        self.cls = cls          # ClassInfo
        self.fields = dict(fields or {})
        self.tag = tag

    def __repr__(self):
        return "<obj %s#%d>" % (self.cls.qualname, self.oid)


class Abstract(object):
    """Base of theory objects (cursor, storage, struct file ...).  Methods the
    real code may call are `m_<name>(interp, *args, **kw)`; ghost attributes /
    functions usable from specifications are `g_<name>`."""

    def havoc(self, interp):
        raise NotImplementedError

    def py_class_name(self):
        return self.__class__.__name__


class SymGen(object):
    """A generator expression `elt for x in it` over an abstract sequence of SYMBOLIC length (no filter): the bounds
    [lo, hi) of the index, the element getter and the element expression, to be consumed by min()/max()."""

    def __init__(self, lo, hi, getter, target, elt, frame):
        self.lo, self.hi, self.getter, self.target, self.elt, self.frame = lo, hi, getter, target, elt, frame


class FilteredGen(object):
    """A generator expression `elt for x in seq if cond...` over a sequence of SYMBOLIC length, to be consumed by a `for`
    loop that is cut at an invariant: the loop index runs over the underlying sequence, items failing a filter are
    skipped (the loop body is not executed for them), the loop target is bound to the element expression."""

    def __init__(self, lo, hi, getter, target, elt, ifs, frame):
        self.lo, self.hi, self.getter, self.target, self.elt, self.ifs, self.frame = lo, hi, getter, target, elt, ifs, frame


class Opt(object):
    """Either None or a value: (isnone: z3 Bool, val)."""

    def __init__(self, isnone, val):
        self.isnone = isnone
        self.val = val

    def __repr__(self):
        return "<opt %s %s>" % (self.isnone, self.val)


class PyList(object):
    """Python list whose length is concrete on the path."""

    def __init__(self, items=None):
        self.items = list(items or [])

    def __repr__(self):
        return "PyList(%r)" % (self.items,)


class PyDict(object):
    def __init__(self, d=None):
        self.d = dict(d or {})


class PySet(object):
    def __init__(self, items=None):
        self.items = list(items or [])


class SymList(object):
    """List/array/bytes of symbolic length: (z3 Array Int->T, length Int).
    Immutable value semantics are obtained by replacing .arr/.n on update."""

    def __init__(self, arr, n, kind="list"):
        self.arr = arr
        self.n = n
        self.kind = kind

    def __repr__(self):
        return "<symlist %s len=%s>" % (self.arr, self.n)


def is_z3(v):
    return isinstance(v, z3.ExprRef)


def is_concrete(v):
    if isinstance(v, (bool, int, float, str, bytes, type(None))):
        return True
    if isinstance(v, tuple):
        return all(is_concrete(x) for x in v)
    return False
