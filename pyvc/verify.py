"""Verification of one contract (all paths), returning picklable results."""
import ast
import time
import traceback
import z3

from .values import *
from .execu import Exec, has_yield, loop_ordinals
from .interp import Frame, VC
from .extract import strip_docstring, func_sha, mutate_function, ExtractError
from . import solve


class UnitResult(dict):
    pass


def run_path(I, contract, variant, mod, ci, fnode, cover_out):
    I.int_mode = contract.int_mode(variant) if callable(contract.int_mode) else contract.int_mode
    I.extra_spec = dict(contract.spec_funcs)
    kw = dict(variant or {})
    env0 = contract.setup(I, **kw) if contract.setup else {}
    extra = {}
    if isinstance(env0, tuple):
        env0, extra = env0
    I.ghost.update(extra)
    if not contract.harness:
        # parameters the setup did not bind take their declared defaults (as at a real call)
        a = fnode.args
        params = a.posonlyargs + a.args
        first_default = len(params) - len(a.defaults)
        for i, p in enumerate(params):
            if p.arg not in env0 and i >= first_default:
                env0[p.arg] = I.eval_default(a.defaults[i - first_default], mod)
        for p, d in zip(a.kwonlyargs, a.kw_defaults):
            if p.arg not in env0 and d is not None:
                env0[p.arg] = I.eval_default(d, mod)
        if a.kwarg is not None and a.kwarg.arg not in env0:
            env0[a.kwarg.arg] = PyDict({})
        if a.vararg is not None and a.vararg.arg not in env0:
            env0[a.vararg.arg] = ()
    fr0 = Frame(mod, env0, label="<entry>")
    I.frames.append(fr0)
    try:
        if contract.ghost:
            I.spec_exec_in(contract.ghost, I.ghost, parent=fr0, module=mod)
        for r in contract.requires:
            I.assume(I.spec_bool(r, env0, None, mod))
        if cover_out is not None and not I.forced:
            hint = list(contract.cover_hint(I, env0)) if contract.cover_hint else []
            cover_out.append(solve.satisfiable(list(I.pc) + hint))
        old = I.snapshot(env0)
        I.old_env = old
        fref = FuncRef(mod, contract.key.split(":")[1], fnode, ci)
        gen = has_yield(fnode)
        frame = Frame(mod, dict(env0), func=fref, cls=ci, loopspecs=contract.loops,
                      loop_ord=loop_ordinals(fnode), gen_out=[] if gen else None, label=contract.key)
        I.root_frame = frame
        if contract.on_yield:
            def oy(I2, v, _c=contract, _f=fr0, _m=mod):
                I2.ghost["_y"] = v
                # ghost code at a yield sees the generator's locals (incl. the ghost loop index), then the entry values
                I2.spec_exec_in(_c.on_yield, I2.ghost, parent=I2.root_frame or _f, module=_m)
            I.on_yield = oy
        I.frames.append(frame)
        raised = None
        result = None
        try:
            try:
                if contract.harness:
                    frame.gen_out = None
                    frame.func = None
                    frame.loop_ord = {}
                    I.ex_block(ast.parse(contract.harness).body)
                    env0 = frame.env
                else:
                    I.ex_block(strip_docstring(fnode))
            except ReturnSig as r:
                result = r.value
            except RaiseSig as r:
                raised = r
        finally:
            I.frames.pop()
        if gen and not contract.harness:
            result = PyList(frame.gen_out)
        if raised is not None:
            name = raised.name()
            I.cur_node = raised.node
            cond = None
            for nm, c in contract.raises.items():
                if nm == name or nm == "*":
                    cond = c
                    break
            if cond is None:
                I.oblige("no-raise", name, z3.BoolVal(False), note="exception escapes: %s" % name)
            else:
                I.oblige("no-raise", name, I.spec_bool(cond, old, old, mod), note="allowed only when: %s" % cond)
                if contract.ensures_on_raise:
                    env2 = dict(env0)
                    env2["exc"] = name
                    for i, e in enumerate(contract.ensures_on_raise):
                        I.oblige("ensures-on-raise", "#%d" % i, I.spec_bool(e, env2, old, mod), note=str(e))
            return
        env2 = dict(env0)
        env2["result"] = result
        I.cur_node = fnode
        for i, e in enumerate(contract.ensures):
            I.oblige("ensures", "#%d" % i, I.spec_bool(e, env2, old, mod), note=e if isinstance(e, str) else "")
    finally:
        I.frames.pop()


def _spec_exec_in(self, src, env, parent, module):
    tree = ast.parse(src if isinstance(src, str) else "\n".join(src))
    fr = Frame(module, env, parent=parent, spec=True, label="ghost")
    self.frames.append(fr)
    self.spec_depth += 1
    try:
        self.ex_block(tree.body)
    finally:
        self.spec_depth -= 1
        self.frames.pop()


Exec.spec_exec_in = _spec_exec_in


def generate(repo, registry, contract, variant=None, fnode_override=None, opts=None):
    """-> (vcs, info)"""
    mod, ci, fnode = repo.function(contract.key)
    sha = func_sha(fnode)
    if fnode_override is not None:
        fnode = fnode_override
    vcs = []
    cover = []
    notes = set()
    work = [[]]
    npaths = 0
    while work:
        forced = work.pop()
        npaths += 1
        if npaths > contract.max_paths:
            raise CheckerError("path limit %d exceeded in %s" % (contract.max_paths, contract.label))
        I = Exec(repo, registry, forced, vcs, unit_label(contract, variant), opts=dict(opts or {}))
        I.opts.setdefault("force_inline", contract.inline_callees)
        I.opts["externals"] = contract.externals
        for k_, v_ in contract.opts.items():
            I.opts.setdefault(k_, v_)
        if fnode_override is not None:
            I.opts["override"] = {contract.key: fnode_override}
        try:
            run_path(I, contract, variant, mod, ci, fnode, cover)
        except (PathEnd, Infeasible):
            pass
        except (BreakSig, ContinueSig):
            raise CheckerError("break/continue escaped in %s" % contract.label)
        notes |= I.notes
        work.extend(I.pending)
    return vcs, {"sha": sha, "paths": npaths, "cover": cover[0] if cover else "none", "notes": sorted(notes),
                 "lines": (fnode.lineno, getattr(fnode, "end_lineno", fnode.lineno)), "file": mod.path}


def discharge(vcs, timeout_ms=20000, extra_assumption=None, use_cvc5=True, stop_on_fail=False, skip=()):
    """Group by obligation id; an obligation is proved iff every path VC is unsat."""
    by = {}
    for vc in vcs:
        by.setdefault(vc.oid, []).append(vc)
    out = {}
    for oid, lst in by.items():
        if oid in skip:
            continue
        if stop_on_fail and any(r["result"] != "unsat" for r in out.values()):
            break
        rec = {"id": oid, "kind": lst[0].kind, "paths": len(lst), "result": "unsat", "seconds": 0.0,
               "solver": "", "model": None, "line": lst[0].lineno, "note": lst[0].note, "trivial": 0}
        solvers = set()
        for vc in lst:
            if z3.is_true(vc.goal):
                rec["trivial"] += 1
                continue
            r = solve.check_valid(vc.pc, vc.goal, timeout_ms, use_cvc5=use_cvc5)
            rec["seconds"] += r["seconds"]
            solvers.add(r["solver"])
            if "cross" in r:
                rec.setdefault("cross", {"unsat": 0, "unknown": 0, "sat": 0})[r["cross"]] += 1
            if r["result"] != "unsat":
                rec["result"] = r["result"]
                rec["model"] = r["model"]
                rec["line"] = vc.lineno
                rec["note"] = vc.note
                rec["failed_path"] = list(vc.path)
                if r["result"] == "sat":
                    break
        rec["seconds"] = round(rec["seconds"], 4)
        rec["solver"] = ",".join(sorted(solvers)) or "simplifier"
        out[oid] = rec
    return out


def verify_unit(repo, registry, contract, variant=None, timeout_ms=20000, canaries=True, opts=None):
    """Full verification of one contract variant incl. its canaries."""
    t0 = time.time()
    res = UnitResult(label=unit_label(contract, variant), key=contract.key, variant=_vdesc(variant), props=contract.props,
                     status="ok", obligations={}, canaries=[], error=None)
    try:
        vcs, info = generate(repo, registry, contract, variant, opts=opts)
        res.update(info)
        res["obligations"] = discharge(vcs, contract.timeout_ms or timeout_ms, use_cvc5=contract.timeout_ms is None)
        if info["cover"] not in ("sat", "none"):
            res["status"] = "checker-error"
            res["error"] = "precondition of %s is not satisfiable (%s): vacuous contract" % (contract.label, info["cover"])
    except ExtractError as e:
        res["status"] = "missing"
        res["error"] = str(e)
    except OutsideSubset as e:
        res["status"] = "outside-subset"
        res["error"] = "OUTSIDE-SUBSET %s" % e
    except CheckerError as e:
        res["status"] = "checker-error"
        res["error"] = str(e)
    except RecursionError as e:
        res["status"] = "outside-subset"
        res["error"] = "OUTSIDE-SUBSET recursion depth"
    except Exception as e:
        res["status"] = "checker-error"
        res["error"] = "".join(traceback.format_exception_only(type(e), e)).strip() + "\n" + traceback.format_exc()[-1500:]
    if canaries and res["status"] == "ok":
        mod, ci, fnode = repo.function(contract.key)
        for can in contract.canaries:
            cres = {"name": can.name, "killed": False, "by": None, "error": None}
            try:
                mut = mutate_function(fnode, can.old, can.new, can.count)
                vcs2, _ = generate(repo, registry, contract, variant, fnode_override=mut, opts=opts)
                base_failed = set(o for o, r in res["obligations"].items() if r["result"] != "unsat")
                obl = discharge(vcs2, min(timeout_ms, 4000), use_cvc5=False, stop_on_fail=True, skip=base_failed)
                failed = [o for o, r in obl.items() if r["result"] != "unsat"]
                newly = [o for o in failed if o not in base_failed]
                if newly:
                    cres["killed"] = True
                    cres["by"] = newly[0]
            except OutsideSubset as e:
                cres["killed"] = True
                cres["by"] = "OUTSIDE-SUBSET %s" % e
            except ExtractError as e:
                # the mutation's text pattern does not occur in this version of the function: the canary says nothing
                # about this source (it is a guard for the contracts on the tree they were written for)
                cres["error"] = str(e)
                cres["skipped"] = True
            except (CheckerError, Exception) as e:
                cres["error"] = "%s: %s" % (type(e).__name__, e)
            res["canaries"].append(cres)
    res["wall_s"] = round(time.time() - t0, 3)
    return res


def unit_label(contract, variant):
    return contract.label + ("{%s}" % _vdesc(variant) if variant else "")


def _vdesc(variant):
    if not variant:
        return ""
    return ",".join("%s=%s" % (k, getattr(v, "name", v)) for k, v in sorted(variant.items()))
