#!/bin/bash
# usage: confirm_mutant.sh <worktree> <out-subdir> <seed-id> <property>
# Confirms in the scratch worktree: patch applies, full suite passes with it, demo exits 1 with it and 0 without.
set -u
WT=$1; SUB=$2; ID=$3; PROP=$4
cd "$WT" || exit 9
git checkout -q -- src 2>/dev/null
T=$(mktemp -d /tmp/tt_XXXX)
git apply "$SUB/patch.diff" || { echo "APPLY FAILED"; exit 2; }
TMPDIR=$T PYTHONPATH=$WT/src /venv/bin/python -m pytest -q -p no:cacheprovider --timeout=900 tests 2>&1 | tail -1 > $T/suite.txt
SUITE=$(cat $T/suite.txt)
(cd $SUB && TMPDIR=$T PYTHONPATH=$WT/src /venv/bin/python -W ignore demo.py > $T/demo_mut.txt 2>&1); DM=$?
git checkout -q -- src
(cd $SUB && TMPDIR=$T PYTHONPATH=$WT/src /venv/bin/python -W ignore demo.py > $T/demo_clean.txt 2>&1); DC=$?
echo "suite: $SUITE | demo with mutant exit=$DM | demo clean exit=$DC"
tail -3 $T/demo_mut.txt
if echo "$SUITE" | grep -q "^587 passed" && [ $DM -eq 1 ] && [ $DC -eq 0 ]; then
  mkdir -p /verif/seeded/$ID
  cp $SUB/patch.diff $SUB/demo.py /verif/seeded/$ID/
  [ -f $SUB/notes.md ] && cp $SUB/notes.md /verif/seeded/$ID/
  python3 - "$ID" "$PROP" "$SUITE" "$DM" "$DC" "$T/demo_mut.txt" <<'PY'
import json,sys
i,prop,suite,dm,dc,f=sys.argv[1:7]
json.dump({"id":i,"property":prop,"confirmed":{"suite_with_mutant":suite,"demo_exit_with_mutant":int(dm),"demo_exit_clean":int(dc),
 "demo_output_with_mutant":open(f).read()[-600:]},"needs":"see notes.md","ran":"tools/confirm_mutant.sh (scratch worktree, private TMPDIR)"},
 open("/verif/seeded/%s/meta.json"%i,"w"),indent=1)
PY
  echo CONFIRMED $ID
else
  echo NOT-CONFIRMED $ID
fi
rm -rf $T
