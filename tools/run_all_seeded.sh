#!/bin/bash
# Runs the quick check of its property against every seeded change under seeded/, each applied to a scratch export of
# /repo's HEAD (git archive into a temp dir, removed afterwards; /repo's working tree is never touched), and writes
# seeded/RESULTS.tsv.  usage: tools/run_all_seeded.sh [parallel jobs, default 2]
VERIF=$(cd "$(dirname "$0")/.." && pwd)
JOBS=${1:-2}
RES=$(mktemp -d /tmp/seedres.XXXXXX)
export VERIF RES
work() {
  ID=$1; PROP=${ID%%-*}
  S=$(mktemp -d /tmp/seedrun.XXXXXX)
  git -C /repo archive HEAD src | tar -x -C "$S"
  if (cd "$S" && git apply "$VERIF/seeded/$ID/patch.diff" 2>/dev/null); then
    (cd "$VERIF" && PYVC_REPO_SRC="$S/src" python3-vt bin/check "$PROP" --tier quick --no-write > "$S/out" 2>&1); RC=$?
    WHAT=$(grep -E "^  failed|^  bounded|^  shape" "$S/out" | head -3 | cut -c1-160 | tr '\n\t' '; ')
    printf "%s\t%s\t%s\t%s\n" "$ID" "$PROP" "$RC" "$WHAT" > "$RES/$ID.tsv"
  else
    printf "%s\t%s\tAPPLY-FAILED\t(superseded by a fix commit)\n" "$ID" "$PROP" > "$RES/$ID.tsv"
  fi
  rm -rf "$S"
}
export -f work
ls "$VERIF/seeded" | grep -v "RESULTS.tsv" | xargs -P "$JOBS" -I{} bash -c 'work {}'
OUT=$VERIF/seeded/RESULTS.tsv
printf "seed\tproperty\texit\tfailed obligations / cases\n" > "$OUT"
for f in $(ls "$RES" | sort); do cat "$RES/$f" >> "$OUT"; done
rm -rf "$RES"
cat "$OUT"
