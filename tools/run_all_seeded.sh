#!/bin/bash
# Applies every seeded change under /verif/seeded to /repo in turn (working tree only, never committed), runs the quick
# check of its property, undoes it, and writes seeded/RESULTS.tsv.  /repo must be clean.
cd /repo && git diff --quiet || { echo "/repo not clean"; exit 9; }
OUT=/verif/seeded/RESULTS.tsv
printf "seed\tproperty\texit\tfailed obligations / cases\n" > $OUT
for d in /verif/seeded/*/; do
  ID=$(basename $d); PROP=${ID%%-*}
  cd /repo && git apply $d/patch.diff 2>/dev/null || { printf "%s\t%s\tAPPLY-FAILED\t(superseded by a fix commit)\n" $ID $PROP >> $OUT; continue; }
  cd /verif && python3-vt bin/check $PROP --tier quick --no-write > /tmp/seeded_$ID.out 2>&1; RC=$?
  cd /repo && git checkout -q -- .
  WHAT=$(grep -E "^  failed|^  bounded|^  shape" /tmp/seeded_$ID.out | head -3 | cut -c1-160 | tr '\n\t' '; ')
  printf "%s\t%s\t%s\t%s\n" $ID $PROP $RC "$WHAT" >> $OUT
  rm -f /tmp/seeded_$ID.out
done
cat $OUT
