#!/bin/bash
# usage: tools/run_one_seeded.sh <seed-id> [tier]  -- quick check of the seed's property against a scratch export of /repo HEAD
# with the seeded change applied (PYVC_REPO_SRC); /repo is never touched.  Full output kept in /tmp/seedout_<id>.txt.
VERIF=$(cd "$(dirname "$0")/.." && pwd)
ID=$1; PROP=${ID%%-*}; TIER=${2:-quick}
S=$(mktemp -d /tmp/seedrun.XXXXXX)
git -C /repo archive HEAD src | tar -x -C "$S"
if (cd "$S" && git apply "$VERIF/seeded/$ID/patch.diff" 2>/dev/null); then
  (cd "$VERIF" && PYVC_REPO_SRC="$S/src" python3-vt bin/check "$PROP" --tier $TIER --no-write > /tmp/seedout_$ID.txt 2>&1); RC=$?
  echo "seed=$ID prop=$PROP exit=$RC"; grep -E "^  failed|^  bounded|^  shape|CHECKER|UNDECIDED" /tmp/seedout_$ID.txt | head -4 | cut -c1-220; tail -1 /tmp/seedout_$ID.txt
else
  echo "seed=$ID APPLY-FAILED"
fi
rm -rf "$S"
