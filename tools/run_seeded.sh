#!/bin/bash
# usage: run_seeded.sh <seed-id> <property> [tier]  -- applies the seeded change to /repo, runs the check, undoes it
ID=$1; PROP=$2; TIER=${3:-quick}
cd /repo && git apply /verif/seeded/$ID/patch.diff || { echo "APPLY FAILED"; exit 9; }
cd /verif && python3-vt bin/check $PROP --tier $TIER --no-write > /tmp/seeded_$ID.out 2>&1; RC=$?
cd /repo && git checkout -q -- .
echo "seed=$ID prop=$PROP exit=$RC"; grep -E "^VIOLATION|^  failed|UNDECIDED|CHECKER" /tmp/seeded_$ID.out | head -6; tail -1 /tmp/seeded_$ID.out
