#!/bin/bash
# usage: tools/run_some_seeded.sh <jobs> <seed-id>...   -- like run_all_seeded.sh for the given seeds only; merges the rows
# into seeded/RESULTS.tsv (rows of other seeds are kept).
VERIF=$(cd "$(dirname "$0")/.." && pwd)
JOBS=$1; shift
RES=$(mktemp -d /tmp/seedres.XXXXXX)
export VERIF RES
work() {
  ID=$1; PROP=${ID%%-*}
  S=$(mktemp -d /tmp/seedrun.XXXXXX)
  git -C /repo archive HEAD src | tar -x -C "$S"
  if (cd "$S" && git apply "$VERIF/seeded/$ID/patch.diff" 2>/dev/null); then
    (cd "$VERIF" && PYVC_REPO_SRC="$S/src" python3-vt bin/check "$PROP" --tier quick --no-write > "$S/out" 2>&1); RC=$?
    WHAT=$(grep -E "^  failed|^  bounded|^  shape" "$S/out" | head -3 | cut -c1-160 | tr '\n\t' '; ')
    printf "%s\t%s\t%s\t%s\n" "$ID" "$PROP" "$RC" "$WHAT" > "$RES/$ID.tsv"
  else
    printf "%s\t%s\tAPPLY-FAILED\t(superseded by a fix commit)\n" "$ID" "$PROP" > "$RES/$ID.tsv"
  fi
  rm -rf "$S"
}
export -f work
printf "%s\n" "$@" | xargs -P "$JOBS" -I{} bash -c 'work {}'
OUT=$VERIF/seeded/RESULTS.tsv
TMP=$(mktemp)
head -1 "$OUT" > "$TMP"
( tail -n +2 "$OUT" | while IFS=$'\t' read -r id rest; do [ -f "$RES/$id.tsv" ] || printf "%s\t%s\n" "$id" "$rest"; done; cat "$RES"/*.tsv ) | sort >> "$TMP"
mv "$TMP" "$OUT"
rm -rf "$RES"
for id in "$@"; do grep -P "^$id\t" "$OUT"; done
