#!/usr/bin/env python3
"""Regenerates the machine-derived parts of DESIGN.md: the seeded-change table (from seeded/RESULTS.tsv) and the
`P obligations (units)` column of table AB.3 (from evidence/*.json).  Run after `tools/run_all_seeded.sh` and after the
quick checks have rewritten their evidence."""
import csv
import json
import os
import re

ROOT = os.path.dirname(os.path.dirname(os.path.abspath(__file__)))


def seeded_table():
    rows = list(csv.reader(open(os.path.join(ROOT, "seeded", "RESULTS.tsv")), delimiter="\t"))[1:]
    lines = ["| seeded change | property | exit | caught by |", "|---|---|---|---|"]
    for sid, prop, rc, what in rows:
        if rc == "APPLY-FAILED":
            by = "— (no longer applies: the mutated lines were rewritten by a fix commit)"
        else:
            kinds = []
            m = re.search(r"failed obligation: (\S+)", what)
            if m:
                kinds.append("P `%s`" % m.group(1).replace("whoosh.", ""))
            m = re.search(r"bounded check (\S+) failed on case (\S+?);", what)
            if m:
                kinds.append("B `%s` case `%s`" % (m.group(1), m.group(2)))
            if "shape obligation" in what:
                kinds.append("shape obligation (SMT: denotations differ)")
            by = "; ".join(kinds) or ("**not detected**" if rc == "0" else "exit %s" % rc)
        lines.append("| %s | %s | %s | %s |" % (sid, prop, rc, by))
    return "\n".join(lines)


def main():
    p = os.path.join(ROOT, "DESIGN.md")
    d = open(p).read()
    a, b = d.index("<!-- SEEDED-TABLE-BEGIN -->"), d.index("<!-- SEEDED-TABLE-END -->")
    d = d[:a] + "<!-- SEEDED-TABLE-BEGIN -->\n" + seeded_table() + "\n" + d[b:]
    for f in sorted(os.listdir(os.path.join(ROOT, "evidence"))):
        e = json.load(open(os.path.join(ROOT, "evidence", f)))
        pid = e["property_id"]
        c = e["coverage"]
        n = c.get("obligations", 0)
        units = len(c.get("functions_under_contract", []))
        cell = ("%d (%s)" % (n, "shape pairs" if e["level"] == "translation_validation" else units)) if n else "0"
        m = re.search(r"^\| %s \| ([^|]*)\| ([^|]*)\|" % pid, d, re.M)
        if m:
            d = d[:m.start(2)] + " " + cell.ljust(21) + " " + d[m.end(2):]
    open(p, "w").write(d)
    print("DESIGN.md tables regenerated")


if __name__ == "__main__":
    main()
