# C01: ArrayUnionMatcher (Or of several terms in a scored search) keeps the documents of a part in an array of scores and
# treats score 0 as "no document": a matching document whose score is 0 (field boost 0) is not returned.
import sys
from whoosh import fields, query, scoring
from whoosh.filedb.filestore import RamStorage
ix = RamStorage().create_index(fields.Schema(k=fields.ID(stored=True), t=fields.TEXT))
w = ix.writer()
w.add_document(k=u"0", t=u"alfa bravo")
w.add_document(k=u"1", t=u"charlie", _t_boost=0.0)
w.add_document(k=u"2", t=u"delta alfa")
w.commit()
q = query.Or([query.Term("t", x) for x in (u"alfa", u"bravo", u"charlie", u"delta")])
with ix.searcher(weighting=scoring.Frequency()) as s:
    scored = sorted(h["k"] for h in s.search(q, limit=None))
    unscored = sorted(s.stored_fields(d)["k"] for d in q.docs(s))
print("scored search:", scored, " Query.docs:", unscored)
sys.exit(1 if scored != unscored else 0)
