import warnings; warnings.simplefilter("ignore")
from whoosh import fields, query, index
from whoosh.filedb.filestore import RamStorage, FileStorage
import tempfile, shutil
d = tempfile.mkdtemp()
schema = fields.Schema(id=fields.ID(stored=True, unique=True), a=fields.TEXT)
ix = index.create_in(d, schema)
w = ix.writer(); w.add_document(id=u"1", a=u"hello world"); w.commit()
s = ix.searcher()
print("gen0 count", s.doc_count(), s.reader().generation())
w = ix.writer(); w.add_document(id=u"2", a=u"hello there"); w.commit(merge=False)
s2 = s.refresh()
print("after append refresh:", s2.doc_count(), [h["id"] for h in s2.search(query.Every(), limit=None)], "fresh:", ix.searcher().doc_count())
w = ix.writer(); w.add_document(id=u"3", a=u"hello again"); w.commit(optimize=True)
s3 = s2.refresh()
print("after optimize refresh:", s3.doc_count(), [h["id"] for h in s3.search(query.Every(), limit=None)], "fresh:", ix.searcher().doc_count(), s3.up_to_date())
w = ix.writer(); w.delete_by_term("id", u"1"); w.commit()
s4 = s3.refresh()
print("after delete refresh:", s4.doc_count(), [h["id"] for h in s4.search(query.Every(), limit=None)], "fresh:", ix.searcher().doc_count())
bad = (s3.doc_count() != 3 or s4.doc_count() != 2)
shutil.rmtree(d)
import sys
sys.exit(1 if bad else 0)
