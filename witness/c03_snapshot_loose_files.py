import warnings; warnings.simplefilter("ignore")
from whoosh import fields, query, index
import tempfile, shutil
bad = []
for compound in (True, False):
    d = tempfile.mkdtemp()
    schema = fields.Schema(id=fields.ID(stored=True), a=fields.TEXT(vector=True), n=fields.NUMERIC(sortable=True))
    ix = index.create_in(d, schema)
    w = ix.writer(compound=compound); w.add_document(id=u"1", a=u"hello world", n=3); w.add_document(id=u"2", a=u"hello there", n=1); w.commit()
    s = ix.searcher()          # held open, nothing read yet
    w = ix.writer(compound=compound); w.add_document(id=u"3", a=u"hello again", n=2); w.commit(optimize=True)
    try:
        r = s.search(query.Term("a", u"hello"), sortedby="n", limit=None)
        print("compound=%s held searcher:" % compound, [h["id"] for h in r], list(s.reader().vector_as("frequency", 0, "a")))
    except Exception as e:
        print("compound=%s held searcher raises %s: %s" % (compound, type(e).__name__, e))
        bad.append(compound)
    shutil.rmtree(d)

import sys
sys.exit(1 if bad else 0)
