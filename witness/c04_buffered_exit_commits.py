# C03/C04: leaving a `with BufferedWriter(...)` block through an exception still commits the buffered documents
# (IndexWriter.__exit__ cancels in that case).
import sys
from whoosh import fields
from whoosh.filedb.filestore import RamStorage
from whoosh.writing import BufferedWriter
ix = RamStorage().create_index(fields.Schema(k=fields.ID(stored=True)))
try:
    with BufferedWriter(ix, period=None, limit=100) as w:
        w.add_document(k=u"a")
        raise ValueError("abort")
except ValueError:
    pass
with ix.searcher() as s:
    n = s.doc_count()
print("documents after an aborted with-block:", n)
sys.exit(1 if n else 0)
