# C03: cancel() must leave the index as it was; a field added through the cancelled writer stays in the schema the next
# writer sees? (the schema object is shared with the Index)
import sys
from whoosh import fields
from whoosh.filedb.filestore import RamStorage
st = RamStorage()
ix = st.create_index(fields.Schema(k=fields.ID(stored=True)))
w = ix.writer(); w.add_field("extra", fields.ID(stored=True)); w.cancel()
names_same = sorted(ix.schema.names())
ix2 = st.open_index()
names_reopen = sorted(ix2.schema.names())
print("same Index object:", names_same, "reopened:", names_reopen)
sys.exit(1 if names_same != ["k"] or names_reopen != ["k"] else 0)
